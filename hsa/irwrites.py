"""Classification of effects into self-state / fresh / container-parameter / IR writes.

Shared by the frame rules (C03-R1, C04-R1, C11-R3).
"""
import ast

from .effects import Effects

IR_MODULES = ("src.ir.ast", "src.ir.types", "src.ir.context", "src.ir.builtins", "src.ir.java_types",
              "src.ir.kotlin_types", "src.ir.groovy_types", "src.ir.scala_types", "src.ir.node")
FRESHISH = {"fresh", "deepfresh"}


def owner_class(f):
    g = f
    while g.outer is not None:
        g = g.outer
    return g.cls


def is_ir_function(f):
    return f.module.name in IR_MODULES


_CTOR_HELPER = {}


def _ctor_helper(f):
    """a method that is only ever called as `self.<name>(..)` from constructors (`__init__`) of IR classes: part of the
    construction of the object (a constructor body split into a helper), not a later write into an existing one"""
    key = (id(f.module), f.qualname)
    if key in _CTOR_HELPER:
        return _CTOR_HELPER[key]
    ok = False
    if f.cls is not None and f.name.startswith("_") and not f.name.startswith("__"):
        sites, bad = 0, 0
        repo = getattr(f.module, "_repo", None)
        mods = list(repo.modules.values()) if repo is not None else [f.module]
        for m in mods:
            for n in ast.walk(m.tree):
                if isinstance(n, ast.Call) and isinstance(n.func, ast.Attribute) and n.func.attr == f.name:
                    sites += 1
                    fn = n
                    while fn is not None and not isinstance(fn, (ast.FunctionDef, ast.AsyncFunctionDef)):
                        fn = getattr(fn, "_parent", None)
                    if not (isinstance(n.func.value, ast.Name) and n.func.value.id == "self" and fn is not None and
                            fn.name == "__init__"):
                        bad += 1
                elif isinstance(n, ast.Attribute) and n.attr == f.name and not isinstance(getattr(n, "_parent", None), ast.Call):
                    bad += 1            # the method escapes as a value
        ok = sites >= 1 and bad == 0
    _CTOR_HELPER[key] = ok
    return ok


def classify(f, e):
    """-> (category, detail)

    categories:
      fresh            every root tag is a freshly built object (a *field* of a fresh object is not: `(ns, decl)[1]`
                       is the old declaration; only elements of a locally built container, reached by indexing alone,
                       and constructor fields bound to deep copies count)
      self-state       the state of a non-IR object (visitor / analysis / transformation / translator)
      ctor-init        an IR class's __init__ filling in the object under construction
      container-param  subscript store / container mutator on a bare local, parameter or closure variable, possibly
                       indexed but without attribute access in its path (detail = the variable's name); each
                       property reviews the names it accepts
      ir-self          an IR class's method writing into its own receiver (detail = attribute)
      ir-write         anything else: may write into the program (detail = attribute)
    """
    tags = set(e.tags)
    if tags <= FRESHISH:
        return "fresh", None
    if tags <= FRESHISH | {"freshfield"} and e.kind in ("sub-store", "mutcall", "del") and \
            all(p == "[]" for p in e.path):
        # `d = defaultdict(set); d[k].add(x)`: an element of a container built in this very function
        return "fresh", None
    selfish = {t for t in tags if t in ("self", "param:self")}
    rest = tags - FRESHISH - selfish
    # unknown tags that only say "some call result" next to self-state do not make it an IR write
    if selfish and not [t for t in rest if t.startswith(("param:", "global:", "closure:"))]:
        if not is_ir_function(f):
            names = [p for p in e.path if p not in ("[]", "()")]
            deep = len(names) >= 2 or (e.kind in ("attr-store", "aug-store") and len(names) >= 1)
            if deep:
                # self.<field>.<attr> = v : writes into an object the visitor merely refers to
                return "ir-write", e.attr
            return "self-state", e.attr
        if f.name == "__init__" or _ctor_helper(f):
            return "ctor-init", e.attr
        return "ir-self", e.attr
    if e.kind in ("sub-store", "mutcall", "del") and e.root is not None and e.root != "self" and \
            all(p == "[]" for p in e.path) and "self" not in tags:
        # a bare local / parameter / closure container (possibly indexed): `g[k] = v`, `g[k].append(x)`
        return "container-param", e.root
    return "ir-write", e.attr


def closure_effects(repo, cls, extra_entries=(), fresh_returning=()):
    """All local effects of every function in the call-graph closure of class `cls`
    (its own and inherited methods), analysed with `self` = cls."""
    memo = repo.__dict__.setdefault("_closure_effects_memo", {})
    mkey = (cls.qualname, tuple(sorted(e.qualname for e in extra_entries)), tuple(sorted(fresh_returning)))
    if mkey in memo:
        return memo[mkey]
    E = Effects(repo, fresh_returning=fresh_returning)
    E.self_class = cls
    entries = []
    seen = set()
    for c in cls.mro():
        for name, m in c.methods.items():
            if cls.lookup(name) is m and m.qualname not in seen:
                seen.add(m.qualname)
                entries.append(m)
    entries += list(extra_entries)
    fns, edges = E.closure(entries)
    out = []
    for f in fns:
        for e in E.local(f):
            out.append((f, e, classify(f, e)))
    memo[mkey] = (E, fns, out)
    return E, fns, out
