"""Loader, symbol tables and call resolution for the hephaestus source tree.

Everything here works on `ast` trees of the *current working tree* of the
repository (default /repo, override with HSA_REPO for scratch copies).
"""
import ast
import hashlib
import os
from pathlib import Path


class AnalysisError(Exception):
    """The tree has a shape the analysis cannot evaluate (exit 2)."""

    def __init__(self, msg, rule=None, anchor=None):
        super().__init__(msg)
        self.rule = rule
        self.anchor = anchor


def repo_root():
    return Path(os.environ.get("HSA_REPO", "/repo"))


class Module:
    def __init__(self, name, path, relpath, source):
        self.name = name
        self.path = path
        self.relpath = relpath
        self.source = source
        self.sha256 = hashlib.sha256(source.encode()).hexdigest()
        try:
            self.tree = ast.parse(source, filename=str(path))
        except SyntaxError as e:
            raise AnalysisError("syntax error in %s: %s" % (relpath, e),
                                anchor=relpath)
        from . import canon, normalize
        self.normalized = normalize.apply(name, self.tree)
        self.renamed_locals = canon.apply(name, self.tree)
        self.imports = {}      # local alias -> dotted qualified name
        self.functions = {}    # top-level name -> FunctionInfo
        self.classes = {}      # top-level name -> ClassInfo
        self.globals = {}      # top-level name -> value expr (last assignment)
        for node in ast.walk(self.tree):
            for ch in ast.iter_child_nodes(node):
                ch._parent = node
            node._module = self
        self.tree._parent = None


class FunctionInfo:
    def __init__(self, node, module, cls, qualname, outer=None):
        self.node = node
        self.module = module
        self.cls = cls            # ClassInfo or None
        self.qualname = qualname
        self.outer = outer        # enclosing FunctionInfo for nested functions
        self.name = node.name
        self.nested = {}          # name -> FunctionInfo
        node._finfo = self

    @property
    def where(self):
        return "%s:%d" % (self.module.relpath, self.node.lineno)

    @property
    def params(self):
        a = self.node.args
        names = [x.arg for x in a.posonlyargs + a.args]
        if a.vararg:
            names.append(a.vararg.arg)
        names += [x.arg for x in a.kwonlyargs]
        if a.kwarg:
            names.append(a.kwarg.arg)
        return names

    @property
    def decorators(self):
        return list(self.node.decorator_list)

    def __repr__(self):
        return "<fn %s>" % self.qualname


class ClassInfo:
    def __init__(self, node, module, qualname):
        self.node = node
        self.module = module
        self.qualname = qualname
        self.name = node.name
        self.methods = {}      # name -> FunctionInfo (own)
        self.constants = {}    # class-level name -> value expr
        self.base_exprs = list(node.bases)
        self.bases = []        # resolved ClassInfo list (repo classes only)
        self.ext_bases = []    # unresolved base names (str)
        self.subclasses = []   # direct
        node._cinfo = self

    @property
    def where(self):
        return "%s:%d" % (self.module.relpath, self.node.lineno)

    def mro(self):
        seen, out = set(), []

        def rec(c):
            if c.qualname in seen:
                return
            seen.add(c.qualname)
            out.append(c)
            for b in c.bases:
                rec(b)
        rec(self)
        return out

    def lookup(self, name):
        for c in self.mro():
            if name in c.methods:
                return c.methods[name]
        return None

    def lookup_const(self, name):
        for c in self.mro():
            if name in c.constants:
                return c.constants[name]
        return None

    def all_subclasses(self):
        out, todo, seen = [], list(self.subclasses), set()
        while todo:
            c = todo.pop()
            if c.qualname in seen:
                continue
            seen.add(c.qualname)
            out.append(c)
            todo.extend(c.subclasses)
        return out

    def is_subclass_of(self, other):
        return any(c is other for c in self.mro())

    def __repr__(self):
        return "<cls %s>" % self.qualname


EXCLUDE_DIRS = {"tests", "reported", "deployment", "hephaestus.egg-info",
                ".git", "__pycache__"}


STDLIB_SIGNATURES = {
    "re.sub": ["pattern", "repl", "string", "count", "flags"],
    "re.search": ["pattern", "string", "flags"],
    "re.findall": ["pattern", "string", "flags"],
    "re.match": ["pattern", "string", "flags"],
    "re.compile": ["pattern", "flags"],
    "shutil.copytree": ["src", "dst"],
    "shutil.rmtree": ["path"],
    "shutil.copyfile": ["src", "dst"],
    "pickle.dump": ["obj", "file", "protocol"],
    "pickle.load": ["file"],
    "os.makedirs": ["name", "mode"],
}


def _move_keywords(call, params):
    """leading keyword arguments that name the next positional parameters become positional; returns 1 if any moved"""
    kws = {k.arg: k for k in call.keywords}
    i = len(call.args)
    moved = 0
    while i < len(params) and params[i] in kws:
        k = kws.pop(params[i])
        call.args.append(k.value)
        call.keywords.remove(k)
        i += 1
        moved = 1
    return moved


class Repo:
    """All parsed modules plus symbol tables."""

    def __init__(self, root=None):
        self.root = Path(root) if root else repo_root()
        self.modules = {}
        self.functions = {}   # qualname -> FunctionInfo (incl. methods/nested)
        self.classes = {}     # qualname -> ClassInfo
        self.by_method = {}   # method name -> [FunctionInfo]
        self.by_class_name = {}  # bare class name -> [ClassInfo]
        self._load()
        self._index()
        self.keyword_calls_normalized = self._positional_arguments()

    def _positional_arguments(self):
        """Canonical argument form: `f(path=p, text=t)` and `f(p, t)` are the same call.  For every call whose callee
        resolves to a function, a method reached through `self`, or a class of the repository, leading keyword
        arguments that name the next positional parameters are moved into positional position (in the analysed copy)."""
        if os.environ.get("HSA_NO_NORMALIZE"):
            return 0
        n = 0
        for m in self.modules.values():
            for node in ast.walk(m.tree):
                if not isinstance(node, ast.Call) or not node.keywords:
                    continue
                if any(isinstance(a, ast.Starred) for a in node.args) or any(k.arg is None for k in node.keywords):
                    continue
                fi = self.enclosing_function(node)
                tgt, skip = None, 0
                try:
                    tgt = self.resolve_name_expr(node.func, m, fi)
                except Exception:
                    tgt = None
                if tgt is None and isinstance(node.func, ast.Attribute) and isinstance(node.func.value, ast.Name) and \
                        node.func.value.id == "self" and fi is not None:
                    top = fi
                    while top.outer is not None:
                        top = top.outer
                    if top.cls is not None:
                        tgt = top.cls.lookup(node.func.attr)
                        skip = 1
                if isinstance(tgt, ClassInfo):
                    tgt = tgt.lookup("__init__")
                    skip = 1
                if tgt is None and isinstance(node.func, ast.Attribute):
                    # a standard-library function the rules look at positionally
                    std = STDLIB_SIGNATURES.get(ast.unparse(node.func))
                    if std is not None:
                        n += _move_keywords(node, std)
                        continue
                    # `obj.method(...)` on a receiver that cannot be resolved: if every method of that name in the
                    # repository has the same parameter list, the call has that parameter list (bound form)
                    kwn = {k.arg for k in node.keywords}
                    cands = [f for f in self.by_method.get(node.func.attr, [])
                             if "staticmethod" not in [ast.unparse(d) for d in f.node.decorator_list]
                             and kwn <= {x.arg for x in f.node.args.args[1:] + f.node.args.kwonlyargs}
                             and len(node.args) <= len(f.node.args.args) - 1]
                    sigs = {tuple(x.arg for x in f.node.args.args[1:]) for f in cands
                            if f.node.args.vararg is None and not f.node.args.posonlyargs}
                    if cands and len(sigs) == 1 and len(cands) == len([f for f in cands if f.node.args.vararg is None]):
                        n += _move_keywords(node, list(sigs.pop()))
                    continue
                if tgt is None and isinstance(node.func, ast.Subscript):
                    # COMPILERS[lang](...) / TRANSLATORS[lang](...): the registry's classes share one constructor signature
                    reg = m.globals.get(ast.unparse(node.func.value)) if isinstance(node.func.value, ast.Name) else None
                    if isinstance(reg, ast.Dict):
                        sigs = set()
                        for v in reg.values:
                            c = self.resolves_to_class(v, m)
                            init = c.lookup("__init__") if c is not None else None
                            sigs.add(tuple(x.arg for x in init.node.args.args[1:]) if init is not None else None)
                        if len(sigs) == 1 and None not in sigs:
                            n += _move_keywords(node, list(sigs.pop()))
                    continue
                if not isinstance(tgt, FunctionInfo):
                    continue
                a = tgt.node.args
                if a.vararg is not None or a.posonlyargs:
                    continue
                decos = [ast.unparse(d) for d in tgt.node.decorator_list]
                if "staticmethod" in decos:
                    skip = 0
                elif tgt.cls is not None and tgt.outer is None and skip == 0 and not isinstance(node.func, ast.Name):
                    # Class.method(...) / module-level instance method: receiver is bound or explicit - only handle the
                    # bound form (resolve_name_expr returns methods of module-level instances, e.g. ut.random.choice)
                    skip = 1
                params = [x.arg for x in a.args][skip:]
                n += _move_keywords(node, params)
        return n

    # -- loading ---------------------------------------------------------
    def _load(self):
        files = []
        top = self.root / "hephaestus.py"
        if not top.exists():
            raise AnalysisError("missing hephaestus.py under %s" % self.root,
                                anchor="hephaestus.py")
        files.append(top)
        src = self.root / "src"
        if not src.is_dir():
            raise AnalysisError("missing src/", anchor="src")
        for p in sorted(src.rglob("*.py")):
            if any(part in EXCLUDE_DIRS for part in p.relative_to(self.root).parts):
                continue
            files.append(p)
        for p in files:
            rel = str(p.relative_to(self.root))
            name = rel[:-3].replace("/", ".")
            if name.endswith(".__init__"):
                name = name[:-len(".__init__")]
            self.modules[name] = Module(name, p, rel, p.read_text())
            self.modules[name]._repo = self

    def resource(self, name):
        """Lines of src/resources/<name> or None if absent."""
        p = self.root / "src" / "resources" / name
        if not p.exists():
            return None
        return p.read_text().splitlines()

    def digests(self):
        return {m.relpath: m.sha256[:16] for m in self.modules.values()}

    # -- indexing --------------------------------------------------------
    def _index(self):
        for m in self.modules.values():
            self._index_module(m)
        for c in self.classes.values():
            for b in c.base_exprs:
                tgt = self.resolve_name_expr(b, c.module)
                if isinstance(tgt, ClassInfo):
                    c.bases.append(tgt)
                    tgt.subclasses.append(c)
                else:
                    c.ext_bases.append(ast.unparse(b))
        for f in self.functions.values():
            if f.cls is not None and f.outer is None:
                self.by_method.setdefault(f.name, []).append(f)
        for c in self.classes.values():
            self.by_class_name.setdefault(c.name, []).append(c)

    def _index_module(self, m):
        for node in m.tree.body:
            self._index_import(node, m)
        # imports inside functions / try blocks
        for node in ast.walk(m.tree):
            if isinstance(node, (ast.Import, ast.ImportFrom)) and \
                    node not in m.tree.body:
                self._index_import(node, m)
        for node in m.tree.body:
            if isinstance(node, (ast.FunctionDef, ast.AsyncFunctionDef)):
                fi = FunctionInfo(node, m, None, m.name + "." + node.name)
                m.functions[node.name] = fi
                self.functions[fi.qualname] = fi
                self._index_nested(fi)
            elif isinstance(node, ast.ClassDef):
                self._index_class(node, m, m.name)
            elif isinstance(node, ast.Assign):
                for t in node.targets:
                    if isinstance(t, ast.Name):
                        m.globals[t.id] = node.value
            elif isinstance(node, ast.AnnAssign) and node.value is not None:
                if isinstance(node.target, ast.Name):
                    m.globals[node.target.id] = node.value

    def _index_import(self, node, m):
        if isinstance(node, ast.Import):
            for a in node.names:
                if a.asname:
                    m.imports[a.asname] = a.name
                else:
                    m.imports[a.name.split(".")[0]] = a.name.split(".")[0]
        elif isinstance(node, ast.ImportFrom) and node.module:
            for a in node.names:
                m.imports[a.asname or a.name] = node.module + "." + a.name

    def _index_class(self, node, m, prefix):
        ci = ClassInfo(node, m, prefix + "." + node.name)
        if prefix == m.name:
            m.classes[node.name] = ci
        self.classes[ci.qualname] = ci
        for st in node.body:
            if isinstance(st, (ast.FunctionDef, ast.AsyncFunctionDef)):
                fi = FunctionInfo(st, m, ci, ci.qualname + "." + st.name)
                ci.methods[st.name] = fi
                self.functions[fi.qualname] = fi
                self._index_nested(fi)
            elif isinstance(st, ast.Assign):
                for t in st.targets:
                    if isinstance(t, ast.Name):
                        ci.constants[t.id] = st.value
            elif isinstance(st, ast.AnnAssign) and st.value is not None and \
                    isinstance(st.target, ast.Name):
                ci.constants[st.target.id] = st.value
            elif isinstance(st, ast.ClassDef):
                self._index_class(st, m, ci.qualname)

    def _index_nested(self, fi):
        for node in iter_own_nodes(fi.node):
            if isinstance(node, (ast.FunctionDef, ast.AsyncFunctionDef)) and \
                    node is not fi.node:
                sub = FunctionInfo(node, fi.module, fi.cls,
                                   fi.qualname + ".<locals>." + node.name,
                                   outer=fi)
                fi.nested[node.name] = sub
                self.functions[sub.qualname] = sub
                self._index_nested(sub)

    # -- lookups ---------------------------------------------------------
    def module(self, name):
        m = self.modules.get(name)
        if m is None:
            raise AnalysisError("module %s not found" % name, anchor=name)
        return m

    def fn(self, qualname):
        f = self.functions.get(qualname)
        if f is None:
            raise AnalysisError("function %s not found" % qualname,
                                anchor=qualname)
        return f

    def cls(self, qualname):
        c = self.classes.get(qualname)
        if c is None:
            raise AnalysisError("class %s not found" % qualname,
                                anchor=qualname)
        return c

    def method(self, cls_qual, name, inherited=True):
        c = self.cls(cls_qual)
        f = c.lookup(name) if inherited else c.methods.get(name)
        if f is None:
            raise AnalysisError("method %s.%s not found" % (cls_qual, name),
                                anchor=cls_qual + "." + name)
        return f

    def resolve_dotted(self, dotted):
        """Dotted qualified name -> Module / ClassInfo / FunctionInfo / ('global', module, name) / None."""
        if dotted in self.modules:
            return self.modules[dotted]
        if dotted in self.classes:
            return self.classes[dotted]
        if dotted in self.functions:
            return self.functions[dotted]
        if "." in dotted:
            head, tail = dotted.rsplit(".", 1)
            tgt = self.resolve_dotted(head)
            if isinstance(tgt, Module):
                if tail in tgt.imports:
                    return self.resolve_dotted(tgt.imports[tail])
                if tail in tgt.globals:
                    return ("global", tgt, tail)
            if isinstance(tgt, ClassInfo):
                f = tgt.lookup(tail)
                if f:
                    return f
        return None

    def resolve_name_expr(self, expr, module, func=None):
        """Resolve a Name / dotted Attribute expression used as a value."""
        parts = dotted_parts(expr)
        if parts is None:
            return None
        head = parts[0]
        # nested functions in enclosing scopes
        f = func
        while f is not None and len(parts) == 1:
            if head in f.nested:
                return f.nested[head]
            f = f.outer
        if head in module.imports:
            base = module.imports[head]
        elif head in module.classes or head in module.functions or \
                head in module.globals:
            base = module.name + "." + head
        else:
            return None
        dotted = ".".join([base] + parts[1:])
        tgt = self.resolve_dotted(dotted)
        if tgt is None and len(parts) > 1:
            # module-level instance, e.g. ut.random.choice
            inst = self.resolve_dotted(".".join([base] + parts[1:-1]))
            if isinstance(inst, tuple) and inst[0] == "global":
                cls = self.global_instance_class(inst[1], inst[2])
                if cls is not None:
                    return cls.lookup(parts[-1])
        return tgt

    def global_instance_class(self, module, name):
        val = module.globals.get(name)
        if isinstance(val, ast.Call):
            tgt = self.resolve_name_expr(val.func, module)
            if isinstance(tgt, ClassInfo):
                return tgt
        return None

    # -- call resolution -------------------------------------------------
    def enclosing_function(self, node):
        n = getattr(node, "_parent", None)
        while n is not None:
            if isinstance(n, (ast.FunctionDef, ast.AsyncFunctionDef)):
                return getattr(n, "_finfo", None)
            n = getattr(n, "_parent", None)
        return None

    def enclosing_class(self, node):
        n = getattr(node, "_parent", None)
        while n is not None:
            if isinstance(n, ast.ClassDef):
                return getattr(n, "_cinfo", None)
            n = getattr(n, "_parent", None)
        return None

    def resolve_call(self, call, func=None, local_types=None):
        """Possible callees of `call` -> (list of FunctionInfo, how).

        how: 'exact' (single static target), 'mro' (self/super dispatch,
        includes overriding subclasses), 'cha' (by method name over all repo
        classes), 'ctor', 'unresolved' (external / unknown).
        local_types: optional {local name: ClassInfo} from the caller.
        """
        if func is None:
            func = self.enclosing_function(call)
        module = call._module
        fx = call.func
        if isinstance(fx, ast.Name):
            tgt = self.resolve_name_expr(fx, module, func)
            return self._targets_of(tgt)
        if isinstance(fx, ast.Attribute):
            recv = fx.value
            # super().m()
            if isinstance(recv, ast.Call) and isinstance(recv.func, ast.Name) \
                    and recv.func.id == "super":
                cls = func.cls if func else self.enclosing_class(call)
                if cls is not None:
                    for c in cls.mro()[1:]:
                        if fx.attr in c.methods:
                            return [c.methods[fx.attr]], "exact"
                return [], "unresolved"
            if isinstance(recv, ast.Name) and recv.id in ("self", "cls") and \
                    func is not None and func.cls is not None:
                return self.dispatch(func.cls, fx.attr)
            if isinstance(recv, ast.Name) and local_types and \
                    recv.id in local_types:
                return self.dispatch(local_types[recv.id], fx.attr)
            tgt = self.resolve_name_expr(fx, module, func)
            if tgt is not None:
                return self._targets_of(tgt)
            # self.attr.m() etc -> CHA by method name
            cands = self.by_method.get(fx.attr, [])
            if cands:
                return list(cands), "cha"
            return [], "unresolved"
        return [], "unresolved"

    def dispatch(self, cls, name):
        out = []
        f = cls.lookup(name)
        if f:
            out.append(f)
        for sub in cls.all_subclasses():
            if name in sub.methods and sub.methods[name] not in out:
                out.append(sub.methods[name])
        return out, ("mro" if out else "unresolved")

    def _targets_of(self, tgt):
        if isinstance(tgt, FunctionInfo):
            return [tgt], "exact"
        if isinstance(tgt, ClassInfo):
            init = tgt.lookup("__init__")
            return ([init] if init else []), "ctor"
        return [], "unresolved"

    def resolves_to_class(self, expr, module, func=None):
        tgt = self.resolve_name_expr(expr, module, func)
        return tgt if isinstance(tgt, ClassInfo) else None


def dotted_parts(expr):
    parts = []
    while isinstance(expr, ast.Attribute):
        parts.append(expr.attr)
        expr = expr.value
    if isinstance(expr, ast.Name):
        parts.append(expr.id)
        return list(reversed(parts))
    return None


def iter_own_nodes(fn_node, include_nested_defs=True):
    """Walk nodes of a function body without descending into nested
    function/class bodies (the nested def node itself is yielded)."""
    todo = list(reversed(fn_node.body)) if hasattr(fn_node, "body") and \
        isinstance(fn_node.body, list) else [fn_node.body]
    # include decorators/args defaults? not needed
    while todo:
        n = todo.pop()
        yield n
        if isinstance(n, (ast.FunctionDef, ast.AsyncFunctionDef, ast.ClassDef)):
            continue
        if isinstance(n, ast.Lambda):
            # lambdas are part of the owning function for most purposes
            pass
        todo.extend(reversed(list(ast.iter_child_nodes(n))))


_REPO_CACHE = {}


def load_repo(root=None):
    key = str(root or repo_root())
    if key not in _REPO_CACHE:
        _REPO_CACHE[key] = Repo(key)
    return _REPO_CACHE[key]
