"""Seeded variants: AST-computed edits applied to a scratch copy of the repo.

A variant names a file, an edit function that mutates the parsed tree in
place, and the rule(s) expected to fire.  `twin=True` marks a behaviour-
preserving edit that must stay silent.  Scratch copies are symlink farms under
a fresh temp directory outside /repo and /verif, removed immediately.
"""
import ast
import os
import shutil
import tempfile
from pathlib import Path


class SkipVariant(Exception):
    """The anchor of the edit is not present in this tree."""


class Variant:
    def __init__(self, name, relpath, edit, expect, twin=False, note=""):
        self.name = name
        self.relpath = relpath      # file to rewrite (None: whole-tree twin)
        self.edit = edit            # edit(tree) -> None, or text edit for resources
        self.expect = set(expect) if expect else set()
        self.twin = twin
        self.note = note


def make_scratch(root, rewritten):
    """rewritten: {relpath: new text}.  Returns scratch root path."""
    root = Path(root)
    base = os.environ.get("HSA_SCRATCH_BASE") or tempfile.gettempdir()
    dst = Path(tempfile.mkdtemp(prefix="hsa-variant-", dir=base))
    for rel in ["hephaestus.py"]:
        _place(root, dst, rel, rewritten)
    for p in (root / "src").rglob("*"):
        rel = str(p.relative_to(root))
        if "__pycache__" in rel:
            continue
        if p.is_dir():
            (dst / rel).mkdir(parents=True, exist_ok=True)
        else:
            _place(root, dst, rel, rewritten)
    return dst


def _place(root, dst, rel, rewritten):
    target = dst / rel
    target.parent.mkdir(parents=True, exist_ok=True)
    if rel in rewritten:
        target.write_text(rewritten[rel])
    else:
        os.symlink(root / rel, target)


def drop_scratch(dst):
    shutil.rmtree(dst, ignore_errors=True)


# -- edit helpers -------------------------------------------------------------

def find_def(tree, dotted):
    """'Class.method' / 'func' / 'Class.method.inner' in a module tree."""
    cur = tree
    for part in dotted.split("."):
        nxt = None
        body = cur.body
        stack = list(body)
        # search direct children first, then nested statements (for inner defs)
        for n in stack:
            if isinstance(n, (ast.FunctionDef, ast.ClassDef)) and n.name == part:
                nxt = n
                break
        if nxt is None:
            for n in ast.walk(cur):
                if n is not cur and isinstance(n, (ast.FunctionDef, ast.ClassDef)) \
                        and n.name == part:
                    nxt = n
                    break
        if nxt is None:
            raise SkipVariant("no def %s" % dotted)
        cur = nxt
    return cur


def find_nodes(root, pred):
    return [n for n in ast.walk(root) if pred(n)]


def one(nodes, what="node"):
    if not nodes:
        raise SkipVariant("no " + what)
    return nodes[0]


def set_parents(tree):
    for n in ast.walk(tree):
        for c in ast.iter_child_nodes(n):
            c._vparent = n


def remove_stmt(tree, stmt):
    """Remove a statement from its block (replace by `pass` if it is alone)."""
    for n in ast.walk(tree):
        for name in ("body", "orelse", "finalbody"):
            blk = getattr(n, name, None)
            if isinstance(blk, list) and stmt in blk:
                if len(blk) == 1:
                    blk[0] = ast.Pass()
                else:
                    blk.remove(stmt)
                return
        if isinstance(n, ast.Try):
            for h in n.handlers:
                if stmt in h.body:
                    if len(h.body) == 1:
                        h.body[0] = ast.Pass()
                    else:
                        h.body.remove(stmt)
                    return
    raise SkipVariant("statement not found for removal")


def replace_node(tree, old, new):
    for n in ast.walk(tree):
        for field, val in ast.iter_fields(n):
            if val is old:
                setattr(n, field, new)
                return
            if isinstance(val, list):
                for i, v in enumerate(val):
                    if v is old:
                        val[i] = new
                        return
    raise SkipVariant("node not found for replacement")


def insert_before(tree, stmt, new_stmts):
    for n in ast.walk(tree):
        for name in ("body", "orelse", "finalbody"):
            blk = getattr(n, name, None)
            if isinstance(blk, list) and stmt in blk:
                i = blk.index(stmt)
                blk[i:i] = new_stmts
                return
        if isinstance(n, ast.Try):
            for h in n.handlers:
                if stmt in h.body:
                    i = h.body.index(stmt)
                    h.body[i:i] = new_stmts
                    return
    raise SkipVariant("statement not found for insertion")


def insert_after(tree, stmt, new_stmts):
    for n in ast.walk(tree):
        for name in ("body", "orelse", "finalbody"):
            blk = getattr(n, name, None)
            if isinstance(blk, list) and stmt in blk:
                i = blk.index(stmt) + 1
                blk[i:i] = new_stmts
                return
    raise SkipVariant("statement not found for insertion")


def parse_stmts(text):
    return ast.parse(text).body


def parse_expr(text):
    return ast.parse(text, mode="eval").body


def is_call_named(n, name):
    return isinstance(n, ast.Call) and (
        (isinstance(n.func, ast.Attribute) and n.func.attr == name) or
        (isinstance(n.func, ast.Name) and n.func.id == name))


def rename_local(fn, old, new):
    for n in ast.walk(fn):
        if isinstance(n, ast.Name) and n.id == old:
            n.id = new
        elif isinstance(n, ast.arg) and n.arg == old:
            n.arg = new
