"""Regex ASTs of pattern literals (re._parser), linearised into mandatory tokens."""
import ast
import re
try:
    import re._parser as sre_parse
    import re._constants as sre_c
except ImportError:  # pragma: no cover  (python < 3.11)
    import sre_parse
    import sre_constants as sre_c

from .repo import AnalysisError


def pattern_of(expr):
    """`re.compile(<str literal>[, flags])` or a bare string literal -> (pattern, flags)."""
    flags = 0
    if isinstance(expr, ast.Call) and isinstance(expr.func, ast.Attribute) and \
            expr.func.attr == "compile":
        if len(expr.args) > 1:
            flags = _flags(expr.args[1])
        for k in expr.keywords:
            if k.arg == "flags":
                flags = _flags(k.value)
        expr = expr.args[0]
    if isinstance(expr, ast.Constant) and isinstance(expr.value, str):
        return expr.value, flags
    raise AnalysisError("regex is not a string literal: %s" % ast.unparse(expr))


def _flags(e):
    if isinstance(e, ast.BinOp) and isinstance(e.op, ast.BitOr):
        return _flags(e.left) | _flags(e.right)
    if isinstance(e, ast.Attribute) and hasattr(re, e.attr):
        return int(getattr(re, e.attr))
    if isinstance(e, ast.Constant) and isinstance(e.value, int):
        return e.value
    raise AnalysisError("unknown regex flag expression %s" % ast.unparse(e))


def parse(pattern, flags=0):
    try:
        return sre_parse.parse(pattern, flags)
    except re.error as e:
        raise AnalysisError("regex does not parse: %s" % e)


def tokens(sub, optional=False):
    """Linearise: ('lit', ch) for a mandatory literal, ('set', frozenset/ANY marker, min, max),
    ('open', n) / ('close', n) for capture groups, ('opt',) for anything optional/complex."""
    out = []
    for op, av in sub:
        name = str(op)
        if name == "LITERAL":
            out.append(("lit", chr(av)) if not optional else ("opt",))
        elif name == "ANY":
            out.append(("set", "ANY", 1, 1) if not optional else ("opt",))
        elif name == "IN":
            out.append(("set", charset(av), 1, 1) if not optional else ("opt",))
        elif name in ("MAX_REPEAT", "MIN_REPEAT", "POSSESSIVE_REPEAT"):
            lo, hi, inner = av
            plain = tokens(inner, optional)
            inner_t = tokens(inner, optional or lo == 0)
            if not optional and len(plain) == 1 and plain[0][0] == "set":
                out.append(("set", plain[0][1], lo, hi))
            elif lo >= 1 and len(inner_t) == 1 and inner_t[0][0] == "lit":
                out.append(inner_t[0])
                for _ in range(min(lo, 8) - 1):
                    out.append(inner_t[0])
                if hi > lo:
                    out.append(("set", frozenset({inner_t[0][1]}), 0, hi - lo))
            elif lo == 0 and len(inner_t) == 1:
                out.append(("opt",))
            else:
                # keep group markers visible, content optional if lo == 0
                out.extend(inner_t)
                if hi > 1:
                    out.append(("opt",))
        elif name == "SUBPATTERN":
            gid, _af, _df, inner = av
            if gid is not None:
                out.append(("open", gid))
            out.extend(tokens(inner, optional))
            if gid is not None:
                out.append(("close", gid))
        elif name in ("ASSERT", "ASSERT_NOT", "AT", "GROUPREF", "GROUPREF_EXISTS", "BRANCH",
                      "NOT_LITERAL", "CATEGORY", "ATOMIC_GROUP"):
            if name == "BRANCH":
                # group markers inside alternatives are optional
                for alt in av[1]:
                    out.extend(t if t[0] in ("open", "close") else ("opt",)
                               for t in tokens(alt, True))
            elif name == "NOT_LITERAL":
                out.append(("set", "NOT:%s" % chr(av), 1, 1) if not optional else ("opt",))
            else:
                out.append(("opt",))
        else:
            out.append(("opt",))
    return out


def charset(items):
    """IN item list -> frozenset of characters (ASCII range) it accepts, or 'ANY'-like markers."""
    chars = set()
    negate = False
    for op, av in items:
        name = str(op)
        if name == "NEGATE":
            negate = True
        elif name == "LITERAL":
            chars.add(chr(av))
        elif name == "RANGE":
            lo, hi = av
            chars.update(chr(c) for c in range(lo, hi + 1))
        elif name == "CATEGORY":
            cat = str(av)
            for c in map(chr, range(0, 128)):
                if (cat == "CATEGORY_DIGIT" and c.isdigit()) or \
                        (cat == "CATEGORY_WORD" and (c.isalnum() or c == "_")) or \
                        (cat == "CATEGORY_SPACE" and c.isspace()) or \
                        (cat == "CATEGORY_NOT_SPACE" and not c.isspace()) or \
                        (cat == "CATEGORY_NOT_DIGIT" and not c.isdigit()) or \
                        (cat == "CATEGORY_NOT_WORD" and not (c.isalnum() or c == "_")):
                    chars.add(c)
    if negate:
        chars = {chr(c) for c in range(0, 128)} - chars
    return frozenset(chars)


def accepts(setspec, ch):
    if setspec == "ANY":
        return ch != "\n"
    if isinstance(setspec, str) and setspec.startswith("NOT:"):
        return ch != setspec[4:]
    return ch in setspec


def literal_runs(toks):
    """[(start_index, end_index, text)] maximal runs of mandatory literals (group markers do
    not break a run)."""
    runs, cur, start, last = [], "", None, None
    for i, t in enumerate(toks):
        if t[0] == "lit":
            if start is None:
                start = i
            cur += t[1]
            last = i
        elif t[0] in ("open", "close"):
            continue
        else:
            if cur:
                runs.append((start, last + 1, cur))
            cur, start = "", None
    if cur:
        runs.append((start, last + 1, cur))
    return runs


def group_span(toks, gid):
    try:
        return toks.index(("open", gid)), toks.index(("close", gid))
    except ValueError:
        return None


def may_match(toks, text):
    """Over-approximate `re.search`: can the linearised pattern match somewhere in `text`?

    Mandatory literals and character sets are matched exactly; everything `tokens` reports as ('opt',) - optional parts,
    alternatives, look-arounds, back-references - is relaxed to "any string".  The relaxed language contains the real
    one, so False means the real pattern cannot match `text` either (a necessary condition, decided on the regex AST)."""
    n = len(text)
    cur = set(range(n + 1))
    for t in toks:
        if not cur:
            return False
        if t[0] in ("open", "close"):
            continue
        if t[0] == "lit":
            cur = {i + 1 for i in cur if i < n and text[i] == t[1]}
        elif t[0] == "set":
            _k, spec, lo, hi = t
            nxt = set()
            for i in cur:
                j, k = i, 0
                if lo == 0:
                    nxt.add(i)
                while j < n and k < hi and accepts(spec, text[j]):
                    j += 1
                    k += 1
                    if k >= lo:
                        nxt.add(j)
            cur = nxt
        else:
            lo_i = min(cur)
            cur = set(range(lo_i, n + 1))
    return bool(cur)
