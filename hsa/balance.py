"""Bracket balance of the text a function emits, decided on its literals.

A translator method produces its text from string literals (format templates, concatenations, f-strings), from the
texts of its children and from names.  If, on every path through the method, the literals it evaluates are balanced in
(), {}, [], <> and double quotes - given that the children's texts are - then the whole translation is balanced by
induction over the tree.  This module evaluates that path condition:

* a *path* is a consistent choice of outcomes for the tests of `if` statements and conditional expressions: two
  syntactically equal tests (after canonicalising `not`, `is not`, `!=`, `not in`) take the same outcome as long as no
  name they mention is re-bound in between (the repeated-identical-guard idiom: `if c: "(" ... if c: ")"`);
* format templates are split with the standard library's own parser (string.Formatter().parse), so `{{` / `}}` count
  as braces and replacement fields do not;
* a loop body, a comprehension element, a lambda body and a `join` separator must each be balanced by themselves
  (they are evaluated an unknown number of times);
* names of module-level / class-level string constants count where they are used; calls of functions and methods of
  the same module contribute the balances of their own paths (summaries, recursion assumed balanced).

Nothing of the repository is executed: only literals are parsed.  Arrows and bound operators (`->`, `=>`, `<:`, `>:`,
`<=`, `>=`) are removed before angle brackets are counted.
"""
import ast
import re
import string

from .repo import AnalysisError

Z = (0, 0, 0, 0, 0)
NAMES = ("()", "{}", "[]", '"', "<>")
_ARROWS = ("->", "=>", "<:", ">:", "<=", ">=")
MAX_STATES = 6000


def lit_bal(s, is_format=False, is_percent=False):
    if is_format:
        try:
            s = "".join(lit for lit, _f, _s, _c in string.Formatter().parse(s))
        except ValueError:
            pass
    if is_percent:
        s = re.sub(r"%\(\w+\)", "%", s)
    t = s
    for a in _ARROWS:
        t = t.replace(a, "")
    return (s.count("(") - s.count(")"), s.count("{") - s.count("}"), s.count("[") - s.count("]"),
            s.count('"') % 2, t.count("<") - t.count(">"))


def add(a, b):
    return (a[0] + b[0], a[1] + b[1], a[2] + b[2], (a[3] + b[3]) % 2, a[4] + b[4])


def describe(b):
    out = []
    for v, n in zip(b, NAMES):
        if v:
            out.append("%s %+d" % (n, v) if n != '"' else 'odd number of "')
    return ", ".join(out) or "balanced"


def canon(t):
    pol = True
    while isinstance(t, ast.UnaryOp) and isinstance(t.op, ast.Not):
        t = t.operand
        pol = not pol
    if isinstance(t, ast.Compare) and len(t.ops) == 1 and isinstance(t.ops[0], (ast.IsNot, ast.NotEq, ast.NotIn)):
        op = {ast.IsNot: ast.Is, ast.NotEq: ast.Eq, ast.NotIn: ast.In}[type(t.ops[0])]()
        t = ast.Compare(left=t.left, ops=[op], comparators=t.comparators)
        pol = not pol
    return ast.unparse(t), pol


class Explosion(Exception):
    pass


class Balance:
    """per module: summaries of its functions"""

    def __init__(self, repo, module):
        self.repo = repo
        self.m = module
        self.consts = {}
        for st in module.tree.body:
            if isinstance(st, ast.Assign) and len(st.targets) == 1 and isinstance(st.targets[0], ast.Name) and \
                    isinstance(st.value, ast.Constant) and isinstance(st.value.value, str):
                self.consts[st.targets[0].id] = st.value.value
        self.summaries = {}
        self.in_progress = set()
        self.notes = {}

    # -- expression evaluation --------------------------------------------------------------------------------
    def _const_of(self, e, fi):
        if isinstance(e, ast.Name) and isinstance(e.ctx, ast.Load) and e.id in self.consts:
            return self.consts[e.id]
        if isinstance(e, ast.Attribute) and isinstance(e.value, ast.Name) and fi is not None and fi.cls is not None:
            if e.value.id in ("self", "cls", fi.cls.node.name):
                c = fi.cls.lookup_const(e.attr)
                if isinstance(c, ast.Constant) and isinstance(c.value, str):
                    return c.value
        return None

    def _callee(self, call, fi):
        f = call.func
        if isinstance(f, ast.Name):
            return self.repo.functions.get(self.m.name + "." + f.id)
        if isinstance(f, ast.Attribute) and isinstance(f.value, ast.Name) and f.value.id in ("self", "cls") and \
                fi is not None and fi.cls is not None:
            t = fi.cls.lookup(f.attr)
            if t is not None and t.module is self.m:
                return t
        return None

    def ev(self, states, e, fi, notes):
        if e is None or not states:
            return states
        if len(states) > MAX_STATES:
            raise Explosion()
        if isinstance(e, ast.Constant):
            if isinstance(e.value, str):
                lb = lit_bal(e.value)
                if lb != Z:
                    return {(add(b, lb), env) for b, env in states}
            return states
        c = self._const_of(e, fi)
        if c is not None:
            lb = lit_bal(c)
            return {(add(b, lb), env) for b, env in states} if lb != Z else states
        if isinstance(e, ast.JoinedStr):
            for v in e.values:
                states = self.ev(states, v if isinstance(v, ast.Constant) else v.value, fi, notes)
            return states
        if isinstance(e, ast.Call) and isinstance(e.func, ast.Attribute) and isinstance(e.func.value, ast.Constant) and \
                isinstance(e.func.value.value, str):
            if e.func.attr == "format":
                lb = lit_bal(e.func.value.value, is_format=True)
                states = {(add(b, lb), env) for b, env in states}
            elif e.func.attr == "join":
                lb = lit_bal(e.func.value.value)
                if lb != Z:
                    notes.append((e.lineno, "separator %r of join is evaluated between all elements and is not "
                                  "balanced by itself (%s)" % (e.func.value.value, describe(lb))))
            else:
                states = self.ev(states, e.func.value, fi, notes)
            for a in e.args:
                states = self.ev(states, a, fi, notes)
            for k in e.keywords:
                states = self.ev(states, k.value, fi, notes)
            return states
        if isinstance(e, ast.BinOp) and isinstance(e.op, ast.Mod) and isinstance(e.left, ast.Constant) and \
                isinstance(e.left.value, str):
            lb = lit_bal(e.left.value, is_percent=True)
            states = {(add(b, lb), env) for b, env in states}
            return self.ev(states, e.right, fi, notes)
        if isinstance(e, ast.IfExp):
            t, f = self.decide(states, e.test, fi, notes)
            return self.ev(t, e.body, fi, notes) | self.ev(f, e.orelse, fi, notes)
        if isinstance(e, ast.BoolOp):
            out = self.ev(states, e.values[0], fi, notes)
            for v in e.values[1:]:
                out = out | self.ev(out, v, fi, notes)
            return out
        if isinstance(e, ast.Compare):
            return states            # literals that are compared with are not emitted
        if isinstance(e, ast.Lambda):
            inner = self.ev({(Z, frozenset())}, e.body, fi, notes)
            bad = {b for b, _ in inner} - {Z}
            if bad:
                notes.append((e.lineno, "lambda body is not balanced by itself (%s)" % describe(sorted(bad)[0])))
            return states
        if isinstance(e, (ast.ListComp, ast.SetComp, ast.GeneratorExp, ast.DictComp)):
            elts = [e.elt] if not isinstance(e, ast.DictComp) else [e.key, e.value]
            inner = {(Z, frozenset())}
            for x in elts:
                inner = self.ev(inner, x, fi, notes)
            bad = {b for b, _ in inner} - {Z}
            if bad:
                notes.append((e.lineno, "comprehension element is not balanced by itself (%s)" % describe(sorted(bad)[0])))
            for g in e.generators:
                states = self.ev(states, g.iter, fi, notes)
            return states
        if isinstance(e, ast.Call):
            for ch in ast.iter_child_nodes(e):
                if isinstance(ch, ast.expr):
                    states = self.ev(states, ch, fi, notes)
                elif isinstance(ch, ast.keyword):
                    states = self.ev(states, ch.value, fi, notes)
            tgt = self._callee(e, fi)
            if tgt is not None:
                summ = self.summary(tgt)
                if summ != {Z}:
                    states = {(add(b, s), env) for b, env in states for s in summ}
            return states
        for ch in ast.iter_child_nodes(e):
            if isinstance(ch, ast.expr):
                states = self.ev(states, ch, fi, notes)
            elif isinstance(ch, ast.keyword):
                states = self.ev(states, ch.value, fi, notes)
        return states

    def decide(self, states, test, fi, notes):
        if not isinstance(test, ast.Compare):
            states = self.ev(states, test, fi, notes)
        txt, pol = canon(test)
        t, f = set(), set()
        for b, env in states:
            d = dict(env)
            if txt in d:
                (t if d[txt] == pol else f).add((b, env))
            else:
                t.add((b, env | {(txt, pol)}))
                f.add((b, env | {(txt, not pol)}))
        return t, f

    @staticmethod
    def kill(states, names):
        if not names:
            return states
        pat = re.compile(r"(?<![\w.])(%s)(?![\w])" % "|".join(re.escape(n) for n in sorted(names)))
        out = set()
        for b, env in states:
            out.add((b, frozenset((t, p) for t, p in env if not pat.search(t))))
        return out

    # -- statements ---------------------------------------------------------------------------------------------
    def block(self, stmts, states, rets, fi, notes):
        for s in stmts:
            if not states:
                break
            if len(states) > MAX_STATES:
                raise Explosion()
            if isinstance(s, ast.Return):
                rets.append((s.lineno, self.ev(states, s.value, fi, notes)))
                return set()
            if isinstance(s, ast.Raise):
                return set()
            if isinstance(s, (ast.Continue, ast.Break)):
                return states
            if isinstance(s, ast.If):
                t, f = self.decide(states, s.test, fi, notes)
                states = self.block(s.body, t, rets, fi, notes) | self.block(s.orelse, f, rets, fi, notes)
            elif isinstance(s, (ast.For, ast.While)):
                if isinstance(s, ast.For):
                    states = self.ev(states, s.iter, fi, notes)
                inner_rets = []
                b = self.block(s.body, {(Z, frozenset())}, inner_rets, fi, notes)
                bad = {x for x, _ in b} - {Z}
                if bad:
                    notes.append((s.lineno, "loop body is not balanced by itself (%s)" % describe(sorted(bad)[0])))
                for ln, st in inner_rets:       # a return inside the loop: prefix + iteration
                    rets.append((ln, {(add(b0, b1), e0) for b0, e0 in states for b1, _ in st}))
                assigned = _stores(s)
                states = self.kill(states, assigned)
                states = self.block(s.orelse, states, rets, fi, notes)
            elif isinstance(s, ast.Try):
                a = self.block(s.body, set(states), rets, fi, notes)
                for h in s.handlers:
                    a |= self.block(h.body, set(states), rets, fi, notes)
                a = self.block(s.orelse, a, rets, fi, notes) if s.orelse else a
                states = self.block(s.finalbody, a, rets, fi, notes)
            elif isinstance(s, ast.With):
                for it in s.items:
                    states = self.ev(states, it.context_expr, fi, notes)
                states = self.block(s.body, states, rets, fi, notes)
            elif isinstance(s, (ast.FunctionDef, ast.AsyncFunctionDef, ast.ClassDef)):
                pass
            elif isinstance(s, ast.Expr) and isinstance(s.value, ast.Constant):
                pass                    # docstring / bare literal
            else:
                for ch in ast.iter_child_nodes(s):
                    if isinstance(ch, ast.expr) and not isinstance(getattr(ch, "ctx", None), ast.Store):
                        states = self.ev(states, ch, fi, notes)
                states = self.kill(states, _stores(s))
        return states

    def paths(self, fi):
        """-> (list of (line, balance, decisions) for unbalanced exits, notes)"""
        notes, rets = [], []
        try:
            end = self.block(fi.node.body, {(Z, frozenset())}, rets, fi, notes)
        except Explosion:
            raise AnalysisError("too many paths in %s" % fi.qualname, anchor=fi.qualname)
        if end:
            rets.append((getattr(fi.node, "end_lineno", fi.node.lineno), end))
        bad = []
        for ln, st in rets:
            for b, env in sorted(st, key=lambda x: (x[0], sorted(x[1]))):
                if b != Z:
                    bad.append((ln, b, sorted(("" if p else "not ") + t for t, p in env)))
        return bad, notes, rets

    def summary(self, fi):
        q = fi.qualname
        if q in self.summaries:
            return self.summaries[q]
        if q in self.in_progress:
            return {Z}
        self.in_progress.add(q)
        try:
            _bad, _notes, rets = self.paths(fi)
            out = {b for _ln, st in rets for b, _ in st} or {Z}
        finally:
            self.in_progress.discard(q)
        self.summaries[q] = out
        return out


def _stores(s):
    out = {n.id for n in ast.walk(s) if isinstance(n, ast.Name) and isinstance(n.ctx, ast.Store)}
    out |= {ast.unparse(n) for n in ast.walk(s) if isinstance(n, ast.Attribute) and isinstance(n.ctx, ast.Store)}
    # a mutating call on a name may change what a test of that name answers
    for n in ast.walk(s):
        if isinstance(n, ast.Call) and isinstance(n.func, ast.Attribute) and \
                n.func.attr in ("append", "extend", "pop", "add", "remove", "clear", "update", "insert") and \
                isinstance(n.func.value, (ast.Name, ast.Attribute)):
            out.add(ast.unparse(n.func.value))
    return out


def check_module(repo, modname, rule, label, Ob, callers_only=False, only_names=None):
    """one obligation per function of the module: every path evaluates balanced literals"""
    m = repo.modules.get(modname)
    if m is None:
        raise AnalysisError("module %s not found" % modname, rule=rule, anchor=modname)
    bal = Balance(repo, m)
    obs = []
    called = set()
    fis = [fi for q, fi in sorted(repo.functions.items()) if fi.module is m and fi.outer is None]
    # a helper that is called from a function of the module is judged in its callers (its text is part of theirs)
    for fi in fis:
        for n in ast.walk(fi.node):
            if isinstance(n, ast.Call):
                t = bal._callee(n, fi)
                if t is not None and t is not fi:
                    called.add(t.qualname)
    for fi in fis:
        if only_names is not None and fi.name not in only_names:
            continue
        bad, notes, rets = bal.paths(fi)
        helper = fi.qualname in called and not fi.name.startswith("visit_")
        if helper and bad and not notes:
            # unbalanced by itself but only ever used inside callers, where it is counted: judged there
            obs.append(Ob(rule, "%s:%s:literals-balanced-on-every-path" % (label, fi.qualname.split(".", 3)[-1]),
                          "%s:%d" % (m.relpath, fi.node.lineno), True,
                          "helper with an unbalanced text of its own; judged inside its callers", {"helper": True}))
            continue
        msg = ""
        if bad:
            ln, b, env = bad[0]
            msg = ("the literals evaluated on the path to line %d are not balanced: %s (decisions: %s); with balanced "
                   "children texts the emitted text is unbalanced" % (ln, describe(b), "; ".join(env) or "none"))
        elif notes:
            msg = "line %d: %s" % notes[0]
        obs.append(Ob(rule, "%s:%s:literals-balanced-on-every-path" % (label, fi.qualname.split(".", 3)[-1]),
                      "%s:%d" % (m.relpath, (bad[0][0] if bad else notes[0][0] if notes else fi.node.lineno)),
                      not bad and not notes, msg,
                      {"exits": len(rets), "paths": sum(len(st) for _l, st in rets)}))
    return obs
