"""Setup-time self test: byte-compile the engine and run its positive examples."""
import compileall
import sys
from pathlib import Path


def main():
    here = Path(__file__).resolve().parent
    ok = compileall.compile_dir(str(here), quiet=1, force=False)
    from . import repo, cfg, astutil, report, variants  # noqa: F401
    import ast
    # tiny positive examples for the engine itself
    t = ast.parse("def f(a):\n    if a:\n        return 1\n    x = a\n    for i in x:\n        if i:\n            continue\n        y = i\n    return x\n")
    for n in ast.walk(t):
        for c in ast.iter_child_nodes(n):
            c._parent = n
    t._parent = None
    fn = t.body[0]
    g = cfg.CFG(fn)
    last = fn.body[-1]
    assert [d[2] for d in g.defs_reaching("x", last)] == ["assign"]
    gs = astutil.flat_guards(fn.body[1])
    assert [(astutil.src(a), b) for a, b in gs] == [("a", False)], gs
    y = fn.body[2].body[1]
    assert [(astutil.src(a), b) for a, b in astutil.flat_guards(y)] == [("a", False), ("i", False)]
    # regex tokens
    from . import regexast, absint
    toks = regexast.tokens(regexast.parse(r'([a-z/]+.kt):\d+:[ ]+error:[ ]+(.*)'))
    assert any("error: " in t for _a, _b, t in regexast.literal_runs(toks))
    assert regexast.may_match(toks, "a/b.kt:3: error: m")
    assert not regexast.may_match(toks, "a/b.kt:3: warning: m")
    assert not regexast.may_match(regexast.tokens(regexast.parse(r'x:[ ]+\d+:')), "x: -1:")
    # finite-domain evaluation
    f = ast.parse("def f(c, x):\n    if c is None or x:\n        return 'A'\n    v = ['A'] + (['B'] if g.flag else [])\n    return pick(v)\n").body[0]
    r = absint.run(f, {"c": 1, "x": False}, {"g.flag": True, "pick()": lambda env, l: absint.Choice(l)})
    assert isinstance(r, absint.Choice) and r.options == frozenset({"A", "B"})
    # effect classification on an in-memory module
    import tempfile, os, shutil
    from .effects import Effects
    d = tempfile.mkdtemp(prefix="hsa-selftest-")
    try:
        os.makedirs(os.path.join(d, "src"))
        open(os.path.join(d, "hephaestus.py"), "w").write("x = 1\n")
        open(os.path.join(d, "src", "__init__.py"), "w").write("")
        open(os.path.join(d, "src", "m.py"), "w").write(
            "from copy import deepcopy\n"
            "def f(a, b):\n    c = deepcopy(a)\n    c.x = 1\n    b.y = 2\n    l = []\n    l.append(b)\n    s = b.items[1:]\n    s[0] = 3\n"
            "    t = (a, b)\n    u, v = t\n    v.z = 4\n    w = K(a)\n    w.k.q = 5\n    w.j.q = 6\n"
            "class K:\n    def __init__(self, a):\n        self.k = deepcopy(a)\n        self.j = a\n")
        rp = repo.Repo(d)
        E = Effects(rp)
        effs = {e.text(): sorted(e.tags) for e in E.local(rp.fn("src.m.f"))}
        assert effs["c.x = 1"] == ["deepfresh"], effs
        assert effs["b.y = 2"] == ["param:b"], effs
        assert effs["l.append(b)"] == ["fresh"], effs
        assert effs["s[0] = 3"] == ["fresh"], effs
        from .irwrites import classify
        cats = {e.text(): classify(rp.fn("src.m.f"), e)[0] for e in E.local(rp.fn("src.m.f"))}
        assert cats["v.z = 4"] == "ir-write", (cats, effs)        # an element of a fresh tuple is not fresh
        assert cats["w.k.q = 5"] == "fresh", (cats, effs)         # constructor binds the field to a deep copy
        assert cats["w.j.q = 6"] == "ir-write", (cats, effs)      # ... and this one to its argument
    finally:
        shutil.rmtree(d, ignore_errors=True)
    # bracket balance of evaluated literals: correlated guards, format templates, helpers, loops
    from . import balance as B
    d = tempfile.mkdtemp(prefix="hsa-selftest-")
    try:
        os.makedirs(os.path.join(d, "src"))
        open(os.path.join(d, "hephaestus.py"), "w").write("x = 1\n")
        open(os.path.join(d, "src", "__init__.py"), "w").write("")
        open(os.path.join(d, "src", "t.py"), "w").write(
            "CLOSE = '}'\n"
            "class T:\n"
            "    def ok_correlated(self, n):\n        r = '(' if n.cast else ''\n        r += n.text\n        if n.cast:\n            r += ')'\n        return r\n"
            "    def ok_format(self, n):\n        return '{i}class {n} {{\\n{b}\\n}}'.format(i=1, n=n.name, b=n.body)\n"
            "    def ok_helper(self, n):\n        return 'fun {' + n.body + self._close()\n"
            "    def _close(self):\n        return CLOSE\n"
            "    def bad_branch(self, n):\n        r = 'f('\n        if n.args:\n            r += n.args + ')'\n        return r\n"
            "    def bad_rebound(self, n, c):\n        r = '[' if c else ''\n        c = n.other\n        if c:\n            r += ']'\n        return r\n"
            "    def bad_loop(self, n):\n        r = ''\n        for a in n.args:\n            r += '<' + a\n        return r\n"
            "    def bad_quote(self, n):\n        return '\"' + n.literal\n")
        rp = repo.Repo(d)
        from .report import Ob as _Ob
        got = {o.key.split(":")[1]: o.ok for o in B.check_module(rp, "src.t", "X", "t", _Ob)}
        assert got == {"ok_correlated": True, "ok_format": True, "ok_helper": True, "_close": True,
                       "bad_branch": False, "bad_rebound": False, "bad_loop": False, "bad_quote": False}, got
    finally:
        shutil.rmtree(d, ignore_errors=True)
    # normaliser: boolean search folding, De Morgan, comprehension desugaring, helper inlining, local inlining
    from . import normalize as N
    h = ast.parse("def h(m, nb):\n    if not nb:\n        return False\n    for k, v in nb.items():\n        if not upd(m, k, v):\n            return False\n    return True\n").body[0]
    e = N._bool_search(N._strip_doc(h.body))
    assert ast.unparse(N._push_not(ast.UnaryOp(op=ast.Not(), operand=e))) == \
        "not nb or any((not upd(m, k, v) for k, v in nb.items()))", ast.unparse(e)
    mod = ast.parse(
        "def _helper(a):\n    out = []\n    for x in a:\n        out.append(x)\n    return out\n"
        "def _pred(t):\n    return t.w() or t.p()\n"
        "def f(a, b):\n    r = _helper(a)\n    tmp = b.c\n    if _pred(tmp):\n        return [q for q in r if q]\n    return all(z for z in r)\n")
    st = {}
    N._inline_helpers(mod, "m", {"m.f"}, st)
    fnode = [n for n in mod.body if n.name == "f"][0]
    N._desugar_comps(fnode, set(), st, loopbuilt=frozenset({'r'}), ref_ncomps=0)
    N._inline_locals(fnode, "m.f", {}, st)
    ast.fix_missing_locations(mod)
    txt = ast.unparse(mod)
    assert "_helper" not in txt and "_pred" not in txt and "tmp" not in txt, txt
    assert "if b.c.w() or b.c.p():" in txt and "_hsa_result.append(q)" in txt and "return False" in txt, txt
    print("hsa selftest ok (compiled=%s)" % bool(ok))
    return 0


if __name__ == "__main__":
    sys.exit(main())
