"""Setup-time self test: byte-compile the engine and run its positive examples."""
import compileall
import sys
from pathlib import Path


def main():
    here = Path(__file__).resolve().parent
    ok = compileall.compile_dir(str(here), quiet=1, force=False)
    from . import repo, cfg, astutil, report, variants  # noqa: F401
    import ast
    # tiny positive examples for the engine itself
    t = ast.parse("def f(a):\n    if a:\n        return 1\n    x = a\n    for i in x:\n        if i:\n            continue\n        y = i\n    return x\n")
    for n in ast.walk(t):
        for c in ast.iter_child_nodes(n):
            c._parent = n
    t._parent = None
    fn = t.body[0]
    g = cfg.CFG(fn)
    last = fn.body[-1]
    assert [d[2] for d in g.defs_reaching("x", last)] == ["assign"]
    gs = astutil.flat_guards(fn.body[1])
    assert [(astutil.src(a), b) for a, b in gs] == [("a", False)], gs
    y = fn.body[2].body[1]
    assert [(astutil.src(a), b) for a, b in astutil.flat_guards(y)] == [("a", False), ("i", False)]
    print("hsa selftest ok (compiled=%s)" % bool(ok))
    return 0


if __name__ == "__main__":
    sys.exit(main())
