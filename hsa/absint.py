"""Finite-domain evaluation of tiny decision functions (no execution of repo code).

`run(fn_node, env, hooks)` interprets the body of a function over an environment of abstract
values.  Supported: Assign (names / tuples), If, Return, Import*, Expr(docstring); expressions:
Name, Constant, Tuple, List, BinOp(+ on lists), IfExp, BoolOp, Not, Compare(is / is not / == / in),
Attribute and Call through `hooks` (src-text keyed callbacks) or on abstract objects (`AObj`: attribute table, methods
are callables; used for values that are rebound, `t = t.bound`), subscript stores into dict values, expression
statements that call a hooked function (the hook records the call).  A nondeterministic choice is
represented by the hook returning `Choice(frozenset(...))`; the result of the run is the set of
possible return values.  Anything else raises AnalysisError (exit 2), never a guess.
"""
import ast

from .repo import AnalysisError
from .astutil import src


class Choice:
    def __init__(self, options):
        self.options = frozenset(options)

    def __repr__(self):
        return "Choice(%s)" % sorted(map(str, self.options))


class AObj:
    """abstract object: `attrs` maps attribute names to values, method names to callables(*args)"""

    cls = None     # ClassInfo: methods / class constants the attribute table does not have are taken from the repo class

    def __init__(self, name, **attrs):
        self.name = name
        self.attrs = attrs

    def __repr__(self):
        return "<%s>" % self.name


class _Super:
    """`super()` inside a method of class `after` on object `obj`"""

    def __init__(self, obj, after):
        self.obj, self.after = obj, after


_PURE_STR = {"lower", "upper", "strip", "lstrip", "rstrip", "isalpha", "isdigit", "isupper", "islower", "startswith",
             "endswith", "capitalize", "title", "replace", "format", "join", "split", "isidentifier"}
_DEPTH = [0]


def call_method(obj, cls, name, args, hooks, start_after=None):
    """run method `name` of repo class `cls` (resolved along the MRO, optionally after class `start_after`) on `obj`"""
    mro = cls.mro()
    if start_after is not None:
        mro = mro[mro.index(start_after) + 1:]
    m = next((k.methods[name] for k in mro if name in k.methods), None)
    if m is None:
        raise AnalysisError("absint: no method %s along the MRO of %s" % (name, cls.name))
    a = m.node.args
    params = [x.arg for x in a.posonlyargs + a.args]
    if a.vararg or a.kwarg or len(args) + 1 > len(params):
        raise AnalysisError("absint: cannot bind the arguments of %s" % m.qualname)
    env = {params[0]: obj, "__class__": m.cls}
    defaults = dict(zip(params[len(params) - len(a.defaults):], a.defaults))
    for i, p_ in enumerate(params[1:]):
        if i < len(args):
            env[p_] = args[i]
        elif p_ in defaults:
            env[p_] = _eval(defaults[p_], {}, hooks)
        else:
            raise AnalysisError("absint: missing argument %s of %s" % (p_, m.qualname))
    _DEPTH[0] += 1
    try:
        if _DEPTH[0] > 25:
            raise AnalysisError("absint: call depth exceeded in %s" % m.qualname)
        return run(m.node, env, hooks)
    finally:
        _DEPTH[0] -= 1


class _Break(Exception):
    pass


class _Continue(Exception):
    pass


class _Return(Exception):
    def __init__(self, v):
        self.v = v


def run(fn_node, env, hooks, final_env=None):
    """`final_env`, if given, is a dict that receives the bindings at the end of the run"""
    env = dict(env)
    try:
        _block(fn_node.body, env, hooks)
    except _Return as r:
        if final_env is not None:
            final_env.update(env)
        return r.v
    if final_env is not None:
        final_env.update(env)
    return None


def _block(stmts, env, hooks):
    for s in stmts:
        if isinstance(s, (ast.Import, ast.ImportFrom, ast.Pass)):
            continue
        if isinstance(s, ast.Expr) and isinstance(s.value, ast.Constant):
            continue
        if isinstance(s, ast.Assign):
            v = _eval(s.value, env, hooks)
            for t in s.targets:
                _bind(t, v, env)
        elif isinstance(s, ast.AugAssign) and isinstance(s.op, ast.Add) and isinstance(s.target, ast.Name):
            cur = env.get(s.target.id)
            v = _eval(s.value, env, hooks)
            if isinstance(cur, list) and isinstance(v, list):
                env[s.target.id] = cur + v
            else:
                raise AnalysisError("absint: unsupported += on %r" % (cur,))
        elif isinstance(s, ast.Expr) and isinstance(s.value, ast.Call) and isinstance(s.value.func, ast.Attribute) and \
                s.value.func.attr in ("append", "extend") and isinstance(s.value.func.value, ast.Name) and \
                isinstance(env.get(s.value.func.value.id), list) and len(s.value.args) == 1:
            v = _eval(s.value.args[0], env, hooks)
            cur = env[s.value.func.value.id]
            env[s.value.func.value.id] = cur + ([v] if s.value.func.attr == "append" else list(v))
        elif isinstance(s, ast.Expr) and isinstance(s.value, ast.Call):
            _eval(s.value, env, hooks)      # hooked call evaluated for its recorded effect
        elif isinstance(s, ast.If):
            c = _eval(s.test, env, hooks)
            _block(s.body if _truth(c, s.test) else s.orelse, env, hooks)
        elif isinstance(s, ast.Return):
            raise _Return(_eval(s.value, env, hooks) if s.value is not None else None)
        elif isinstance(s, ast.For) and not s.orelse:
            seq = _eval(s.iter, env, hooks)
            if not isinstance(seq, (list, tuple)):
                raise AnalysisError("absint: loop over a non-concrete sequence `%s`" % src(s.iter))
            for item in seq:
                _bind(s.target, item, env)
                try:
                    _block(s.body, env, hooks)
                except _Break:
                    break
                except _Continue:
                    continue
        elif isinstance(s, ast.Break):
            raise _Break()
        elif isinstance(s, ast.Continue):
            raise _Continue()
        else:
            raise AnalysisError("absint: unsupported statement `%s`" % src(s)[:60])


def _bind(t, v, env):
    if isinstance(t, ast.Name):
        env[t.id] = v
    elif isinstance(t, (ast.Tuple, ast.List)):
        if not isinstance(v, (tuple, list)) or len(v) != len(t.elts):
            raise AnalysisError("absint: cannot unpack %r into %s" % (v, src(t)))
        for x, y in zip(t.elts, v):
            _bind(x, y, env)
    elif isinstance(t, ast.Subscript) and isinstance(t.value, ast.Name) and isinstance(env.get(t.value.id), dict):
        k = _eval(t.slice, env, {})
        env[t.value.id][k if not isinstance(k, AObj) else k.name] = v
    else:
        raise AnalysisError("absint: unsupported target %s" % src(t))


def _truth(v, node):
    if isinstance(v, Choice):
        raise AnalysisError("absint: branching on a nondeterministic value at `%s`" % src(node))
    return bool(v)


def _eval(e, env, hooks):
    if isinstance(e, ast.Constant):
        return e.value
    if isinstance(e, ast.Name):
        if e.id in env:
            return env[e.id]
        if e.id in ("True", "False", "None"):
            return {"True": True, "False": False, "None": None}[e.id]
        k = env.get("__class__")
        if k is not None:
            # a class of the module the running method belongs to: its literal class attributes (`Variance.COVARIANT`)
            for st in k.module.tree.body:
                if isinstance(st, ast.ClassDef) and st.name == e.id:
                    ref = AObj("class " + e.id)
                    for b in st.body:
                        if isinstance(b, ast.Assign) and len(b.targets) == 1 and isinstance(b.targets[0], ast.Name) and \
                                isinstance(b.value, ast.Constant):
                            ref.attrs[b.targets[0].id] = b.value.value
                    return ref
        raise AnalysisError("absint: unbound name %s" % e.id)
    if isinstance(e, ast.Tuple):
        return tuple(_eval(x, env, hooks) for x in e.elts)
    if isinstance(e, ast.List):
        return [_eval(x, env, hooks) for x in e.elts]
    if isinstance(e, ast.Dict) and all(k is not None for k in e.keys):
        return {_eval(k, env, hooks): _eval(v, env, hooks) for k, v in zip(e.keys, e.values)}
    if isinstance(e, ast.BinOp) and isinstance(e.op, ast.Add):
        a, b = _eval(e.left, env, hooks), _eval(e.right, env, hooks)
        if isinstance(a, list) and isinstance(b, list):
            return a + b
        if isinstance(a, str) and isinstance(b, str):
            return a + b
        raise AnalysisError("absint: unsupported + on %r, %r" % (a, b))
    if isinstance(e, ast.IfExp):
        return _eval(e.body if _truth(_eval(e.test, env, hooks), e.test) else e.orelse, env, hooks)
    if isinstance(e, ast.BoolOp):
        if isinstance(e.op, ast.And):
            v = True
            for x in e.values:
                v = _eval(x, env, hooks)
                if not _truth(v, x):
                    return v
            return v
        v = False
        for x in e.values:
            v = _eval(x, env, hooks)
            if _truth(v, x):
                return v
        return v
    if isinstance(e, ast.UnaryOp) and isinstance(e.op, ast.Not):
        return not _truth(_eval(e.operand, env, hooks), e.operand)
    if isinstance(e, ast.Compare) and len(e.ops) == 1:
        a, b = _eval(e.left, env, hooks), _eval(e.comparators[0], env, hooks)
        op = e.ops[0]
        if isinstance(op, ast.Is):
            return a is b
        if isinstance(op, ast.IsNot):
            return a is not b
        if isinstance(op, ast.Eq):
            return a == b
        if isinstance(op, ast.NotEq):
            return a != b
        if isinstance(op, ast.In):
            return a in b
        if isinstance(op, ast.NotIn):
            return a not in b
        if isinstance(op, (ast.Lt, ast.LtE, ast.Gt, ast.GtE)) and all(
                isinstance(x, (int, float)) and not isinstance(x, bool) for x in (a, b)):
            return {ast.Lt: a < b, ast.LtE: a <= b, ast.Gt: a > b, ast.GtE: a >= b}[type(op)]
    if isinstance(e, (ast.GeneratorExp, ast.ListComp)) and len(e.generators) == 1:
        g = e.generators[0]
        seq = _eval(g.iter, env, hooks)
        if not isinstance(seq, (list, tuple)):
            raise AnalysisError("absint: comprehension over a non-concrete sequence `%s`" % src(g.iter))
        out = []
        for item in seq:
            env2 = dict(env)
            _bind(g.target, item, env2)
            if all(_truth(_eval(c, env2, hooks), c) for c in g.ifs):
                out.append(_eval(e.elt, env2, hooks))
        return out
    if isinstance(e, ast.Call) and isinstance(e.func, ast.Name) and e.func.id in ("any", "all", "bool", "len", "list",
                                                                                   "tuple", "enumerate", "zip") \
            and e.func.id not in env and (src(e.func) + "()") not in hooks and src(e) not in hooks and not e.keywords:
        args = [_eval(a, env, hooks) for a in e.args]
        if all(isinstance(a, (list, tuple)) for a in args) or e.func.id == "bool":
            if e.func.id == "bool" and len(args) == 1:
                return _truth(args[0], e)
            if e.func.id in ("any", "all") and len(args) == 1:
                return {"any": any, "all": all}[e.func.id](_truth(v, e) for v in args[0])
            if e.func.id == "len" and len(args) == 1:
                return len(args[0])
            if e.func.id in ("list", "tuple") and len(args) == 1:
                return list(args[0]) if e.func.id == "list" else tuple(args[0])
            if e.func.id == "enumerate" and len(args) == 1:
                return [(i, v) for i, v in enumerate(args[0])]
            if e.func.id == "zip":
                return [tuple(x) for x in zip(*args)]
        raise AnalysisError("absint: unsupported call `%s`" % src(e)[:60])
    if isinstance(e, (ast.Attribute, ast.Call, ast.Subscript)):
        key = src(e)
        if key in hooks:
            h = hooks[key]
            return h(env) if callable(h) else h
        # abstract objects
        if isinstance(e, ast.Attribute):
            try:
                base = _eval(e.value, env, hooks)
            except AnalysisError:
                base = None
            if isinstance(base, AObj):
                if e.attr not in base.attrs:
                    k = getattr(base, "cls", None)
                    c = k.lookup_const(e.attr) if k is not None else None
                    if c is not None:
                        return _eval(c, {}, hooks)
                    raise AnalysisError("absint: abstract object %r has no attribute %s" % (base, e.attr))
                return base.attrs[e.attr]
        if isinstance(e, ast.Subscript):
            try:
                base = _eval(e.value, env, hooks)
                idx = _eval(e.slice, env, hooks)
            except AnalysisError:
                base = idx = None
            if isinstance(base, (list, tuple)) and isinstance(idx, int) and not isinstance(idx, bool) and \
                    -len(base) <= idx < len(base):
                return base[idx]
            if isinstance(base, dict) and isinstance(idx, (str, int)) and idx in base:
                return base[idx]
        if isinstance(e, ast.Call) and isinstance(e.func, ast.Name) and e.func.id == "super" and not e.args and \
                "__class__" in env:
            me = next((v for v in env.values() if isinstance(v, AObj) and getattr(v, "cls", None) is not None), None)
            if me is not None:
                return _Super(me, env["__class__"])
        if isinstance(e, ast.Call) and isinstance(e.func, ast.Name) and e.func.id == "str" and len(e.args) == 1 and \
                not e.keywords:
            v = _eval(e.args[0], env, hooks)
            if isinstance(v, (str, int, bool)) or v is None:
                return str(v)
            raise AnalysisError("absint: str() of an abstract value `%s`" % src(e))
        if isinstance(e, ast.Call) and isinstance(e.func, ast.Attribute):
            try:
                base = _eval(e.func.value, env, hooks)
            except AnalysisError:
                base = None
            if isinstance(base, _Super):
                return call_method(base.obj, base.obj.cls, e.func.attr, [_eval(a, env, hooks) for a in e.args], hooks,
                                   start_after=base.after)
            if isinstance(base, str) and e.func.attr in _PURE_STR and not e.keywords:
                args = [_eval(a, env, hooks) for a in e.args]
                if all(isinstance(a, (str, int, tuple, list)) for a in args):
                    return getattr(base, e.func.attr)(*args)
            if isinstance(base, dict) and e.func.attr == "get" and 1 <= len(e.args) <= 2 and not e.keywords:
                args = [_eval(a, env, hooks) for a in e.args]
                if isinstance(args[0], (str, int)):
                    return base.get(*args)
            if isinstance(base, AObj):
                m = base.attrs.get(e.func.attr)
                if not callable(m):
                    if getattr(base, "cls", None) is not None and base.cls.lookup(e.func.attr) is not None:
                        return call_method(base, base.cls, e.func.attr, [_eval(a, env, hooks) for a in e.args], hooks)
                    raise AnalysisError("absint: abstract object %r has no method %s" % (base, e.func.attr))
                return m(*[_eval(a, env, hooks) for a in e.args])
        if isinstance(e, ast.Call):
            fkey = src(e.func) + "()"
            if fkey in hooks:
                args = [_eval(a, env, hooks) for a in e.args]
                return hooks[fkey](env, *args)
        raise AnalysisError("absint: no model for `%s`" % key)
    raise AnalysisError("absint: unsupported expression `%s`" % src(e)[:60])
