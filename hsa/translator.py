"""Shared facts about translators and the IR visitor protocol (used by C11, C12).

* dispatch table of ASTVisitor.visit: IR class -> visit method name
* child-kind table derived from src/ir/ast.py (children() + __init__ annotations)
* dirty-set analysis of translator attributes (A5 of DESIGN)
"""
import ast

from .repo import AnalysisError, iter_own_nodes
from .astutil import src, call_name

TRANSLATORS = {
    "java": "src.translators.java.JavaTranslator",
    "kotlin": "src.translators.kotlin.KotlinTranslator",
    "groovy": "src.translators.groovy.GroovyTranslator",
    "scala": "src.translators.scala.ScalaTranslator",
}
STRUCTURAL = {"SuperClassInstantiation", "FieldDeclaration", "ParameterDeclaration", "CallArgument",
              "TypeParameter", "Program"}
UNANNOTATED = {("FunctionDeclaration", "type_parameters"): {"TypeParameter"},
               ("Lambda", "params"): {"ParameterDeclaration"}}


def dispatch_table(repo):
    """{IR class name: visit method name} from the dict literal in ASTVisitor.visit"""
    f = repo.method("src.ir.visitors.ASTVisitor", "visit", inherited=False)
    dicts = [n for n in iter_own_nodes(f.node) if isinstance(n, ast.Dict) and len(n.keys) > 5]
    if len(dicts) != 1:
        raise AnalysisError("ASTVisitor.visit: dispatch dict not found", anchor=f.qualname)
    out = {}
    for k, v in zip(dicts[0].keys, dicts[0].values):
        if not (isinstance(k, ast.Attribute) and isinstance(v, ast.Attribute) and src(v.value) == "self"):
            raise AnalysisError("ASTVisitor.visit: unexpected dispatch entry %s" % src(k), anchor=f.qualname)
        out[k.attr] = v.attr
    return out


def _ir_class(repo, name):
    for q in ("src.ir.ast." + name, "src.ir.types." + name):
        if q in repo.classes:
            return repo.classes[q]
    return None


def child_kinds(repo):
    """{IR class name: set of IR class names that can occur among its children()}"""
    disp = dispatch_table(repo)
    kinds = set(disp)
    expr_cls = repo.cls("src.ir.ast.Expr")
    exprs = {k for k in kinds if _ir_class(repo, k) is not None and _ir_class(repo, k).is_subclass_of(expr_cls)}
    node_like = kinds - STRUCTURAL

    def of_annotation(cname, attr, ann):
        if ann is None:
            got = UNANNOTATED.get((cname, attr))
            if got is None:
                raise AnalysisError("child attribute %s.%s has no annotation and is not in the reviewed table"
                                    % (cname, attr), anchor="src.ir.ast." + cname)
            return set(got)
        a = ann.replace("types.", "")
        if a.startswith("List[") and a.endswith("]"):
            a = a[5:-1]
        if a == "Expr":
            return set(exprs)
        if a == "Node":
            return set(node_like)
        if a in kinds:
            return {a}
        raise AnalysisError("cannot interpret annotation %r of %s.%s" % (ann, cname, attr), anchor="src.ir.ast." + cname)

    out = {}
    for cname in sorted(kinds):
        c = _ir_class(repo, cname)
        if c is None:
            raise AnalysisError("dispatch class %s not found" % cname, anchor="src.ir.visitors.ASTVisitor.visit")
        if cname == "Program":
            f = repo.method("src.ir.ast.Program", "add_declaration", inherited=False)
            d = [n for n in iter_own_nodes(f.node) if isinstance(n, ast.Dict)]
            if len(d) != 1:
                raise AnalysisError("Program.add_declaration: table not found", anchor=f.qualname)
            out[cname] = {src(k) for k in d[0].keys}
            continue
        ch = c.lookup("children")
        if ch is None:
            raise AnalysisError("%s has no children()" % cname, anchor=c.qualname)
        attrs = sorted({n.attr for n in ast.walk(ch.node) if isinstance(n, ast.Attribute) and
                        isinstance(n.value, ast.Name) and n.value.id == "self"})
        res = set()
        for a in attrs:
            ann = None
            found = False
            for k in c.mro():
                init = k.methods.get("__init__")
                if init is None:
                    continue
                for arg in init.node.args.args[1:]:
                    if arg.arg == a:
                        ann = src(arg.annotation) if arg.annotation is not None else None
                        found = True
                if found:
                    break
            if not found:
                # attribute fed by a differently named constructor argument (Is: lexpr <- expr)
                if cname == "Is" and a == "lexpr":
                    ann = "Expr"
                else:
                    raise AnalysisError("%s.children() uses self.%s which no __init__ argument names" % (cname, a),
                                        anchor=c.qualname)
            res |= of_annotation(cname, a, ann)
        out[cname] = res
    return out


# -- dirty-set analysis ---------------------------------------------------------------

class DirtyAnalysis:
    """May-dirty attributes of a translator at the exit of each of its methods.

    Abstract state: {attr: 'E'|'D'} (E = equal to its value at method entry) and `saved`:
    {local: attr} for locals bound to self.attr while it was E.
    """

    def __init__(self, repo, cls, attrs, stack_attrs=()):
        self.repo = repo
        self.cls = cls
        self.attrs = set(attrs)
        self.stack_attrs = set(stack_attrs)
        self.disp = dispatch_table(repo)
        self.kinds = child_kinds(repo)
        self.visit_to_kind = {v: k for k, v in self.disp.items()}
        self.methods = {}
        for c in cls.mro():
            for n, m in c.methods.items():
                if n not in self.methods:
                    self.methods[n] = m
        self.summary = {n: set() for n in self.methods}
        self.notes = {}
        self._fix()

    def _fix(self):
        for _round in range(30):
            changed = False
            for n, m in self.methods.items():
                d = self._analyse(n, m)
                if d != self.summary[n]:
                    self.summary[n] = d
                    changed = True
            if not changed:
                return
        raise AnalysisError("dirty-set analysis did not converge", anchor=self.cls.qualname)

    # state = (dict attr->'E'/'D', dict saved) ; None = unreachable
    def _analyse(self, name, m):
        self._exits = []
        self._cur = (name, m)
        st = ({a: "E" for a in self.attrs}, {})
        # decorators: wrapper effects (change_namespace restores; append_to pushes/pops stack attrs and may
        # append results).  Their own attribute stores are analysed as part of the wrapper function below.
        st = self._block(m.node.body, st)
        if st is not None:
            self._exits.append(st)
        dirty = set()
        for s in self._exits:
            dirty |= {a for a, v in s[0].items() if v == "D"}
        # wrappers
        for d in m.decorators:
            base = d.func if isinstance(d, ast.Call) else d
            tgt = self.repo.resolve_name_expr(base, m.module)
            if tgt is not None and hasattr(tgt, "nested"):
                for w in tgt.nested.values():
                    dirty |= self._wrapper_dirty(w)
        return dirty

    def _wrapper_dirty(self, w):
        """attributes a decorator's inner function leaves different (save/restore recognised)"""
        self._exits = []
        saved_cur = self._cur
        self._cur = (w.name, w)
        st = ({a: "E" for a in self.attrs}, {})
        st = self._block(w.node.body, st)
        if st is not None:
            self._exits.append(st)
        self._cur = saved_cur
        out = set()
        for s in self._exits:
            out |= {a for a, v in s[0].items() if v == "D"}
        return out

    def _join(self, a, b):
        if a is None:
            return b
        if b is None:
            return a
        st = {k: ("D" if a[0][k] == "D" or b[0][k] == "D" else "E") for k in a[0]}
        sv = {k: v for k, v in a[1].items() if b[1].get(k) == v}
        return (st, sv)

    def _copy(self, s):
        return (dict(s[0]), dict(s[1])) if s is not None else None

    def _block(self, stmts, st):
        for s in stmts:
            if st is None:
                return None
            st = self._stmt(s, st)
        return st

    def _stmt(self, s, st):
        if isinstance(s, (ast.FunctionDef, ast.ClassDef, ast.Pass, ast.Import, ast.ImportFrom, ast.Global)):
            return st
        if isinstance(s, ast.Return):
            if s.value is not None:
                st = self._expr_effects(s.value, st)
            self._exits.append(st)
            return None
        if isinstance(s, ast.Raise):
            return None
        if isinstance(s, (ast.Break, ast.Continue)):
            # handled conservatively by the loop join
            self._loop_leaves.append(st)
            return None
        if isinstance(s, ast.If):
            st = self._expr_effects(s.test, st)
            a = self._block(s.body, self._copy(st))
            b = self._block(s.orelse, self._copy(st)) if s.orelse else self._copy(st)
            return self._join(a, b)
        if isinstance(s, (ast.For, ast.While)):
            if isinstance(s, ast.For):
                st = self._expr_effects(s.iter, st)
                for n in ast.walk(s.target):
                    if isinstance(n, ast.Name):
                        st[1].pop(n.id, None)
            outer_leaves = getattr(self, "_loop_leaves", [])
            cur = self._copy(st)
            for _i in range(4):
                self._loop_leaves = []
                if isinstance(s, ast.While):
                    cur = self._expr_effects(s.test, cur)
                body = self._block(s.body, self._copy(cur))
                nxt = self._join(cur, body)
                for lv in self._loop_leaves:
                    nxt = self._join(nxt, lv)
                if nxt == cur:
                    break
                cur = nxt
            self._loop_leaves = outer_leaves
            if s.orelse:
                cur = self._block(s.orelse, cur)
            return cur
        if isinstance(s, ast.With):
            for it in s.items:
                st = self._expr_effects(it.context_expr, st)
            return self._block(s.body, st)
        if isinstance(s, ast.Try):
            a = self._block(s.body, self._copy(st))
            res = a
            for h in s.handlers:
                res = self._join(res, self._block(h.body, self._join(self._copy(st), self._copy(a))))
            if s.orelse and res is not None:
                res = self._block(s.orelse, res)
            if s.finalbody and res is not None:
                res = self._block(s.finalbody, res)
            return res
        if isinstance(s, ast.Assign):
            st = self._expr_effects(s.value, st)
            for t in s.targets:
                st = self._assign(t, s.value, st)
            return st
        if isinstance(s, ast.AugAssign):
            st = self._expr_effects(s.value, st)
            t = s.target
            if isinstance(t, ast.Attribute) and src(t.value) == "self" and t.attr in self.attrs:
                st[0][t.attr] = "D"
            elif isinstance(t, ast.Name):
                st[1].pop(t.id, None)
            return st
        if isinstance(s, ast.AnnAssign):
            if s.value is not None:
                st = self._expr_effects(s.value, st)
                st = self._assign(s.target, s.value, st)
            return st
        if isinstance(s, (ast.Expr, ast.Assert, ast.Delete)):
            for e in ast.iter_child_nodes(s):
                if isinstance(e, ast.expr):
                    st = self._expr_effects(e, st)
            return st
        raise AnalysisError("dirty-set analysis: unsupported statement %s in %s" % (
            type(s).__name__, self._cur[1].qualname), anchor=self._cur[1].qualname)

    def _assign(self, t, value, st):
        if isinstance(t, ast.Attribute) and src(t.value) == "self":
            a = t.attr
            if a in self.attrs:
                if isinstance(value, ast.Name) and st[1].get(value.id) == a:
                    st[0][a] = "E"
                elif isinstance(value, ast.Attribute) and src(value) == "self." + a:
                    pass
                else:
                    st[0][a] = "D"
            return st
        if isinstance(t, ast.Name):
            st[1].pop(t.id, None)
            if isinstance(value, ast.Attribute) and src(value.value) == "self" and value.attr in self.attrs and \
                    st[0][value.attr] == "E":
                st[1][t.id] = value.attr
            return st
        if isinstance(t, (ast.Tuple, ast.List)):
            for e in t.elts:
                if isinstance(e, ast.Name):
                    st[1].pop(e.id, None)
                elif isinstance(e, ast.Attribute) and src(e.value) == "self" and e.attr in self.attrs:
                    st[0][e.attr] = "D"
            return st
        return st

    def _expr_effects(self, e, st):
        """apply the effects of calls inside expression e (visitor protocol / own methods)"""
        if st is None:
            return None
        for c in [n for n in ast.walk(e) if isinstance(n, ast.Call)]:
            dirty = self._call_dirty(c)
            for a in dirty:
                st[0][a] = "D"
        return st

    def _call_dirty(self, c):
        n = call_name(c)
        f = c.func
        if isinstance(f, ast.Attribute):
            recv = f.value
            if n == "accept" and len(c.args) == 1 and src(c.args[0]) == "self":
                return self._children_dirty()
            if src(recv) == "self":
                if n == "visit":
                    return self._children_dirty()
                if n in self.summary:
                    return set(self.summary[n])
                return set()
            if isinstance(recv, ast.Call) and src(recv.func) == "super" and n in self.summary:
                # super().m: the parent's implementation; use the class-level summary of the parent if distinct
                return set(self.summary.get(n, set()))
        return set()

    def _children_dirty(self):
        name = self._cur[0]
        kinds = self._kinds_visited_by(name, set())
        out = set()
        for k in kinds:
            out |= self.summary.get(self.disp[k], set())
        return out

    def _kinds_visited_by(self, name, seen):
        """child kinds a method may visit: its own node kind's children, or for a helper the union over
        the visitors that call it (`self.<helper>(...)`)"""
        kind = self.visit_to_kind.get(name)
        if kind is not None:
            return set(self.kinds.get(kind, set()))
        if name in seen:
            return set()
        seen.add(name)
        if not hasattr(self, "_callers"):
            self._callers = {}
            for n, m in self.methods.items():
                for c in ast.walk(m.node):
                    if isinstance(c, ast.Call) and isinstance(c.func, ast.Attribute) and \
                            src(c.func.value) in ("self", "super()") and c.func.attr in self.methods:
                        self._callers.setdefault(c.func.attr, set()).add(n)
        out = set()
        callers = self._callers.get(name, set()) - {name}
        if not callers:
            return set(self.disp) - {"Program"}
        for c in callers:
            out |= self._kinds_visited_by(c, seen)
        return out

    def parents_of(self, kind):
        return sorted(k for k, ch in self.kinds.items() if kind in ch)
