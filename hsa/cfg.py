"""Statement-level CFG, dominators, reaching definitions, provenance.

Nodes are integers; node attributes: `stmt` (ast.stmt or None for
ENTRY/EXIT/synthetic joins) and `kind` ('entry','exit','stmt','test',
'for','handler').  Compound statements contribute a header node (`If`/`While`
test, `For` iteration, `With` items, `Try` marker) and their blocks.
"""
import ast

import networkx as nx

from .repo import AnalysisError
from .astutil import src


class CFG:
    def __init__(self, fn_node):
        self.fn = fn_node
        self.g = nx.DiGraph()
        self._n = 0
        self.entry = self._new(None, "entry")
        self.exit = self._new(None, "exit")
        self.node_of = {}      # id(stmt) -> cfg node id of its header
        self.returns = []      # cfg nodes of Return statements
        self.raises = []
        ends = self._block(fn_node.body, [self.entry], [], [])
        for e in ends:
            self.g.add_edge(e, self.exit)
        self._dom = None
        self._pdom = None
        self._rd = None

    # -- construction ----------------------------------------------------
    def _new(self, stmt, kind):
        i = self._n
        self._n += 1
        self.g.add_node(i, stmt=stmt, kind=kind)
        if stmt is not None and id(stmt) not in getattr(self, "node_of", {}):
            self.node_of[id(stmt)] = i
        return i

    def _link(self, preds, n):
        for p in preds:
            self.g.add_edge(p, n)

    def _block(self, stmts, preds, loops, handlers):
        """Returns list of fall-through predecessors after the block.
        loops: stack of (continue_target, break_collector list).
        handlers: stack of lists of handler entry nodes (innermost last)."""
        cur = list(preds)
        for s in stmts:
            cur = self._stmt(s, cur, loops, handlers)
        return cur

    def _may_raise_to(self, n, handlers):
        if handlers:
            for h in handlers[-1]:
                self.g.add_edge(n, h)

    def _stmt(self, s, preds, loops, handlers):
        if isinstance(s, ast.If):
            t = self._new(s, "test")
            self._link(preds, t)
            self._may_raise_to(t, handlers)
            a = self._block(s.body, [t], loops, handlers)
            b = self._block(s.orelse, [t], loops, handlers) if s.orelse else [t]
            return a + b
        if isinstance(s, (ast.For, ast.AsyncFor)):
            h = self._new(s, "for")
            self._link(preds, h)
            self._may_raise_to(h, handlers)
            brk = []
            body_end = self._block(s.body, [h], loops + [(h, brk)], handlers)
            self._link(body_end, h)
            after = self._block(s.orelse, [h], loops, handlers) if s.orelse else [h]
            return after + brk
        if isinstance(s, ast.While):
            h = self._new(s, "test")
            self._link(preds, h)
            self._may_raise_to(h, handlers)
            brk = []
            body_end = self._block(s.body, [h], loops + [(h, brk)], handlers)
            self._link(body_end, h)
            infinite = isinstance(s.test, ast.Constant) and bool(s.test.value)
            after = [] if infinite else \
                (self._block(s.orelse, [h], loops, handlers) if s.orelse else [h])
            return after + brk
        if isinstance(s, (ast.With, ast.AsyncWith)):
            h = self._new(s, "stmt")
            self._link(preds, h)
            self._may_raise_to(h, handlers)
            return self._block(s.body, [h], loops, handlers)
        if isinstance(s, ast.Try):
            h = self._new(s, "stmt")
            self._link(preds, h)
            hnodes = []
            for hd in s.handlers:
                hn = self._new(hd, "handler")
                hnodes.append(hn)
            # exception may happen before the first statement of the body
            for hn in hnodes:
                self.g.add_edge(h, hn)
            body_end = self._block(s.body, [h], loops, handlers + [hnodes]
                                   if hnodes else handlers)
            if s.orelse:
                body_end = self._block(s.orelse, body_end, loops, handlers)
            ends = list(body_end)
            for hd, hn in zip(s.handlers, hnodes):
                ends += self._block(hd.body, [hn], loops, handlers)
            if s.finalbody:
                ends = self._block(s.finalbody, ends, loops, handlers)
            return ends
        if isinstance(s, ast.Match):
            h = self._new(s, "test")
            self._link(preds, h)
            ends = [h]
            for c in s.cases:
                ends += self._block(c.body, [h], loops, handlers)
            return ends
        n = self._new(s, "stmt")
        self._link(preds, n)
        self._may_raise_to(n, handlers)
        if isinstance(s, ast.Return):
            self.returns.append(n)
            self.g.add_edge(n, self.exit)
            return []
        if isinstance(s, ast.Raise):
            self.raises.append(n)
            if not handlers:
                self.g.add_edge(n, self.exit)
            return []
        if isinstance(s, ast.Break):
            if not loops:
                raise AnalysisError("break outside loop")
            loops[-1][1].append(n)
            return []
        if isinstance(s, ast.Continue):
            if not loops:
                raise AnalysisError("continue outside loop")
            self.g.add_edge(n, loops[-1][0])
            return []
        return [n]

    # -- queries ---------------------------------------------------------
    def node(self, stmt):
        """CFG node of the statement that contains `stmt_or_expr`."""
        s = stmt
        while s is not None and id(s) not in self.node_of:
            s = getattr(s, "_parent", None)
            if s is self.fn:
                s = None
        if s is None:
            raise AnalysisError("statement not in CFG: %s" % src(stmt)[:60])
        return self.node_of[id(s)]

    def stmt(self, n):
        return self.g.nodes[n]["stmt"]

    def dominators(self):
        if self._dom is None:
            idom = nx.immediate_dominators(self.g, self.entry)
            self._dom = idom
        return self._dom

    def postdominators(self):
        if self._pdom is None:
            rg = nx.DiGraph()
            rg.add_nodes_from(self.g.nodes)
            rg.add_edges_from((b, a) for a, b in self.g.edges)
            self._pdom = nx.immediate_dominators(rg, self.exit)
        return self._pdom

    def dominates(self, a, b):
        """a dominates b (a on every path entry->b)."""
        idom = self.dominators()
        if b not in idom:
            return False  # unreachable
        n = b
        while True:
            if n == a:
                return True
            if idom.get(n, n) == n:
                return False
            n = idom[n]

    def postdominates(self, a, b):
        """a post-dominates b (a on every path b->exit)."""
        idom = self.postdominators()
        if b not in idom:
            return False
        n = b
        while True:
            if n == a:
                return True
            if idom.get(n, n) == n:
                return False
            n = idom[n]

    def reachable_from(self, a):
        return nx.descendants(self.g, a)

    def path_exists_avoiding(self, a, b, avoid):
        """Is there a path a ->+ b that does not pass through any node in
        `avoid` (a and b themselves are allowed)?"""
        avoid = set(avoid) - {a, b}
        seen, todo = set(), [s for s in self.g.successors(a)]
        while todo:
            n = todo.pop()
            if n in seen or n in avoid:
                continue
            if n == b:
                return True
            seen.add(n)
            todo.extend(self.g.successors(n))
        return False

    # -- reaching definitions ---------------------------------------------
    def defs_of_node(self, n):
        """Names (re)bound by CFG node n -> list of (name, value_expr or None, kind)."""
        s = self.stmt(n)
        kind = self.g.nodes[n]["kind"]
        out = []
        if kind == "entry":
            a = self.fn.args
            for x in a.posonlyargs + a.args + a.kwonlyargs:
                out.append((x.arg, None, "param"))
            if a.vararg:
                out.append((a.vararg.arg, None, "param"))
            if a.kwarg:
                out.append((a.kwarg.arg, None, "param"))
            return out
        if s is None:
            return out
        if isinstance(s, ast.Assign):
            for t in s.targets:
                out.extend(_target_defs(t, s.value, "assign"))
        elif isinstance(s, ast.AnnAssign):
            if s.value is not None:
                out.extend(_target_defs(s.target, s.value, "assign"))
        elif isinstance(s, ast.AugAssign):
            if isinstance(s.target, ast.Name):
                out.append((s.target.id, s, "augassign"))
        elif isinstance(s, (ast.For, ast.AsyncFor)):
            out.extend(_target_defs(s.target, s.iter, "for"))
        elif isinstance(s, (ast.With, ast.AsyncWith)):
            for it in s.items:
                if it.optional_vars is not None:
                    out.extend(_target_defs(it.optional_vars, it.context_expr,
                                            "with"))
        elif isinstance(s, ast.ExceptHandler):
            if s.name:
                out.append((s.name, None, "except"))
        elif isinstance(s, (ast.FunctionDef, ast.AsyncFunctionDef, ast.ClassDef)):
            out.append((s.name, s, "def"))
        elif isinstance(s, (ast.Import, ast.ImportFrom)):
            for a in s.names:
                out.append(((a.asname or a.name).split(".")[0], None, "import"))
        # walrus
        if isinstance(s, ast.stmt):
            roots = [s.test] if isinstance(s, (ast.If, ast.While)) else \
                ([s.iter] if isinstance(s, ast.For) else
                 ([s] if not isinstance(s, (ast.With, ast.Try, ast.FunctionDef,
                                            ast.ClassDef)) else []))
            for r in roots:
                for w in ast.walk(r):
                    if isinstance(w, ast.NamedExpr):
                        out.append((w.target.id, w.value, "assign"))
        return out

    def reaching(self):
        """IN sets: node -> {name: set(def_node_id)}."""
        if self._rd is not None:
            return self._rd
        g = self.g
        gen = {}
        for n in g.nodes:
            d = {}
            for name, _v, _k in self.defs_of_node(n):
                d[name] = {n}
            gen[n] = d
        IN = {n: {} for n in g.nodes}
        OUT = {n: dict(gen[n]) for n in g.nodes}
        work = list(nx.dfs_preorder_nodes(g, self.entry))
        inwork = set(work)
        while work:
            n = work.pop(0)
            inwork.discard(n)
            new_in = {}
            for p in g.predecessors(n):
                for name, ds in OUT[p].items():
                    new_in.setdefault(name, set()).update(ds)
            IN[n] = new_in
            new_out = {k: set(v) for k, v in new_in.items()}
            for name, ds in gen[n].items():
                new_out[name] = set(ds)
            if new_out != OUT[n]:
                OUT[n] = new_out
                for s in g.successors(n):
                    if s not in inwork:
                        work.append(s)
                        inwork.add(s)
        self._rd = IN
        return IN

    def defs_reaching(self, name, at_stmt):
        """[(def cfg node, value expr or None, kind)] of `name` reaching the
        statement that contains `at_stmt` (an ast node inside the function)."""
        n = self.node(at_stmt)
        ds = self.reaching()[n].get(name, set())
        out = []
        for d in sorted(ds):
            for nm, v, k in self.defs_of_node(d):
                if nm == name:
                    out.append((d, v, k))
        return out


def _target_defs(target, value, kind):
    out = []
    if isinstance(target, ast.Name):
        out.append((target.id, value, kind))
    elif isinstance(target, (ast.Tuple, ast.List)):
        vals = None
        if kind == "assign" and isinstance(value, (ast.Tuple, ast.List)) and \
                len(value.elts) == len(target.elts):
            vals = value.elts
        for i, t in enumerate(target.elts):
            if vals is not None:
                out.extend(_target_defs(t, vals[i], kind))
            else:
                out.extend(_target_defs(t, ("unpack", value, i), kind + "-unpack"))
    elif isinstance(target, ast.Starred):
        out.extend(_target_defs(target.value, ("unpack", value, None), kind))
    return out


_CFG_CACHE = {}


def cfg_of(fn_node):
    key = id(fn_node)
    c = _CFG_CACHE.get(key)
    if c is None or c.fn is not fn_node:
        c = CFG(fn_node)
        _CFG_CACHE[key] = c
    return c


# -- provenance ------------------------------------------------------------

class Prov:
    """Backward def-use closure of an expression inside one function.

    `sources(expr)` returns the set of *leaf* expressions (ast nodes or
    ('param', name)) that the value may derive from, following local names
    through their reaching definitions, attribute reads, subscripts,
    conditional expressions, bool-ops, tuple packing/unpacking and the calls
    named in `passthrough` (their arguments and receiver are followed).
    Calls not in `passthrough` are leaves (the Call node itself).
    """

    def __init__(self, fn_node, passthrough=(), max_depth=10,
                 follow_receiver=True):
        self.fn = fn_node
        self.cfg = cfg_of(fn_node)
        # iteration wrappers hand their operands' elements through: `for i, x in enumerate(xs)` takes x from xs
        self.passthrough = set(passthrough) | {"enumerate", "zip", "reversed", "sorted", "list", "tuple", "iter"}
        self.max_depth = max_depth
        self.follow_receiver = follow_receiver

    def sources(self, expr, at=None):
        out = []
        self._walk(expr, at or expr, 0, set(), out)
        return out

    def _walk(self, e, at, depth, seen, out):
        if depth > self.max_depth:
            out.append(("unknown", e))
            return
        if isinstance(e, tuple) and e and e[0] == "unpack":
            self._walk(e[1], at, depth + 1, seen, out)
            return
        if isinstance(e, ast.Name):
            if not _in_function(e, self.fn) and not _in_function(at, self.fn):
                out.append(e)
                return
            anchor = e if _in_function(e, self.fn) else at
            # comprehension / lambda local?
            binder = _comp_binder(e)
            if binder is not None:
                self._walk(binder, binder, depth + 1, seen, out)
                return
            try:
                defs = self.cfg.defs_reaching(e.id, anchor)
            except AnalysisError:
                defs = []
            if not defs:
                out.append(("free", e.id))
                return
            for d, v, k in defs:
                key = (e.id, d)
                if key in seen:
                    continue
                seen.add(key)
                if k == "param":
                    out.append(("param", e.id))
                elif v is None:
                    out.append(("opaque", e.id, k))
                elif k == "augassign":
                    self._walk(v.value, v, depth + 1, seen, out)
                    # previous value too
                    for d2, v2, k2 in self.cfg.defs_reaching(e.id, v):
                        if (e.id, d2) not in seen:
                            seen.add((e.id, d2))
                            if k2 == "param":
                                out.append(("param", e.id))
                            elif v2 is not None and k2 != "augassign":
                                self._walk(v2, self.cfg.stmt(d2), depth + 1,
                                           seen, out)
                elif k == "def":
                    out.append(v)
                else:
                    self._walk(v, self.cfg.stmt(d), depth + 1, seen, out)
            return
        if isinstance(e, ast.Attribute):
            out.append(e)   # attribute read itself is a candidate source
            self._walk(e.value, at, depth + 1, seen, out)
            return
        if isinstance(e, ast.Subscript):
            out.append(e)
            self._walk(e.value, at, depth + 1, seen, out)
            return
        if isinstance(e, ast.IfExp):
            self._walk(e.body, at, depth + 1, seen, out)
            self._walk(e.orelse, at, depth + 1, seen, out)
            return
        if isinstance(e, ast.BoolOp):
            for v in e.values:
                self._walk(v, at, depth + 1, seen, out)
            return
        if isinstance(e, (ast.Tuple, ast.List, ast.Set)):
            for v in e.elts:
                self._walk(v, at, depth + 1, seen, out)
            return
        if isinstance(e, ast.Starred):
            self._walk(e.value, at, depth + 1, seen, out)
            return
        if isinstance(e, ast.NamedExpr):
            self._walk(e.value, at, depth + 1, seen, out)
            return
        if isinstance(e, ast.BinOp):
            self._walk(e.left, at, depth + 1, seen, out)
            self._walk(e.right, at, depth + 1, seen, out)
            return
        if isinstance(e, (ast.ListComp, ast.SetComp, ast.GeneratorExp)):
            out.append(e)
            self._walk(e.elt, at, depth + 1, seen, out)
            return
        if isinstance(e, ast.Call):
            out.append(e)
            name = e.func.attr if isinstance(e.func, ast.Attribute) else \
                (e.func.id if isinstance(e.func, ast.Name) else None)
            if name in self.passthrough:
                for a in e.args:
                    self._walk(a, at, depth + 1, seen, out)
                for k in e.keywords:
                    self._walk(k.value, at, depth + 1, seen, out)
                if self.follow_receiver and isinstance(e.func, ast.Attribute):
                    self._walk(e.func.value, at, depth + 1, seen, out)
            return
        out.append(e)


def _in_function(node, fn):
    n = node
    while n is not None:
        if n is fn:
            return True
        n = getattr(n, "_parent", None)
    return False


def _comp_binder(name_node):
    """If name_node is bound by an enclosing comprehension or lambda, return
    the iterable expression (comprehension) or ('lambda-param') marker."""
    n = name_node
    p = getattr(n, "_parent", None)
    while p is not None and not isinstance(p, (ast.FunctionDef, ast.AsyncFunctionDef)):
        if isinstance(p, (ast.ListComp, ast.SetComp, ast.GeneratorExp, ast.DictComp)):
            for g in p.generators:
                if name_node.id in {x.id for x in ast.walk(g.target)
                                    if isinstance(x, ast.Name)}:
                    # the iterable is evaluated outside for the first generator
                    return g.iter
        if isinstance(p, ast.Lambda):
            if name_node.id in [a.arg for a in p.args.args]:
                return ast.Constant(value="<lambda-param:%s>" % name_node.id)
        n, p = p, getattr(p, "_parent", None)
    return None


def resolve_local(fn_node, expr, at=None, depth=4):
    """Follow single-definition locals to their value expression (an explaining variable and the expression it names
    are the same thing to a rule); returns the expression itself when it is not such a local."""
    e = expr
    anchor = at if at is not None else expr
    for _ in range(depth):
        if not isinstance(e, ast.Name):
            return e
        try:
            defs = cfg_of(fn_node).defs_reaching(e.id, anchor)
        except AnalysisError:
            return e
        if len(defs) != 1 or defs[0][2] != "assign" or not isinstance(defs[0][1], ast.AST):
            return e
        anchor = cfg_of(fn_node).stmt(defs[0][0])
        e = defs[0][1]
    return e
