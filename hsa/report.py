"""Obligations, rule results, known findings, evidence, exit codes."""
import json
import os
import time
from pathlib import Path

VERIF = Path(__file__).resolve().parent.parent
EVIDENCE_DIR = VERIF / "evidence"
KNOWN_FILE = VERIF / "known_findings.json"

ASSUMPTIONS = [
    "CPython semantics of ast, attribute assignment, copy/deepcopy and default pickling; no monkey-patching, setattr/__dict__ writes, exec/eval or metaclass tricks in the analysed code",
    "call resolution is alias/MRO/name based (class-hierarchy analysis over repo classes); unresolved calls are counted in the evidence",
    "the rules decide structural necessary conditions of the property (named per rule); values computed at run time are not decided",
    "the checker's own oracle tables (hard keyword lists, containment table, child-kind table, required read sets) are frozen from the language specifications / from the IR class definitions and cross-checked against the source on every run",
]


class Ob:
    """One obligation (rule instance)."""
    __slots__ = ("rule", "key", "where", "ok", "msg", "facts")

    def __init__(self, rule, key, where, ok, msg="", facts=None):
        self.rule = rule
        self.key = key
        self.where = where
        self.ok = bool(ok)
        self.msg = msg
        self.facts = facts

    def as_json(self):
        d = {"rule": self.rule, "construct": self.key, "where": self.where,
             "ok": self.ok}
        if self.msg:
            d["msg"] = self.msg
        if self.facts is not None:
            d["facts"] = self.facts
        return d


class RuleSpec:
    def __init__(self, rid, title, floor, func, decides=""):
        self.id = rid
        self.title = title
        self.floor = floor
        self.func = func
        self.decides = decides


def load_known():
    if not KNOWN_FILE.exists():
        return []
    return json.loads(KNOWN_FILE.read_text())


def match_known(prop, ob, known):
    for k in known:
        if k.get("status") != "known":
            continue
        if k.get("property") == prop and k.get("rule") == ob.rule and \
                k.get("construct") == ob.key:
            return k
    return None


def write_evidence(prop, tier, seed, coverage, wall_s, violations,
                   extra_assumptions=()):
    EVIDENCE_DIR.mkdir(exist_ok=True)
    ev = {
        "property_id": prop,
        "tier": tier,
        "seed": seed,
        "level": "other",
        "coverage": coverage,
        "assumptions": ASSUMPTIONS + list(extra_assumptions),
        "wall_s": round(wall_s, 3),
        "violations": violations,
    }
    tmp = EVIDENCE_DIR / (prop + ".json.tmp")
    tmp.write_text(json.dumps(ev, indent=1, sort_keys=False, default=str))
    os.replace(tmp, EVIDENCE_DIR / (prop + ".json"))
    return ev


def write_violation(prop, n, ob, repo_root):
    d = EVIDENCE_DIR / "violations"
    d.mkdir(parents=True, exist_ok=True)
    p = d / ("%s-%d.json" % (prop, n))
    p.write_text(json.dumps({
        "property": prop, "rule": ob.rule, "construct": ob.key,
        "where": ob.where, "msg": ob.msg, "facts": ob.facts,
        "repo": str(repo_root), "time": time.strftime("%Y-%m-%dT%H:%M:%SZ",
                                                        time.gmtime()),
    }, indent=1, default=str))
    return p
