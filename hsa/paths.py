"""Boolean formulas over named atoms, built from guard tests (A2 of DESIGN)."""
import ast
import itertools

from .repo import AnalysisError
from .astutil import src


def formula(test, atom_of):
    """Compile an ast test into f(env) -> bool.  atom_of(leaf) returns
    (atom_name, polarity) or None (unknown leaf -> AnalysisError)."""
    if isinstance(test, ast.BoolOp):
        subs = [formula(v, atom_of) for v in test.values]
        if isinstance(test.op, ast.And):
            return lambda env: all(f(env) for f in subs)
        return lambda env: any(f(env) for f in subs)
    if isinstance(test, ast.UnaryOp) and isinstance(test.op, ast.Not):
        f = formula(test.operand, atom_of)
        return lambda env: not f(env)
    a = atom_of(test)
    if a is None:
        raise AnalysisError("unmapped decision leaf `%s` (line %d)" % (
            src(test), getattr(test, "lineno", 0)))
    name, pol = a
    return (lambda env: env[name]) if pol else (lambda env: not env[name])


def conj(signed_tests, atom_of):
    fs = []
    for t, pol in signed_tests:
        f = formula(t, atom_of)
        fs.append(f if pol else (lambda env, f=f: not f(env)))
    return lambda env: all(f(env) for f in fs)


def rows(atoms):
    for vals in itertools.product([False, True], repeat=len(atoms)):
        yield dict(zip(atoms, vals))


def row_str(env):
    return " ".join(("" if v else "~") + k for k, v in env.items())
