"""Rules about the kernel of the type representation (src/ir/types.py) that several properties rest on.

Every rule function takes the rule id under which its obligations are reported, so that each property whose statement
depends on the kernel fact carries the rule in its own check (the fact is decided once per check run, from the current
source)."""
import ast

from .repo import AnalysisError
from .report import Ob
from .astutil import src, calls_in, call_name, iter_own_nodes

T = "src.ir.types"


def _w(f, node=None):
    return "%s:%d" % (f.module.relpath, (node or f.node).lineno)


def _type_objects():
    """abstract component types: (label, object).  A component is a type variable, a parameterized type with / without
    type variables, a plain classifier, or a projection of one of those."""
    from .absint import AObj

    def mk(label, h, v=False, p=False, w=False, inner=None):
        o = AObj(label)
        o.attrs.update(has_type_variables=lambda h=h: h, is_type_var=lambda v=v: v, is_parameterized=lambda p=p: p,
                       is_wildcard=lambda w=w: w, is_type_constructor=lambda: False, is_primitive=lambda: False,
                       bound=inner, get_bound_rec=(lambda inner=inner, o=o: inner if w else o),
                       has_wildcards=lambda: False)
        o.h = h
        return o
    base = [mk("T", True, v=True), mk("Foo<T>", True, p=True), mk("Foo<Int>", False, p=True), mk("Int", False)]
    wild = [mk("out " + b.name, b.h, w=True, inner=b) for b in base] + [mk("*", False, w=True, inner=None)]
    return base, wild


def has_type_variables_fold(repo, rid):
    """`has_type_variables` is the default condition of the substitution (`perform_type_substitution`, `substitute_type`)
    and of `to_type_variable_free`: a type that answers False is copied without looking inside.  It must therefore be the
    structural fold: a projection has type variables iff its bound has, a parameterized type iff any argument has, type
    variables and type constructors always, classifiers and built-ins never.  Decided by evaluating the method bodies
    over abstract component types."""
    from .absint import AObj, run
    obs = []
    base, wild = _type_objects()
    # projections
    m = repo.method(T + ".WildCardType", "has_type_variables", inherited=False)
    bad, n = [], 0
    for b in [None] + base + wild[:-1]:
        me = AObj("WildCardType(%s)" % (b.name if b is not None else "None"))
        inner = None if b is None else b.attrs["get_bound_rec"]()
        me.attrs.update(bound=b, get_bound_rec=lambda inner=inner: inner, variance="v", is_wildcard=lambda: True,
                        is_type_var=lambda: False, is_parameterized=lambda: False)
        got = bool(run(m.node, {m.params[0]: me}, {}))
        want = b is not None and b.h
        n += 1
        if got != want:
            bad.append("%s -> %s (must be %s)" % (me.name, got, want))
    obs.append(Ob(rid, "WildCardType.has_type_variables:iff-the-bound-has", _w(m), not bad,
                  "%d abstract projections evaluated; wrong answers: %s" % (n, bad[:4])))
    # parameterized types
    m = repo.method(T + ".ParameterizedType", "has_type_variables", inherited=False)
    comps = base + wild
    bad, n = [], 0
    for args in [[a] for a in comps] + [[a, b] for a in comps for b in comps]:
        me = AObj("Foo<%s>" % ", ".join(a.name for a in args))
        me.attrs.update(type_args=list(args), is_parameterized=lambda: True, is_type_var=lambda: False,
                        is_wildcard=lambda: False)
        got = bool(run(m.node, {m.params[0]: me}, {}))
        want = any(a.h for a in args)
        n += 1
        if got != want:
            bad.append("%s -> %s (must be %s)" % (me.name, got, want))
    obs.append(Ob(rid, "ParameterizedType.has_type_variables:iff-any-argument-has", _w(m), not bad,
                  "%d abstract argument lists evaluated; wrong answers: %s" % (n, bad[:4])))
    # constants along the MRO
    consts = {"TypeParameter": True, "TypeConstructor": True, "AbstractType": True, "SimpleClassifier": False,
              "Builtin": False}
    for cn, want in sorted(consts.items()):
        c = repo.cls(T + "." + cn)
        mm = c.lookup("has_type_variables")
        got = "no definition"
        if mm is not None:
            rets = [n_ for n_ in iter_own_nodes(mm.node) if isinstance(n_, ast.Return)]
            body = [s for s in mm.node.body if not (isinstance(s, ast.Expr) and isinstance(s.value, ast.Constant))]
            if len(rets) == 1 and len(body) == 1 and isinstance(rets[0].value, ast.Constant):
                got = rets[0].value.value
            else:
                got = "not a constant answer"
        obs.append(Ob(rid, "%s.has_type_variables:constant-%s" % (cn, want), _w(mm) if mm else "src/ir/types.py",
                      got is want, "%s.has_type_variables() resolves to %s and answers %s" %
                      (cn, mm.qualname if mm else None, got)))
    return obs


KERNEL_CTORS = {
    # class -> {field: parameter it stores}; a field not listed may be initialised freely
    "WildCardType": {"bound": "bound", "variance": "variance"},
    "TypeParameter": {"bound": "bound", "variance": "variance"},
    "TypeConstructor": {"type_parameters": "type_parameters", "supertypes": "supertypes"},
    "SimpleClassifier": {"supertypes": "supertypes"},
    "ParameterizedType": {"type_args": "type_args", "t_constructor": "t_constructor"},
    "Type": {"name": "name"},
}
_COPIES = {"list", "copy", "deepcopy", "tuple"}


def _stores_param_verbatim(value, p):
    """value is p, a copy of p, `p or K`, or `p if p is not None else K` (K mentions no p)"""
    def plain(e):
        if isinstance(e, ast.Name) and e.id == p:
            return True
        return isinstance(e, ast.Call) and call_name(e) in _COPIES and len(e.args) == 1 and not e.keywords and \
            isinstance(e.args[0], ast.Name) and e.args[0].id == p

    def no_p(e):
        return not any(isinstance(x, ast.Name) and x.id == p for x in ast.walk(e))
    if plain(value):
        return True
    if isinstance(value, ast.BoolOp) and isinstance(value.op, ast.Or) and len(value.values) == 2:
        return plain(value.values[0]) and no_p(value.values[1])
    if isinstance(value, ast.IfExp):
        t = " ".join(src(value.test).split())
        if t in ("%s is not None" % p, p):
            return plain(value.body) and no_p(value.orelse)
        if t in ("%s is None" % p, "not %s" % p):
            return plain(value.orelse) and no_p(value.body)
    return False


def constructors_verbatim(repo, rid):
    """A type object means what its constructor was given: `WildCardType(b, v)` is the projection `v b`,
    `TypeParameter(n, v, b)` the variable n with bound b.  A constructor that normalises, flattens or replaces an argument
    (a projection of a projection collapsed to its innermost bound, ...) changes the meaning of every substitution result
    that passes a projected argument into a projected position."""
    obs = []
    for cn, fields in sorted(KERNEL_CTORS.items()):
        c = repo.cls(T + "." + cn)
        init = c.methods.get("__init__")
        if init is None:
            raise AnalysisError("%s.__init__ missing" % cn, rule=rid, anchor=c.qualname)
        params = set(init.params[1:])
        rebound = sorted({n.id for n in iter_own_nodes(init.node) if isinstance(n, ast.Name) and
                          isinstance(n.ctx, ast.Store) and n.id in params})
        for fld, p in sorted(fields.items()):
            if p not in params:
                raise AnalysisError("%s.__init__ has no parameter %s" % (cn, p), rule=rid, anchor=init.qualname)
            sts = [n for n in iter_own_nodes(init.node) if isinstance(n, ast.Assign) and
                   any(src(t) == "%s.%s" % (init.params[0], fld) for t in n.targets)]
            # a field handed on to the superclass constructor counts as stored there (checked for that class)
            via_super = [k for k in calls_in(init.node) if call_name(k) == "__init__" and
                         any(isinstance(a, ast.Name) and a.id == p for a in k.args)]
            vals = [src(s.value) for s in sts]
            ok = bool(sts or via_super) and all(_stores_param_verbatim(s.value, p) or
                                                not any(isinstance(x, ast.Name) and x.id == p for x in ast.walk(s.value))
                                                for s in sts) and p not in rebound
            # at least one store takes the parameter (or the superclass constructor does)
            takes = any(_stores_param_verbatim(s.value, p) for s in sts) or bool(via_super)
            obs.append(Ob(rid, "%s.__init__:%s-is-the-argument" % (cn, fld), _w(init), ok and takes,
                          "self.%s must hold the `%s` argument as given (a copy, or a default for None): stores %s, "
                          "parameter re-bound in the constructor: %s" % (fld, p, vals, p in rebound)))
    return obs




# ---------------------------------------------------------------------------------------------- process state

_MUT_KINDS = ("sub-store", "mutcall", "del", "aug-store")
_MUT_CTORS = {"dict", "list", "set", "defaultdict", "OrderedDict", "Counter", "deque"}


def _mutable_literal(e):
    if isinstance(e, (ast.Dict, ast.List, ast.Set, ast.ListComp, ast.DictComp, ast.SetComp)):
        return True
    return isinstance(e, ast.Call) and call_name(e) in _MUT_CTORS


def process_state(repo, rid, label, E, fns):
    """Nothing may survive from one program to the next inside the process: (a) a parameter whose default is a mutable
    literal is the same object in every call that omits it - it must not be mutated in place; (b) a container created in
    a class body is shared by all instances - a method may mutate it through `self` only if every constructor of that
    class re-binds the attribute on the instance first.  `fns` is the call-graph closure the property is about."""
    obs = []
    n_defaults = 0
    bad = []
    for f in fns:
        a = f.node.args
        pos = a.posonlyargs + a.args
        pairs = list(zip(pos[len(pos) - len(a.defaults):], a.defaults)) + \
            [(k, d) for k, d in zip(a.kwonlyargs, a.kw_defaults) if d is not None]
        for arg, d in pairs:
            if not _mutable_literal(d):
                continue
            n_defaults += 1
            for e in E.local(f):
                if e.root == arg.arg and e.kind in _MUT_KINDS and all(p == "[]" for p in e.path):
                    # re-bound before the mutation on every path? then the default object is not what is mutated
                    rebinds = [n for n in iter_own_nodes(f.node) if isinstance(n, ast.Name) and n.id == arg.arg and
                               isinstance(n.ctx, ast.Store)]
                    if rebinds:
                        from .cfg import cfg_of
                        try:
                            defs = cfg_of(f.node).defs_reaching(arg.arg, e.node)
                        except AnalysisError:
                            defs = [("param", None, "param")]
                        if not any(k == "param" for _d, _v, k in defs):
                            continue
                    bad.append("%s: parameter `%s` (default %s) mutated by `%s`" % (f.qualname, arg.arg, src(d),
                                                                                   e.text()[:60]))
    obs.append(Ob(rid, "%s:no-mutable-default-is-mutated" % label, "src/", not bad,
                  "%d parameters with a mutable default in %d functions; mutated in place: %s"
                  % (n_defaults, len(fns), bad[:4])))
    # class-level containers
    byq = {f.qualname for f in fns}
    bad = []
    n_cls = 0
    for c in sorted(repo.classes.values(), key=lambda c: c.qualname):
        shared = {}
        for s in c.node.body:
            if isinstance(s, ast.Assign) and len(s.targets) == 1 and isinstance(s.targets[0], ast.Name) and \
                    _mutable_literal(s.value):
                shared[s.targets[0].id] = s
        if not shared:
            continue
        n_cls += 1
        subs = [k for k in repo.classes.values() if c in k.mro()]
        for k in subs:
            inits = [m.methods["__init__"] for m in k.mro() if "__init__" in m.methods]
            for x in shared:
                rebound = any(any(isinstance(n, ast.Assign) and any(src(t) == "%s.%s" % (i.params[0], x) for t in n.targets)
                                  for n in iter_own_nodes(i.node)) for i in inits if i.params)
                if rebound:
                    continue
                for m in {mm.qualname: mm for kk in k.mro() for mm in kk.methods.values()}.values():
                    if m.qualname not in byq:
                        continue
                    for e in E.local(m):
                        if e.kind in _MUT_KINDS and e.root in ("self", "cls", c.name, k.name) and e.path and \
                                e.path[0] == x:
                            bad.append("%s.%s is created in the class body and mutated by %s (`%s`) without being "
                                       "re-bound in a constructor of %s" % (c.name, x, m.qualname, e.text()[:50], k.name))
    bad = sorted(set(bad))
    obs.append(Ob(rid, "%s:no-class-level-container-is-mutated-through-instances" % label, "src/", not bad,
                  "%d classes with containers in the class body; shared and mutated: %s" % (n_cls, bad[:3])))
    return obs


# ---------------------------------------------------------------------------------------------- equality

EQ_TABLE = {
    # class -> attribute paths that __eq__ compares directly (self.<p> == other.<p>)
    "ParameterizedType": ["name", "supertypes", "t_constructor.__class__", "t_constructor.type_parameters", "type_args"],
    "WildCardType": ["__class__", "variance", "bound"],
    "TypeParameter": ["__class__", "name", "variance", "bound"],
    "SimpleClassifier": ["__class__", "name", "supertypes"],
    "TypeConstructor": ["__class__", "name"],
    "Builtin": ["__class__"],
}
# comparisons through a rendering that are part of today's equality (reviewed): the constructor's parameter list is
# compared as text - parameter names, variances and bound names, which is what distinguishes two constructors
EQ_WRAPPED_OK = {"TypeConstructor": {"str(self.type_parameters) == str(other.type_parameters)"}}


def equality_is_structural(repo, rid):
    """Equality of types decides `is_subtype` (it starts from `other == self`), unification (two assignments for one
    variable must be equal) and every dict / set of types.  Each class compares the listed parts attribute by attribute;
    dropping one conflates types (Kotlin `IntArray` with `Array<Int>`, two `T`s with different bounds), comparing through
    a textual rendering conflates what the rendering prints alike (nested projections print as `*`)."""
    obs = []
    for cn, attrs in sorted(EQ_TABLE.items()):
        c = repo.cls(T + "." + cn)
        m = c.methods.get("__eq__")
        if m is None:
            raise AnalysisError("%s.__eq__ missing" % cn, rule=rid, anchor=c.qualname)
        me, o = m.params[0], m.params[1]
        cmps = [n for n in iter_own_nodes(m.node) if isinstance(n, ast.Compare) and len(n.ops) == 1 and
                isinstance(n.ops[0], ast.Eq)]
        direct = set()
        wrapped = []
        for cp in cmps:
            l, r = cp.left, cp.comparators[0]
            if src(l).startswith(o + "."):
                l, r = r, l
            if isinstance(l, ast.Attribute) and isinstance(r, ast.Attribute) and src(l).startswith(me + ".") and \
                    src(r).startswith(o + ".") and src(l)[len(me) + 1:] == src(r)[len(o) + 1:]:
                direct.add(src(l)[len(me) + 1:])
            elif any(isinstance(x, ast.Call) and call_name(x) in ("str", "get_name", "repr", "format", "hash")
                     for x in ast.walk(cp)):
                text = " ".join(src(cp).split()).replace(me + ".", "self.").replace(o + ".", "other.")
                if text not in EQ_WRAPPED_OK.get(cn, ()):
                    wrapped.append(text[:70])
        # every comparison must be able to make the answer False: the comparisons are conjoined
        disj = [n for n in iter_own_nodes(m.node) if isinstance(n, ast.BoolOp) and isinstance(n.op, ast.Or) and
                any(isinstance(x, ast.Compare) for x in ast.walk(n))]
        missing = [a for a in attrs if a not in direct]
        need_wrapped = [w for w in EQ_WRAPPED_OK.get(cn, ()) if w not in
                        {" ".join(src(cp).split()).replace(me + ".", "self.").replace(o + ".", "other.") for cp in cmps}]
        obs.append(Ob(rid, "%s.__eq__:structural" % cn, _w(m), not missing and not wrapped and not disj and not need_wrapped,
                      "%s.__eq__ must compare %s attribute by attribute (self.x == other.x), all conjoined; missing: %s; "
                      "comparisons through a textual rendering (which prints nested projections ambiguously): %s; "
                      "disjunctions: %d; reviewed textual comparison missing: %s"
                      % (cn, attrs, missing, wrapped, len(disj), need_wrapped)))
    return obs


# ---------------------------------------------------------------------------------------------- variance and kind tables

VARIANCE_TABLE = {
    # module-level object -> (is_invariant, is_covariant, is_contravariant, variance_to_str)
    "Invariant": (True, False, False, ""),
    "Covariant": (False, True, False, "out"),
    "Contravariant": (False, False, True, "in"),
}


def variance_table(repo, rid):
    """`Covariant`, `Contravariant` and `Invariant` are three objects of one class told apart by an integer; every variance
    decision (containment direction, allowed projections, the `out` / `in` keyword that is printed) goes through
    is_covariant() / is_contravariant() / is_invariant() / variance_to_str().  Decided by evaluating these four methods on
    the value each named object is constructed with."""
    from .absint import AObj, call_method
    obs = []
    mod = repo.module(T)
    vc = repo.cls(T + ".Variance")
    values = {}
    for st in mod.tree.body:
        if isinstance(st, ast.Assign) and len(st.targets) == 1 and isinstance(st.targets[0], ast.Name) and \
                st.targets[0].id in VARIANCE_TABLE and isinstance(st.value, ast.Call) and call_name(st.value) == "Variance" \
                and len(st.value.args) == 1:
            a = st.value.args[0]
            v = None
            if isinstance(a, ast.Constant):
                v = a.value
            elif isinstance(a, ast.Attribute) and src(a.value) == "Variance" and vc.lookup_const(a.attr) is not None and \
                    isinstance(vc.lookup_const(a.attr), ast.Constant):
                v = vc.lookup_const(a.attr).value
            values[st.targets[0].id] = v
    if sorted(values) != sorted(VARIANCE_TABLE) or any(v is None for v in values.values()):
        raise AnalysisError("the three variance objects are not `X = Variance(<constant>)`: %s" % values, rule=rid,
                            anchor=T + ".Variance")
    obs.append(Ob(rid, "variance-objects-are-distinct", "src/ir/types.py", len(set(values.values())) == 3,
                  "Invariant / Covariant / Contravariant are constructed with %s" % values))
    init = vc.methods.get("__init__")
    stores = [n for n in iter_own_nodes(init.node) if isinstance(n, ast.Assign)] if init else []
    field = None
    if len(stores) == 1 and isinstance(stores[0].targets[0], ast.Attribute) and isinstance(stores[0].value, ast.Name) and \
            stores[0].value.id == init.params[1]:
        field = stores[0].targets[0].attr
    if field is None:
        raise AnalysisError("Variance.__init__ is not `self.<field> = value`", rule=rid, anchor=vc.qualname)
    for nm, want in sorted(VARIANCE_TABLE.items()):
        me = AObj(nm)
        me.attrs[field] = values[nm]
        me.cls = vc
        got = tuple(call_method(me, vc, m_, [], {}) for m_ in ("is_invariant", "is_covariant", "is_contravariant",
                                                                 "variance_to_str"))
        obs.append(Ob(rid, "%s:predicates-and-keyword" % nm, _w(vc.methods["is_covariant"]), got == want,
                      "%s (value %r): (is_invariant, is_covariant, is_contravariant, variance_to_str) evaluates to %s, must "
                      "be %s" % (nm, values[nm], got, want)))
    return obs


KIND_TABLE = {
    # class -> predicates that answer True; every other kind predicate answers False
    "TypeParameter": {"is_type_var"},
    "WildCardType": {"is_wildcard"},
    "ParameterizedType": {"is_parameterized"},
    "TypeConstructor": {"is_type_constructor"},
    "SimpleClassifier": set(),
    "Builtin": set(),
    "NothingType": set(),
}
KIND_PREDICATES = ("is_type_var", "is_wildcard", "is_parameterized", "is_type_constructor")


def kind_table(repo, rid):
    """Every algorithm on types is a case analysis by `is_type_var()` / `is_wildcard()` / `is_parameterized()` /
    `is_type_constructor()`.  Each class of the representation answers exactly its own kind (resolved along the MRO,
    each a constant)."""
    obs = []
    for cn, true_ones in sorted(KIND_TABLE.items()):
        c = repo.cls(T + "." + cn)
        for pn in KIND_PREDICATES:
            m = c.lookup(pn)
            got = "no definition"
            if m is not None:
                body = [s for s in m.node.body if not (isinstance(s, ast.Expr) and isinstance(s.value, ast.Constant))]
                if len(body) == 1 and isinstance(body[0], ast.Return) and isinstance(body[0].value, ast.Constant):
                    got = body[0].value.value
                else:
                    got = "not a constant answer"
            want = pn in true_ones
            obs.append(Ob(rid, "%s.%s:%s" % (cn, pn, want), _w(m) if m else "src/ir/types.py", got is want,
                          "%s.%s() resolves to %s and answers %s (must be %s)" % (cn, pn, m.qualname if m else None, got, want)))
    return obs
