"""C19 - graph queries agree with their textbook definitions (search-schema part).

Every query of src/graph_utils.py is an instance of a worklist search, a recursive traversal or a composition of
those.  The rules below decide the *ingredients* of each schema - what is seeded, which collection is iterated, under
which test a vertex is pushed / a path is extended, under which path condition an answer is given.  Each ingredient is a
necessary condition of exactness (DESIGN section 14 names the graph that breaks it).  Roles are identified by what is
done with a name (the name tested by the `while`, the target of `pop`, the container that is marked), never by
spelling.  A function whose roles cannot be identified is an ANALYSIS-ERROR (shape unknown), not a violation.
"""
import ast

from ..repo import AnalysisError, iter_own_nodes
from ..report import Ob, RuleSpec
from ..astutil import src, flat_guards, parent, ancestors, is_within, const_value
from .. import variants as V

PROPERTY = "C19"
TITLE = "Graph queries agree with their textbook definitions"
DECIDES = ("Decided: the ingredients of the search schema each query of src/graph_utils.py instantiates - the worklist "
           "is seeded with the start vertex only; the vertices pushed come from an unsliced, unbroken iteration over the "
           "adjacency of the popped vertex (for weak connectivity also over every vertex that has the popped one in its "
           "adjacency); a vertex is pushed / a recursion entered exactly under the negative visited test of that vertex "
           "and marked under the same condition; a positive answer is given only under equality with the destination, a "
           "negative one only at exhaustion; the compositions (bi_reachable, find_all_*) call the right query with the "
           "right argument order over all vertices; dfs marks before it follows edges and returns the marked vertices "
           "other than the source; find_all_paths extends the path by a new list, recurses exactly under `node not in "
           "path` and keeps every returned path; find_longest_paths keeps a path iff no path has it as a proper prefix "
           "(the compared slice has the length of the candidate); find_sources takes all predecessors, records a vertex "
           "iff it has none and expands each vertex once.")
NOT_DECIDED = ("that the ingredients together suffice (the correctness theorem of the schema is trusted, not proved "
               "here), the order of results, complexity; exact input/output equality on all graphs as a whole is a "
               "value-level statement and is not decided by any rule.")

DESIGN_REF = "DESIGN.md section 14"
GU = "src.graph_utils"
TDA = "src.analysis.type_dependency_analysis"


# ---------------------------------------------------------------------------------------------------------------
# helpers

def _fn(repo, name, rule):
    fi = repo.functions.get(GU + "." + name)
    if fi is None:
        raise AnalysisError("function %s.%s not found" % (GU, name), rule=rule, anchor=GU + "." + name)
    return fi


def _where(fi, node=None):
    return "%s:%d" % (fi.module.relpath, int(getattr(node or fi.node, "lineno", fi.node.lineno)))


def _own(fn_node):
    return list(iter_own_nodes(fn_node))


def _unknown(rule, fi, what):
    raise AnalysisError("shape unknown in %s: %s" % (fi.qualname, what), rule=rule, anchor=fi.qualname)


def _leaves(node):
    """signed canonical guard leaves of a node as (text, polarity, expr)"""
    return [(src(t), p, t) for t, p in flat_guards(node)]


def _is_name(e, name):
    return isinstance(e, ast.Name) and e.id == name


def _eq_leaf(t, a, b):
    """t is the comparison a == b (either order); a, b are source texts"""
    if isinstance(t, ast.Compare) and len(t.ops) == 1 and isinstance(t.ops[0], ast.Eq):
        l, r = src(t.left), src(t.comparators[0])
        return {l, r} == {a, b}
    return False


def _in_leaf(t, elem, container_pred):
    """t is `elem in <container>` with container_pred(container expr)"""
    return (isinstance(t, ast.Compare) and len(t.ops) == 1 and isinstance(t.ops[0], ast.In) and
            src(t.left) == elem and container_pred(t.comparators[0]))


def _nearest_loop(node, stop):
    for a in ancestors(node):
        if a is stop:
            return None
        if isinstance(a, (ast.For, ast.While)):
            return a
    return None


def _breaks_of(loop):
    return [n for n in ast.walk(loop) if isinstance(n, ast.Break) and _nearest_loop(n, None) is loop]


def _method_call(n, recv, names):
    return (isinstance(n, ast.Call) and isinstance(n.func, ast.Attribute) and n.func.attr in names and
            _is_name(n.func.value, recv))


def _graph_adjacency_of(e, graph, v):
    """e denotes the whole adjacency of vertex v: graph[v] or graph.get(v, <default>)"""
    if isinstance(e, ast.Subscript) and _is_name(e.value, graph) and not isinstance(e.slice, ast.Slice):
        return src(e.slice) == v
    if _method_call(e, graph, ("get",)) and e.args and src(e.args[0]) == v:
        return True
    return False


def _graph_all_vertices(e, graph):
    """e ranges over all vertices of the graph: graph, graph.keys(), list(graph), sorted(graph) ..."""
    if _is_name(e, graph):
        return "keys"
    if _method_call(e, graph, ("keys",)) and not e.args:
        return "keys"
    if _method_call(e, graph, ("items",)) and not e.args:
        return "items"
    if isinstance(e, ast.Call) and isinstance(e.func, ast.Name) and e.func.id in ("list", "sorted", "set", "tuple") \
            and len(e.args) == 1 and not e.keywords:
        return _graph_all_vertices(e.args[0], graph)
    return None


class Visited:
    """the visited structure of a search: a dict of flags (`S[x] = True`) or a set (`S.add(x)`)"""

    def __init__(self, name, kind):
        self.name, self.kind = name, kind

    def marks(self, fn_node):
        out = []
        for n in ast.walk(fn_node):
            if self.kind == "flags" and isinstance(n, ast.Assign) and len(n.targets) == 1 and \
                    isinstance(n.targets[0], ast.Subscript) and _is_name(n.targets[0].value, self.name) and \
                    const_value(n.value) is True:
                out.append((n, src(n.targets[0].slice)))
            elif self.kind == "set" and isinstance(n, ast.Expr) and _method_call(n.value, self.name, ("add",)) and \
                    len(n.value.args) == 1:
                out.append((n, src(n.value.args[0])))
        return out

    def is_test_of(self, t, x):
        """t reads the visited state of vertex x (truthy = visited)"""
        if self.kind == "flags":
            if isinstance(t, ast.Subscript) and _is_name(t.value, self.name) and src(t.slice) == x:
                return True
            if _method_call(t, self.name, ("get",)) and t.args and src(t.args[0]) == x and \
                    (len(t.args) == 1 or const_value(t.args[1], True) in (False, None)):
                return True
            return False
        return _in_leaf(t, x, lambda c: _is_name(c, self.name))

    def is_domain_test_of(self, t, x):
        """`x in S` for the flags form: x is a vertex of the graph (the flags are initialised for every key)"""
        return self.kind == "flags" and _in_leaf(t, x, lambda c: _is_name(c, self.name))


def _find_visited(fn_node, rule, fi):
    cands = {}
    for n in ast.walk(fn_node):
        if isinstance(n, ast.Assign) and len(n.targets) == 1 and isinstance(n.targets[0], ast.Subscript) and \
                isinstance(n.targets[0].value, ast.Name) and const_value(n.value) is True:
            cands[n.targets[0].value.id] = "flags"
        elif isinstance(n, ast.Expr) and isinstance(n.value, ast.Call) and isinstance(n.value.func, ast.Attribute) and \
                n.value.func.attr == "add" and isinstance(n.value.func.value, ast.Name) and len(n.value.args) == 1:
            cands.setdefault(n.value.func.value.id, "set")
    if not cands:
        # nothing is marked (any more): identify the structure by its initialisation
        for n in ast.walk(fn_node if fi is None else fi.node):
            if isinstance(n, ast.Assign) and len(n.targets) == 1 and isinstance(n.targets[0], ast.Name):
                if isinstance(n.value, ast.DictComp) and const_value(n.value.value, None) is False:
                    cands[n.targets[0].id] = "flags"
                elif (isinstance(n.value, ast.Call) and isinstance(n.value.func, ast.Name) and n.value.func.id == "set"
                      and not n.value.args) or isinstance(n.value, ast.Set):
                    cands.setdefault(n.targets[0].id, "set")
    if len(cands) != 1:
        _unknown(rule, fi, "expected exactly one visited structure (marked with `= True` or `.add`), found %s"
                 % sorted(cands))
    (name, kind), = cands.items()
    return Visited(name, kind)


class Worklist:
    def __init__(self, fi, rule):
        self.fi, self.rule = fi, rule
        fn = fi.node
        whiles = [n for n in _own(fn) if isinstance(n, ast.While)]
        if len(whiles) != 1:
            _unknown(rule, fi, "expected exactly one while loop, found %d" % len(whiles))
        self.loop = whiles[0]
        names = sorted({n.id for n in ast.walk(self.loop.test) if isinstance(n, ast.Name)} - {"len"})
        if len(names) != 1:
            _unknown(rule, fi, "loop condition `%s` does not name one worklist" % src(self.loop.test))
        self.w = names[0]
        pops = [n for n in ast.walk(self.loop) if isinstance(n, ast.Assign) and len(n.targets) == 1 and
                isinstance(n.targets[0], ast.Name) and _method_call(n.value, self.w, ("pop", "popleft"))]
        if len(pops) != 1:
            _unknown(rule, fi, "expected exactly one `<v> = %s.pop(..)` in the loop, found %d" % (self.w, len(pops)))
        self.pop = pops[0]
        self.v = pops[0].targets[0].id
        if parent(self.pop) is not self.loop or _leaves_wo_loop(self, self.pop):
            _unknown(rule, fi, "the pop is conditional")

    # pushes: (call node, [pushed element expressions] or None for extend(<iterable>), iterable expr)
    def pushes(self):
        out = []
        for n in ast.walk(self.fi.node):
            if _method_call(n, self.w, ("append", "appendleft")) and len(n.args) == 1:
                out.append((n, "one", n.args[0]))
            elif _method_call(n, self.w, ("extend", "extendleft")) and len(n.args) == 1:
                out.append((n, "many", n.args[0]))
            elif _method_call(n, self.w, ("insert",)) and len(n.args) == 2:
                out.append((n, "one", n.args[1]))
            elif isinstance(n, ast.AugAssign) and _is_name(n.target, self.w) and isinstance(n.op, ast.Add):
                out.append((n, "many", n.value))
        return out

    def seeds(self):
        """elements put on the worklist before the loop: initial literal and pushes outside the loop"""
        els, unknown = [], []
        for n in _own(self.fi.node):
            if isinstance(n, ast.Assign) and any(_is_name(t, self.w) for t in n.targets) and not is_within(n, self.loop):
                v = n.value
                if isinstance(v, ast.Call) and isinstance(v.func, ast.Name) and v.func.id in ("list", "deque") and \
                        len(v.args) <= 1:
                    v = v.args[0] if v.args else ast.List(elts=[])
                if isinstance(v, (ast.List, ast.Tuple)):
                    els.extend(src(e) for e in v.elts)
                else:
                    unknown.append(src(n))
        for n, kind, e in self.pushes():
            if is_within(n, self.loop):
                continue
            if kind == "one":
                els.append(src(e))
            elif isinstance(e, (ast.List, ast.Tuple)):
                els.extend(src(x) for x in e.elts)
            else:
                unknown.append(src(n))
        return els, unknown


def _leaves_wo_loop(wl, node):
    """guard leaves of a node inside the search loop, without the loop condition and without what already guards the
    loop itself (an earlier `if start not in visited: return False`)"""
    lt = src(wl.loop.test)
    outer = {(s, p) for s, p, t in _leaves(wl.loop)}
    return [(s, p, t) for s, p, t in _leaves(node) if s != lt and (s, p) not in outer]


# ---------------------------------------------------------------------------------------------------------------
# closure by worklist over an attribute (used by C06 / C09 for Type.get_supertypes): same schema, different successors

def closure_obligations(fi, R, label, seed, succ_attr):
    """`fi` computes {seed} + everything reachable through `<vertex>.<succ_attr>`"""
    wl = Worklist(fi, R)
    vis = _find_visited(fi.node, R, fi)
    obs = []
    els, unknown = wl.seeds()
    if unknown:
        _unknown(R, fi, "worklist initialisation `%s`" % unknown[0])
    obs.append(Ob(R, label + ":seeded-with-%s-only" % seed, _where(fi, wl.loop), els == [seed],
                  "before the loop the worklist `%s` receives %s; expected [%s]" % (wl.w, els, seed)))
    sites = 0
    for n, kind, e in wl.pushes():
        if not is_within(n, wl.loop):
            continue
        if kind != "one" or not isinstance(e, ast.Name):
            _unknown(R, fi, "push `%s` inside the loop" % src(n))
        u = e.id
        fors = [a for a in ancestors(n) if isinstance(a, ast.For) and is_within(a, wl.loop) and _is_name(a.target, u)]
        if not fors:
            _unknown(R, fi, "pushed `%s` is not the variable of an enclosing for loop" % u)
        lp = fors[0]
        whole = isinstance(lp.iter, ast.Attribute) and lp.iter.attr == succ_attr and _is_name(lp.iter.value, wl.v)
        obs.append(Ob(R, label + ":expands-every-%s-of-the-popped-element" % succ_attr, _where(fi, lp),
                      whole and not _breaks_of(lp),
                      "`for %s in %s` must iterate all of `%s.%s` (unsliced) without break: %d break(s)"
                      % (u, src(lp.iter), wl.v, succ_attr, len(_breaks_of(lp)))))
        lv = _leaves_wo_loop(wl, n)
        neg = [(s_, p) for s_, p, t in lv if vis.is_test_of(t, u)]
        extra = [("" if p else "not ") + s_ for s_, p, t in lv if not vis.is_test_of(t, u) and not isinstance(t, ast.BoolOp)]
        obs.append(Ob(R, label + ":pushed-exactly-when-unvisited", _where(fi, n),
                      bool(neg) and all(not p for s_, p in neg) and not extra,
                      "`%s` is guarded by visited tests %s and further conditions %s; expected the negative visited test "
                      "of `%s` and nothing else" % (src(n), neg, extra, u)))
        want = {(s_, p) for s_, p, t in lv}
        marked = [m for m, x in vis.marks(fi.node) if x == u and {(s_, p) for s_, p, t in _leaves_wo_loop(wl, m)} == want]
        obs.append(Ob(R, label + ":marked-when-pushed", _where(fi, n), bool(marked),
                      "no mark of `%s` in `%s` under the same conditions as its push" % (u, vis.name)))
        sites += 1
    obs.append(Ob(R, label + ":has-an-expansion-site", _where(fi, wl.loop), sites >= 1, "%d push sites in the loop" % sites))
    rets = [r for r in _own(fi.node) if isinstance(r, ast.Return)]
    ok = len(rets) == 1 and not is_within(rets[0], wl.loop) and rets[0].value is not None and \
        src(rets[0].value) in (vis.name, "set(%s)" % vis.name) and not _breaks_of(wl.loop)
    obs.append(Ob(R, label + ":returns-the-closure-after-exhaustion", _where(fi, rets[0] if rets else None), ok,
                  "expected a single `return %s` after the loop and no break out of it" % vis.name))
    return obs


# ---------------------------------------------------------------------------------------------------------------
# R1: reachable / connected

def _boolean_search(repo, name, both_directions):
    R = "C19-R1"
    fi = _fn(repo, name, R)
    ps = fi.params
    if len(ps) < 3:
        _unknown(R, fi, "expected (graph, start, dest) parameters")
    graph, start, dest = ps[0], ps[1], ps[2]
    wl = Worklist(fi, R)
    vis = _find_visited(fi.node, R, fi)
    obs = []
    k = name + ":"

    els, unknown = wl.seeds()
    if unknown:
        _unknown(R, fi, "worklist initialisation `%s`" % unknown[0])
    obs.append(Ob(R, k + "seeded-with-the-start-vertex-only", _where(fi, wl.loop), els == [start],
                  "before the loop the worklist `%s` receives %s; the search must start from exactly [%s]"
                  % (wl.w, els, start), {"worklist": wl.w, "seeds": els}))

    fwd, bwd = [], []
    for n, kind, e in wl.pushes():
        if not is_within(n, wl.loop):
            continue
        if kind != "one" or not isinstance(e, ast.Name):
            _unknown(R, fi, "push `%s` inside the loop" % src(n))
        u = e.id
        fors = [a for a in ancestors(n) if isinstance(a, ast.For) and is_within(a, wl.loop)]
        binder = None
        for f in fors:
            if u in {x.id for x in ast.walk(f.target) if isinstance(x, ast.Name)}:
                binder = f
                break
        if binder is None:
            _unknown(R, fi, "pushed vertex `%s` is not the variable of an enclosing for loop" % u)
        lv = _leaves_wo_loop(wl, n)
        direction, dir_leaf = None, None
        if _is_name(binder.target, u) and _graph_adjacency_of(binder.iter, graph, wl.v):
            direction = "successor"
        elif isinstance(binder.target, ast.Tuple) and len(binder.target.elts) == 2 and \
                _graph_all_vertices(binder.iter, graph) == "items":
            node_n, adjs_n = src(binder.target.elts[0]), src(binder.target.elts[1])
            if u == node_n:
                for s, p, t in lv:
                    if p and _in_leaf(t, wl.v, lambda c: src(c) == adjs_n):
                        direction, dir_leaf = "predecessor", s
        elif _is_name(binder.target, u) and isinstance(binder.iter, ast.Name):
            # for node, adjs in graph.items(): if v == node: for u in adjs
            outer = [f for f in fors if f is not binder and isinstance(f.target, ast.Tuple) and
                     len(f.target.elts) == 2 and _graph_all_vertices(f.iter, graph) == "items" and
                     src(f.target.elts[1]) == binder.iter.id]
            if outer:
                node_n = src(outer[0].target.elts[0])
                for s, p, t in lv:
                    if p and _eq_leaf(t, wl.v, node_n):
                        direction, dir_leaf = "successor", s
                binder = (binder, outer[0])
        site = {"push": n, "u": u, "binder": binder, "leaves": lv, "dir_leaf": dir_leaf}
        if direction == "successor":
            fwd.append(site)
        elif direction == "predecessor":
            bwd.append(site)
        else:
            it = binder.iter if not isinstance(binder, tuple) else binder[0].iter
            base = it
            while isinstance(base, ast.Subscript):
                base = base.value
            if not (_is_name(base, graph) or _method_call(base, graph, ("get", "items", "keys", "values"))):
                # the vertices come from something that is not an expression over the graph parameter (a helper, a
                # generator, a callable): nothing can be said about it here
                _unknown(R, fi, "vertices pushed by `%s` come from `%s`" % (src(n), src(it)))
            obs.append(Ob(R, k + "push:%s:takes-the-adjacency-of-the-popped-vertex" % u, _where(fi, n), False,
                          "`%s` pushes `%s` bound by `for %s in %s`, which is not the whole adjacency of the popped "
                          "vertex `%s` (graph[%s], unsliced)%s" % (
                              src(n), u, src(binder.target if not isinstance(binder, tuple) else binder[0].target),
                              src(binder.iter if not isinstance(binder, tuple) else binder[0].iter), wl.v, wl.v,
                              " nor a vertex that has it in its adjacency" if both_directions else "")))
    obs.append(Ob(R, k + "expands-every-successor-of-the-popped-vertex", _where(fi, wl.loop), bool(fwd),
                  "%d push site(s) iterate the whole adjacency of the popped vertex `%s`" % (len(fwd), wl.v)))
    if both_directions:
        obs.append(Ob(R, k + "expands-every-predecessor-of-the-popped-vertex", _where(fi, wl.loop), bool(bwd),
                      "%d push site(s) push every vertex that has the popped vertex `%s` in its adjacency (weak "
                      "connectivity follows edges in both directions)" % (len(bwd), wl.v)))
    elif bwd:
        obs.append(Ob(R, k + "follows-edges-forwards-only", _where(fi, bwd[0]["push"]), False,
                      "`%s` follows an edge backwards; reachability is directed" % src(bwd[0]["push"])))

    for site in fwd + bwd:
        n, u, lv = site["push"], site["u"], site["leaves"]
        loops = site["binder"] if isinstance(site["binder"], tuple) else (site["binder"],)
        brk = [b for lp in loops for b in _breaks_of(lp)]
        tag = "%s:%s" % ("succ" if site in fwd else "pred", u)
        obs.append(Ob(R, k + "push:%s:iteration-is-not-cut-short" % tag, _where(fi, n), not brk,
                      "the loop that supplies `%s` has %d break statement(s)" % (u, len(brk))))
        neg = [(s, p) for s, p, t in lv if vis.is_test_of(t, u)]
        extra = []
        for s, p, t in lv:
            if vis.is_test_of(t, u) or (vis.is_domain_test_of(t, u) and p) or s == site["dir_leaf"]:
                continue
            if p and _in_leaf(t, u, lambda c: _graph_all_vertices(c, graph) == "keys"):     # `u in graph`
                continue
            if not p and (_eq_leaf(t, u, dest) or _eq_leaf(t, wl.v, dest)):   # after `if v == dest: return True`
                continue
            if isinstance(t, ast.BoolOp):                  # compound guard kept next to its derived leaves
                continue
            extra.append("%s%s" % ("" if p else "not ", s))
        obs.append(Ob(R, k + "push:%s:pushed-exactly-when-unvisited" % tag, _where(fi, n),
                      bool(neg) and all(not p for s, p in neg) and not extra,
                      "`%s` is guarded by visited tests %s and further conditions %s; expected: the negative visited "
                      "test of `%s` and nothing else" % (src(n), neg, extra, u),
                      {"visited": vis.name, "guards": [("" if p else "not ") + s for s, p, t in lv]}))
        want = {(s, p) for s, p, t in lv}
        marked = [m for m, x in vis.marks(fi.node) if x == u and {(s, p) for s, p, t in _leaves_wo_loop(wl, m)} == want]
        obs.append(Ob(R, k + "push:%s:marked-when-pushed" % tag, _where(fi, n), bool(marked),
                      "no `%s` mark of `%s` under the same conditions as its push (without it a cycle is walked "
                      "for ever)" % (vis.name, u)))

    # answers
    n_true = n_false = 0
    for r in [x for x in _own(fi.node) if isinstance(x, ast.Return)]:
        val = const_value(r.value, "?") if r.value is not None else None
        if val is True:
            n_true += 1
            lv = _leaves_wo_loop(wl, r)
            cands = [wl.v] + [s["u"] for s in fwd + bwd]
            ok = any(p and any(_eq_leaf(t, c, dest) for c in cands) for s, p, t in lv) and is_within(r, wl.loop)
            obs.append(Ob(R, k + "positive-answer-only-for-the-destination", _where(fi, r), ok,
                          "`return True` under %s; expected: equality of a worklist vertex with `%s`"
                          % ([("" if p else "not ") + s for s, p, t in lv], dest)))
        elif val in (False, None):
            n_false += 1
            lv = _leaves(r)
            inside = is_within(r, wl.loop)
            def dom(t):
                return _in_leaf(t, start, lambda c: _is_name(c, vis.name) or _graph_all_vertices(c, graph) == "keys")
            unknown_start = any((not p) and dom(t) for s, p, t in lv)
            ok = (not inside) and (unknown_start or
                                   not [1 for s, p, t in lv if not isinstance(t, ast.BoolOp) and not (p and dom(t))])
            obs.append(Ob(R, k + "negative-answer-only-at-exhaustion", _where(fi, r), ok,
                          "`%s` %s under %s; a negative answer is sound only after the loop or for a start vertex "
                          "the graph does not have" % (src(r), "inside the loop" if inside else "outside the loop",
                                                       [("" if p else "not ") + s for s, p, t in lv])))
        else:
            _unknown(R, fi, "answer `%s`" % src(r))
    wbrk = _breaks_of(wl.loop)
    if wbrk:
        _unknown(R, fi, "break out of the search loop")
    if not n_true:
        obs.append(Ob(R, k + "positive-answer-only-for-the-destination", _where(fi), False, "no `return True` at all"))
    return obs


def r1_boolean_searches(repo):
    return _boolean_search(repo, "reachable", False) + _boolean_search(repo, "connected", True)


# ---------------------------------------------------------------------------------------------------------------
# R2: compositions

def _single_return(fi, rule):
    body = [s for s in fi.node.body if not (isinstance(s, ast.Expr) and isinstance(s.value, ast.Constant))]
    rets = [n for n in _own(fi.node) if isinstance(n, ast.Return)]
    return body, rets


def _call_of(e, fname):
    return isinstance(e, ast.Call) and ((isinstance(e.func, ast.Name) and e.func.id == fname) or
                                        (isinstance(e.func, ast.Attribute) and e.func.attr == fname))


def r2_compositions(repo):
    R = "C19-R2"
    obs = []
    # bi_reachable
    fi = _fn(repo, "bi_reachable", R)
    g, a, b = fi.params[:3]
    body, rets = _single_return(fi, R)
    if len(rets) != 1 or rets[0].value is None:
        _unknown(R, fi, "expected one return")
    e = rets[0].value
    calls = [c for c in ast.walk(e) if _call_of(c, "reachable")]
    shapes = sorted(tuple(src(x) for x in c.args) for c in calls if not c.keywords)
    ok = isinstance(e, ast.BoolOp) and isinstance(e.op, ast.Or) and len(e.values) == 2 and \
        all(_call_of(v, "reachable") for v in e.values) and shapes == sorted([(g, a, b), (g, b, a)])
    obs.append(Ob(R, "bi_reachable:either-direction", _where(fi, rets[0]), ok,
                  "`%s`; expected reachable(%s, %s, %s) or reachable(%s, %s, %s)" % (src(e), g, a, b, g, b, a)))
    # find_all_bi_reachable / find_all_connected
    for fname, query in (("find_all_bi_reachable", "bi_reachable"), ("find_all_connected", "connected")):
        fi = _fn(repo, fname, R)
        g, v = fi.params[:2]
        body, rets = _single_return(fi, R)
        if len(rets) != 1 or not isinstance(rets[0].value, (ast.SetComp, ast.ListComp, ast.Call)):
            _unknown(R, fi, "expected `return {n for n in graph if %s(graph, vertex, n)}`" % query)
        comp = rets[0].value
        if isinstance(comp, ast.Call):
            if not (isinstance(comp.func, ast.Name) and comp.func.id == "set" and len(comp.args) == 1 and
                    isinstance(comp.args[0], (ast.GeneratorExp, ast.ListComp, ast.SetComp))):
                _unknown(R, fi, "expected a set comprehension")
            comp = comp.args[0]
        gens = comp.generators
        ok_iter = len(gens) == 1 and _graph_all_vertices(gens[0].iter, g) == "keys" and isinstance(gens[0].target, ast.Name)
        n = src(gens[0].target) if ok_iter else "?"
        obs.append(Ob(R, fname + ":ranges-over-all-vertices", _where(fi, rets[0]), ok_iter and src(comp.elt) == n,
                      "`%s` must range over every vertex of `%s` and collect the vertex itself" % (src(comp), g)))
        tests = gens[0].ifs if len(gens) == 1 else []
        ok_t = len(tests) == 1 and _call_of(tests[0], query) and not tests[0].keywords and \
            tuple(src(x) for x in tests[0].args) == (g, v, n)
        obs.append(Ob(R, fname + ":keeps-exactly-the-related-vertices", _where(fi, rets[0]), ok_t,
                      "filter %s; expected exactly %s(%s, %s, %s)" % ([src(t) for t in tests], query, g, v, n)))
    # find_all_reachable
    fi = _fn(repo, "find_all_reachable", R)
    g, v = fi.params[:2]
    calls = [c for c in ast.walk(fi.node) if _call_of(c, "find_longest_paths")]
    if len(calls) != 1:
        _unknown(R, fi, "expected one call of find_longest_paths")
    c = calls[0]
    obs.append(Ob(R, "find_all_reachable:paths-of-the-queried-vertex", _where(fi, c),
                  tuple(src(x) for x in c.args) == (g, v) and not c.keywords,
                  "`%s`; expected find_longest_paths(%s, %s)" % (src(c), g, v)))
    loop = parent(c)
    ok = False
    msg = "the vertices of every maximal path are united into the result"
    if isinstance(loop, ast.For) and loop.iter is c and isinstance(loop.target, ast.Name):
        p = loop.target.id
        if _breaks_of(loop):
            msg = "the loop over the maximal paths is cut short by a break"
        ups = [n for n in ast.walk(loop) if isinstance(n, ast.Call) and isinstance(n.func, ast.Attribute) and
               n.func.attr in ("update", "extend") and len(n.args) == 1 and _is_name(n.args[0], p)]
        rets = [r for r in _own(fi.node) if isinstance(r, ast.Return)]
        if not ups:
            # element by element: for node in path: res.add(node)
            for inner in [x for x in loop.body if isinstance(x, ast.For)]:
                if _is_name(inner.iter, p) and isinstance(inner.target, ast.Name) and not _breaks_of(inner):
                    ups += [n for n in ast.walk(inner) if isinstance(n, ast.Call) and isinstance(n.func, ast.Attribute) and
                            n.func.attr in ("add", "append") and [src(a) for a in n.args] == [inner.target.id]]
        ok = len(ups) == 1 and not _leaves(ups[0]) and len(rets) == 1 and not _breaks_of(loop) and \
            src(rets[0].value) in (src(ups[0].func.value), "set(%s)" % src(ups[0].func.value))
    elif isinstance(loop, ast.comprehension):
        comp = parent(loop)
        ok = isinstance(comp, (ast.SetComp, ast.GeneratorExp, ast.ListComp)) and len(comp.generators) == 2 and \
            not comp.generators[0].ifs and not comp.generators[1].ifs and \
            src(comp.generators[1].iter) == src(comp.generators[0].target) and \
            src(comp.elt) == src(comp.generators[1].target)
    else:
        _unknown(R, fi, "how the paths are combined")
    obs.append(Ob(R, "find_all_reachable:unites-every-path", _where(fi, c), ok, msg))
    # none_reachable / none_connected
    for fname, allq, query in (("none_reachable", "find_all_bi_reachable", "bi_reachable"),
                               ("none_connected", "find_all_connected", "connected")):
        fi = repo.functions.get(GU + "." + fname)
        if fi is None:
            continue
        g, v, none = fi.params[:3]
        ac = [c for c in ast.walk(fi.node) if _call_of(c, allq)]
        qc = [c for c in ast.walk(fi.node) if _call_of(c, query)]
        ok = len(ac) == 1 and tuple(src(x) for x in ac[0].args) == (g, v) and len(qc) == 1 and \
            len(qc[0].args) == 3 and src(qc[0].args[0]) == g and src(qc[0].args[2]) == none
        obs.append(Ob(R, fname + ":relates-the-component-to-the-none-node", _where(fi), ok,
                      "expected any(%s(%s, x, %s) for x in %s(%s, %s))" % (query, g, none, allq, g, v)))
    return obs


# ---------------------------------------------------------------------------------------------------------------
# R3: dfs

def r3_dfs(repo):
    R = "C19-R3"
    fi = _fn(repo, "dfs", R)
    graph, source = fi.params[:2]
    outer_graph = graph
    if len(fi.nested) == 1:
        inner = list(fi.nested.values())[0]
    else:
        # a module-level recursive helper that dfs starts: _visit(graph, visited, vertex)
        cands = []
        for c in _own(fi.node):
            if isinstance(c, ast.Call) and isinstance(c.func, ast.Name):
                t = repo.functions.get(GU + "." + c.func.id)
                if t is not None and any(_call_of(x, t.name) for x in ast.walk(t.node)):
                    cands.append(t)
        if len({t.qualname for t in cands}) != 1:
            _unknown(R, fi, "expected one nested traversal function (or one recursive helper), found %s"
                     % (sorted(fi.nested) or sorted({t.name for t in cands})))
        inner = cands[0]
    rec = [c for c in ast.walk(inner.node) if _call_of(c, inner.name) and isinstance(c.func, ast.Name)]
    if not rec:
        _unknown(R, fi, "the traversal function does not recurse")
    vis = _find_visited(inner.node, R, fi)
    # which parameter is the vertex: the position at which the recursion passes the edge's target / which is marked
    marked_names = {x for _m, x in vis.marks(inner.node)}
    vpos = [i for i, p_ in enumerate(inner.params) if p_ in marked_names]
    if len(inner.params) == 1:
        vpos = [0]
    if len(vpos) != 1:
        _unknown(R, fi, "cannot identify the vertex parameter of %s" % inner.name)
    n = inner.params[vpos[0]]
    if inner.outer is None:
        # map the helper's graph parameter: the one the start call binds to dfs's graph
        starts0 = [c for c in _own(fi.node) if _call_of(c, inner.name) and isinstance(c.func, ast.Name)]
        if len(starts0) != 1 or len(starts0[0].args) != len(inner.params) or starts0[0].keywords:
            _unknown(R, fi, "start call of %s" % inner.name)
        binding = {p_: src(a) for p_, a in zip(inner.params, starts0[0].args)}
        gpar = [p_ for p_, a in binding.items() if a == outer_graph]
        if len(gpar) != 1:
            _unknown(R, fi, "the helper is not given the graph")
        graph = gpar[0]
        # every recursive call passes graph and visited on unchanged
        for c in rec:
            if len(c.args) != len(inner.params) or any(src(a) != p_ for i, (p_, a) in enumerate(zip(inner.params, c.args))
                                                       if i != vpos[0]):
                _unknown(R, fi, "recursive call `%s` changes the graph / visited arguments" % src(c))
    obs = []
    marks = [(m, x) for m, x in vis.marks(inner.node) if x == n]
    first_for = None
    for c in rec:
        loops = [a for a in ancestors(c) if isinstance(a, ast.For) and is_within(a, inner.node)]
        if len(c.args) != len(inner.params) or not loops:
            _unknown(R, fi, "recursive call `%s` outside a loop over the edges" % src(c))
        lp = loops[0]
        first_for = first_for or lp
        e = lp.target.id if isinstance(lp.target, ast.Name) else None
        arg = src(c.args[vpos[0]])
        ok_iter = e is not None and _graph_adjacency_of(lp.iter, graph, n) and not _breaks_of(lp)
        obs.append(Ob(R, "dfs:follows-every-edge-of-the-vertex", _where(fi, lp), ok_iter,
                      "`for %s in %s`: must iterate all of %s.get(%s, ..) / %s[%s] without break"
                      % (src(lp.target), src(lp.iter), graph, n, graph, n)))
        ok_arg = e is not None and arg in (e, e + ".target")
        obs.append(Ob(R, "dfs:recurses-into-the-edge's-target", _where(fi, c), ok_arg,
                      "`%s`: the argument must be the target of the edge `%s`" % (src(c), e)))
        lv = _leaves(c)
        neg = [(s, p) for s, p, t in lv if vis.is_test_of(t, arg)]
        extra = [("" if p else "not ") + s for s, p, t in lv
                 if not vis.is_test_of(t, arg) and not isinstance(t, ast.BoolOp)]
        obs.append(Ob(R, "dfs:recurses-exactly-when-unvisited", _where(fi, c),
                      bool(neg) and all(not p for s, p in neg) and not extra,
                      "`%s` is guarded by visited tests %s and further conditions %s; expected the negative visited "
                      "test of `%s` and nothing else" % (src(c), neg, extra, arg)))
    top = inner.node.body
    mark_ok = False
    # form B: every target is marked when it is discovered, under the conditions of the recursive call
    formb = []
    for c in rec:
        arg = src(c.args[vpos[0]]) if len(c.args) > vpos[0] else "?"
        want = {(s, p) for s, p, t in _leaves(c)}
        formb.append(any(x == arg and {(s, p) for s, p, t in _leaves(m)} == want and
                         getattr(m, "lineno", 0) <= getattr(c, "lineno", 0)
                         for m, x in vis.marks(inner.node)))
    if rec and all(formb):
        mark_ok = True
    for m, x in marks:
        if m in top and first_for is not None:
            holder = first_for
            while parent(holder) is not inner.node and parent(holder) is not None:
                holder = parent(holder)
            if holder in top and top.index(m) < top.index(holder):
                mark_ok = True
    obs.append(Ob(R, "dfs:vertex-marked-before-its-edges-are-followed", _where(fi, inner.node), mark_ok,
                  "the traversal must mark `%s` unconditionally before the loop over its edges, or every target when it "
                  "is discovered (a cycle otherwise recurses for ever)" % n))
    starts = [c for c in _own(fi.node) if _call_of(c, inner.name) and isinstance(c.func, ast.Name)]
    ok = len(starts) == 1 and len(starts[0].args) > vpos[0] and src(starts[0].args[vpos[0]]) == source and \
        not _leaves(starts[0])
    obs.append(Ob(R, "dfs:starts-at-the-source", _where(fi, starts[0] if starts else None), ok,
                  "the traversal must be started exactly once, unconditionally, with `%s`" % source))
    rets = [r for r in _own(fi.node) if isinstance(r, ast.Return)]
    if len(rets) != 1 or rets[0].value is None:
        _unknown(R, fi, "expected one return")
    comp = rets[0].value
    if isinstance(comp, ast.Call) and isinstance(comp.func, ast.Name) and comp.func.id == "set" and len(comp.args) == 1:
        comp = comp.args[0]
    if vis.kind == "set" and (_is_name(comp, vis.name) or
                              (isinstance(comp, ast.BinOp) and isinstance(comp.op, ast.Sub) and _is_name(comp.left, vis.name))):
        # the marked set itself: the source must have been taken out (it is marked again when an edge leads back to it)
        removed = [c for c in _own(fi.node) if _method_call(c, vis.name, ("discard", "remove")) and
                   [src(a) for a in c.args] == [source] and not _leaves(c)]
        minus = isinstance(comp, ast.BinOp) and src(comp.right) in ("{%s}" % source, "set([%s])" % source)
        obs.append(Ob(R, "dfs:result-is-every-marked-vertex-but-the-source", _where(fi, rets[0]), bool(removed) or minus,
                      "`%s` returns the marked set; the source is marked whenever an edge leads back to it (cycle, "
                      "self-loop) and must be taken out (`%s.discard(%s)` / `%s - {%s}`)"
                      % (src(rets[0]), vis.name, source, vis.name, source)))
        return obs
    if not isinstance(comp, (ast.SetComp, ast.ListComp, ast.GeneratorExp)) or len(comp.generators) != 1:
        _unknown(R, fi, "result `%s`" % src(comp))
    gen = comp.generators[0]
    leaves = []
    for t in gen.ifs:
        from ..astutil import flatten_guard
        leaves.extend(flatten_guard(t, True))
    if vis.kind == "flags":
        ok_iter = _method_call(gen.iter, vis.name, ("items",)) and isinstance(gen.target, ast.Tuple) and \
            len(gen.target.elts) == 2
        if not ok_iter:
            _unknown(R, fi, "result does not range over %s.items()" % vis.name)
        key, flag = src(gen.target.elts[0]), src(gen.target.elts[1])
        want_flag = True
    else:
        if not (_is_name(gen.iter, vis.name) and isinstance(gen.target, ast.Name)):
            _unknown(R, fi, "result does not range over %s" % vis.name)
        key, flag, want_flag = gen.target.id, None, False
    has_flag = any(p and src(t) == flag for t, p in leaves)
    not_src = any((not p) and _eq_leaf(t, key, source) for t, p in leaves)
    others = [("" if p else "not ") + src(t) for t, p in leaves
              if not (p and src(t) == flag) and not ((not p) and _eq_leaf(t, key, source))]
    obs.append(Ob(R, "dfs:result-is-every-marked-vertex-but-the-source", _where(fi, rets[0]),
                  src(comp.elt) == key and (has_flag or not want_flag) and not_src and not others,
                  "`%s`; expected the keys of `%s` that are marked and differ from `%s`, nothing else filtered (%s)"
                  % (src(comp), vis.name, source, others)))
    return obs


# ---------------------------------------------------------------------------------------------------------------
# R4: find_all_paths

_MUTATORS = ("append", "extend", "insert", "pop", "remove", "clear", "sort", "reverse")


def r4_all_paths(repo):
    R = "C19-R4"
    fi = _fn(repo, "find_all_paths", R)
    if len(fi.params) < 3:
        _unknown(R, fi, "expected (graph, start, path=None)")
    graph, start, acc = fi.params[:3]
    obs = []
    if not [c for c in ast.walk(fi.node) if _call_of(c, "find_all_paths") and isinstance(c.func, ast.Name)]:
        _unknown(R, fi, "the function does not recurse (the enumeration is delegated)")
    dfl = fi.node.args.defaults
    obs.append(Ob(R, "find_all_paths:accumulator-default-is-immutable", _where(fi),
                  bool(dfl) and isinstance(dfl[-1], (ast.Constant, ast.Tuple)),
                  "default of `%s` is `%s`; a mutable default is shared between queries"
                  % (acc, src(dfl[-1]) if dfl else "<none>")))
    # names that may alias the caller's list: the parameter, until it is rebound to a fresh list
    ext = None
    for n in _own(fi.node):
        if isinstance(n, ast.Assign) and len(n.targets) == 1 and isinstance(n.targets[0], ast.Name):
            v = n.value
            if isinstance(v, ast.BinOp) and isinstance(v.op, ast.Add) and _is_name(v.left, acc) and \
                    isinstance(v.right, ast.List) and [src(e) for e in v.right.elts] == [start]:
                ext = (n, n.targets[0].id)
            elif isinstance(v, ast.List) and len(v.elts) == 2 and isinstance(v.elts[0], ast.Starred) and \
                    _is_name(v.elts[0].value, acc) and src(v.elts[1]) == start:
                ext = (n, n.targets[0].id)
    muts = []
    for n in ast.walk(fi.node):
        if isinstance(n, ast.Call) and isinstance(n.func, ast.Attribute) and n.func.attr in _MUTATORS and \
                isinstance(n.func.value, ast.Name) and n.func.value.id in {acc, ext[1] if ext else acc}:
            muts.append(n)
        elif isinstance(n, ast.AugAssign) and isinstance(n.target, ast.Name) and \
                n.target.id in {acc, ext[1] if ext else acc}:
            muts.append(n)
        elif isinstance(n, (ast.Assign, ast.Delete)):
            for t in (n.targets if isinstance(n, (ast.Assign, ast.Delete)) else []):
                if isinstance(t, ast.Subscript) and isinstance(t.value, ast.Name) and \
                        t.value.id in {acc, ext[1] if ext else acc}:
                    muts.append(n)
    obs.append(Ob(R, "find_all_paths:path-extended-by-a-new-list", _where(fi, ext[0] if ext else None), ext is not None,
                  "no `<p> = %s + [%s]`: the path to `%s` must be a new list (sibling branches share `%s`)"
                  % (acc, start, start, acc)))
    obs.append(Ob(R, "find_all_paths:path-never-mutated-in-place", _where(fi, muts[0] if muts else None), not muts,
                  "in-place updates of the path: %s" % [src(m) for m in muts]))
    if ext is None:
        return obs
    P = ext[1]
    # result list
    res = [n for n in _own(fi.node) if isinstance(n, ast.Assign) and len(n.targets) == 1 and
           isinstance(n.targets[0], ast.Name) and isinstance(n.value, ast.List) and
           [src(e) for e in n.value.elts] == [P] and n.lineno > ext[0].lineno]
    if len(res) != 1:
        obs.append(Ob(R, "find_all_paths:result-starts-with-the-path-to-start", _where(fi), False,
                      "no `<paths> = [%s]`: the path that ends in `%s` is itself a path from the origin" % (P, start)))
        return obs
    paths = res[0].targets[0].id
    obs.append(Ob(R, "find_all_paths:result-starts-with-the-path-to-start", _where(fi, res[0]), not _strict(res[0]),
                  "`%s` must be unconditional (besides the missing-adjacency exit)" % src(res[0])))
    rec = [c for c in ast.walk(fi.node) if _call_of(c, "find_all_paths") and isinstance(c.func, ast.Name)]
    if not rec:
        _unknown(R, fi, "no recursive call")
    for c in rec:
        loops = [a for a in ancestors(c) if isinstance(a, ast.For)]
        if not loops:
            _unknown(R, fi, "recursive call outside a loop")
        lp = loops[0] if isinstance(loops[0].target, ast.Name) and loops[0].target.id in \
            {x.id for x in ast.walk(c) if isinstance(x, ast.Name)} else loops[-1]
        for cand in loops:
            if isinstance(cand.target, ast.Name) and c.args and len(c.args) > 1 and src(c.args[1]) == cand.target.id:
                lp = cand
        node = src(lp.target)
        ok_iter = _graph_adjacency_of(lp.iter, graph, start) and not _breaks_of(lp)
        obs.append(Ob(R, "find_all_paths:recurses-for-every-successor", _where(fi, lp), ok_iter,
                      "`for %s in %s`: must iterate all of %s[%s] without break" % (node, src(lp.iter), graph, start)))
        args = [src(a) for a in c.args] + ["%s=%s" % (kw.arg, src(kw.value)) for kw in c.keywords]
        obs.append(Ob(R, "find_all_paths:recursion-continues-the-extended-path", _where(fi, c),
                      args in ([graph, node, P], [graph, node, "path=" + P]),
                      "`%s`; expected find_all_paths(%s, %s, %s)" % (src(c), graph, node, P)))
        lv = _leaves(c)
        simple = [(s, p) for s, p, t in lv if _in_leaf(t, node, lambda x: _is_name(x, P))]
        extra = [("" if p else "not ") + s for s, p, t in lv
                 if not _in_leaf(t, node, lambda x: _is_name(x, P)) and not isinstance(t, ast.BoolOp) and
                 not (p and _in_leaf(t, start, lambda x: _graph_all_vertices(x, graph) == "keys"))]
        obs.append(Ob(R, "find_all_paths:recurses-exactly-for-vertices-not-on-the-path", _where(fi, c),
                      bool(simple) and all(not p for s, p in simple) and not extra,
                      "`%s` is guarded by %s and further conditions %s; expected `%s not in %s` and nothing else"
                      % (src(c), simple, extra, node, P)))
        # every returned path joins the result
        st = parent(c)
        joined = False
        if isinstance(st, ast.Assign) and len(st.targets) == 1 and isinstance(st.targets[0], ast.Name):
            rn = st.targets[0].id
            want = {(s, p) for s, p, t in _leaves(st)}
            for f in ast.walk(fi.node):
                if isinstance(f, ast.For) and _is_name(f.iter, rn) and isinstance(f.target, ast.Name) and \
                        not _breaks_of(f):
                    for a in ast.walk(f):
                        if _method_call(a, paths, ("append",)) and [src(x) for x in a.args] == [f.target.id] and \
                                {(s, p) for s, p, t in _leaves(a)} == want:
                            joined = True
                elif _method_call(f, paths, ("extend",)) and [src(x) for x in f.args] == [rn] and \
                        {(s, p) for s, p, t in _leaves(f)} == want:
                    joined = True
                elif isinstance(f, ast.AugAssign) and _is_name(f.target, paths) and _is_name(f.value, rn) and \
                        {(s, p) for s, p, t in _leaves(f)} == want:
                    joined = True
        elif _method_call(st, paths, ("extend",)) and st.args[0] is c:
            joined = True
        elif isinstance(st, ast.AugAssign) and _is_name(st.target, paths) and st.value is c:
            joined = True
        elif isinstance(st, ast.For) and st.iter is c and isinstance(st.target, ast.Name) and not _breaks_of(st):
            for a in ast.walk(st):
                if _method_call(a, paths, ("append",)) and [src(x) for x in a.args] == [st.target.id] and \
                        {(s, p) for s, p, t in _leaves(a)} == {(s, p) for s, p, t in _leaves(st)}:
                    joined = True
        obs.append(Ob(R, "find_all_paths:every-returned-path-joins-the-result", _where(fi, c), joined,
                      "the paths returned by `%s` must all be added to `%s`, unfiltered" % (src(c), paths)))
    for r in [x for x in _own(fi.node) if isinstance(x, ast.Return)]:
        v = src(r.value) if r.value is not None else "None"
        lv = _leaves(r)
        no_adj = any((not p) and _in_leaf(t, start, lambda x: _graph_all_vertices(x, graph) == "keys")
                     for s, p, t in lv)
        if v == paths:
            ok = not [1 for s, p, t in lv if not (p and _in_leaf(t, start, lambda x: _graph_all_vertices(x, graph) == "keys"))
                      and not isinstance(t, ast.BoolOp)]
        elif v == "[%s]" % P:
            ok = no_adj
        else:
            ok = False
        obs.append(Ob(R, "find_all_paths:returns-the-collected-paths", _where(fi, r), ok,
                      "`%s` under %s; expected `%s` at the end, or `[%s]` for a vertex without adjacency entry"
                      % (src(r), [("" if p else "not ") + s for s, p, t in lv], paths, P)))
    return obs


def _strict(node):
    """guards of a statement other than compound ones"""
    return [1 for s, p, t in _leaves(node) if not isinstance(t, ast.BoolOp) and
            not (isinstance(t, ast.Compare) and isinstance(t.ops[0], ast.In))]


# ---------------------------------------------------------------------------------------------------------------
# R5: find_longest_paths

def r5_maximal_paths(repo):
    R = "C19-R5"
    fi = _fn(repo, "find_longest_paths", R)
    graph, vertex = fi.params[:2]
    obs = []
    calls = [c for c in _own(fi.node) if _call_of(c, "find_all_paths")]
    if len(calls) != 1 or not isinstance(parent(calls[0]), ast.Assign) or \
            not isinstance(parent(calls[0]).targets[0], ast.Name):
        _unknown(R, fi, "expected `<paths> = find_all_paths(..)`")
    paths = parent(calls[0]).targets[0].id
    obs.append(Ob(R, "find_longest_paths:paths-of-the-queried-vertex", _where(fi, calls[0]),
                  [src(a) for a in calls[0].args] == [graph, vertex] and not calls[0].keywords,
                  "`%s`; expected find_all_paths(%s, %s) (no caller-supplied path prefix)" % (src(calls[0]), graph, vertex)))
    # the prefix predicate
    pred = None
    for sub in fi.nested.values():
        if len(sub.params) == 2:
            pred = sub
    comps = None
    rets = [r for r in _own(fi.node) if isinstance(r, ast.Return)]
    final = [r for r in rets if isinstance(r.value, ast.ListComp)]
    if len(final) != 1:
        _unknown(R, fi, "expected one `return [x for x in paths if not any(..)]`")
    comp = final[0].value
    if len(comp.generators) != 1 or not isinstance(comp.generators[0].target, ast.Name):
        _unknown(R, fi, "filter comprehension `%s`" % src(comp))
    g0 = comp.generators[0]
    x = g0.target.id
    obs.append(Ob(R, "find_longest_paths:candidates-are-all-paths", _where(fi, final[0]),
                  _is_name(g0.iter, paths) and src(comp.elt) == x,
                  "`%s` must range over `%s` and keep the path itself" % (src(comp), paths)))
    ok_filter, inner_call, why = False, None, "expected exactly one filter `not any(<prefix test>(x, p) for p in %s)`" % paths
    if len(g0.ifs) == 1 and isinstance(g0.ifs[0], ast.UnaryOp) and isinstance(g0.ifs[0].op, ast.Not) and \
            _call_of(g0.ifs[0].operand, "any") and len(g0.ifs[0].operand.args) == 1 and \
            isinstance(g0.ifs[0].operand.args[0], (ast.GeneratorExp, ast.ListComp)):
        ge = g0.ifs[0].operand.args[0]
        if len(ge.generators) == 1 and _is_name(ge.generators[0].iter, paths) and not ge.generators[0].ifs and \
                isinstance(ge.generators[0].target, ast.Name):
            ok_filter = True
            inner_call, pvar = ge.elt, ge.generators[0].target.id
    obs.append(Ob(R, "find_longest_paths:kept-iff-no-path-extends-it", _where(fi, final[0]), ok_filter,
                  "filter %s; %s" % ([src(t) for t in g0.ifs], why)))
    if ok_filter:
        # the test applied to (x, p): either the nested predicate or an inline expression
        if pred is not None and _call_of(inner_call, pred.name):
            order_ok = [src(a) for a in inner_call.args] == [x, pvar]
            obs.append(Ob(R, "find_longest_paths:candidate-is-the-prefix-argument", _where(fi, final[0]), order_ok,
                          "`%s`; expected %s(%s, %s): is the candidate a prefix of the other path"
                          % (src(inner_call), pred.name, x, pvar)))
            prets = [r for r in _own(pred.node) if isinstance(r, ast.Return)]
            if len(prets) != 1 or prets[0].value is None:
                _unknown(R, fi, "prefix predicate with %d returns" % len(prets))
            expr, a, b, wh = prets[0].value, pred.params[0], pred.params[1], prets[0]
        else:
            expr, a, b, wh = inner_call, x, pvar, final[0]
        from ..astutil import flatten_guard
        leaves = flatten_guard(expr, True)
        slice_ok, proper, seen = False, False, []
        for t, p in leaves:
            seen.append(("" if p else "not ") + src(t))
            if p and isinstance(t, ast.Compare) and len(t.ops) == 1 and isinstance(t.ops[0], ast.Eq):
                l, r = t.left, t.comparators[0]
                for u, w in ((l, r), (r, l)):
                    if _is_name(u, a) and isinstance(w, ast.Subscript) and _is_name(w.value, b) and \
                            isinstance(w.slice, ast.Slice) and w.slice.lower is None and w.slice.step is None and \
                            w.slice.upper is not None and src(w.slice.upper) == "len(%s)" % a:
                        slice_ok = True
            if isinstance(t, ast.Compare) and len(t.ops) == 1:
                l, r, op = src(t.left), src(t.comparators[0]), t.ops[0]
                la, lb = "len(%s)" % a, "len(%s)" % b
                if p and ((isinstance(op, ast.Lt) and (l, r) == (la, lb)) or (isinstance(op, ast.Gt) and (l, r) == (lb, la))):
                    proper = True
                if (not p) and ((isinstance(op, ast.GtE) and (l, r) == (la, lb)) or
                                (isinstance(op, ast.LtE) and (l, r) == (lb, la))):
                    proper = True
                if (not p) and isinstance(op, ast.Eq) and {l, r} in ({a, b}, {la, lb}):
                    proper = True
        obs.append(Ob(R, "find_longest_paths:compared-slice-has-the-length-of-the-candidate", _where(fi, wh), slice_ok,
                      "prefix test %s; expected `%s == %s[:len(%s)]` - a slice of any other length equals the candidate "
                      "only for accidental path lengths" % (seen, a, b, a)))
        obs.append(Ob(R, "find_longest_paths:a-path-does-not-exclude-itself", _where(fi, wh), proper,
                      "prefix test %s; expected a strictness condition (`len(%s) < len(%s)` or `%s != %s`), otherwise "
                      "every path is a prefix of itself and nothing is kept" % (seen, a, b, a, b)))
    for r in rets:
        if r in final:
            continue
        lv = _leaves(r)
        single = any(p and isinstance(t, ast.Compare) and src(t.left) == "len(%s)" % paths and
                     isinstance(t.ops[0], ast.Eq) and const_value(t.comparators[0]) == 1 for s, p, t in lv)
        obs.append(Ob(R, "find_longest_paths:shortcut-only-for-a-single-path", _where(fi, r),
                      src(r.value) == paths and single,
                      "`%s` under %s; the unfiltered list may be returned only when it holds one path"
                      % (src(r), [("" if p else "not ") + s for s, p, t in lv])))
    return obs


# ---------------------------------------------------------------------------------------------------------------
# R6: find_sources

def r6_sources(repo):
    R = "C19-R6"
    fi = _fn(repo, "find_sources", R)
    graph, vertex = fi.params[:2]
    wl = Worklist(fi, R)
    vis = _find_visited(fi.node, R, fi)
    v = wl.v
    obs = []
    els, unknown = wl.seeds()
    if unknown:
        _unknown(R, fi, "worklist initialisation `%s`" % unknown[0])
    obs.append(Ob(R, "find_sources:seeded-with-the-queried-vertex-only", _where(fi, wl.loop), els == [vertex],
                  "before the loop the worklist `%s` receives %s; expected [%s]" % (wl.w, els, vertex)))
    # predecessors
    preds = []
    for n in ast.walk(wl.loop):
        if isinstance(n, ast.Assign) and len(n.targets) == 1 and isinstance(n.targets[0], ast.Name) and \
                isinstance(n.value, (ast.ListComp, ast.SetComp)):
            preds.append(n)
    if len(preds) != 1:
        _unknown(R, fi, "expected one comprehension computing the predecessors, found %d" % len(preds))
    pa = preds[0]
    pname, comp = pa.targets[0].id, pa.value
    ok = False
    if len(comp.generators) == 1:
        g0 = comp.generators[0]
        kind = _graph_all_vertices(g0.iter, graph)
        if kind == "keys" and isinstance(g0.target, ast.Name):
            nn = g0.target.id
            ok = src(comp.elt) == nn and len(g0.ifs) == 1 and \
                _in_leaf(g0.ifs[0], v, lambda c: _graph_adjacency_of(c, graph, nn))
        elif kind == "items" and isinstance(g0.target, ast.Tuple) and len(g0.target.elts) == 2:
            nn, adj = src(g0.target.elts[0]), src(g0.target.elts[1])
            ok = src(comp.elt) == nn and len(g0.ifs) == 1 and _in_leaf(g0.ifs[0], v, lambda c: src(c) == adj)
    obs.append(Ob(R, "find_sources:predecessors-are-all-vertices-with-an-edge-to-the-popped-one", _where(fi, pa), ok,
                  "`%s`; expected every n of `%s` with `%s in %s[n]` and no other filter" % (src(pa), graph, v, graph)))

    def expansion_leaves(node):
        return [(s, p, t) for s, p, t in _leaves_wo_loop(wl, node)]

    def once(node, what):
        lv = expansion_leaves(node)
        neg = [(s, p) for s, p, t in lv if vis.is_test_of(t, v)]
        return bool(neg) and all(not p for s, p in neg), lv

    # recorded as a source iff no predecessors
    recs = [n for n in ast.walk(wl.loop) if isinstance(n, ast.Call) and isinstance(n.func, ast.Attribute) and
            n.func.attr == "append" and not _is_name(n.func.value, wl.w) and [src(a) for a in n.args] == [v]]
    if len(recs) != 1:
        _unknown(R, fi, "expected one `<sources>.append(%s)`" % v)
    rec = recs[0]
    sources = src(rec.func.value)
    unv, lv = once(rec, "record")
    has_none = [(s, p) for s, p, t in lv if s == pname]
    extra = [("" if p else "not ") + s for s, p, t in lv
             if s != pname and not vis.is_test_of(t, v) and not isinstance(t, ast.BoolOp)]
    obs.append(Ob(R, "find_sources:recorded-iff-it-has-no-predecessor", _where(fi, rec),
                  has_none == [(pname, False)] and not extra and unv,
                  "`%s` under %s; expected: unvisited and `not %s`, nothing else"
                  % (src(rec), [("" if p else "not ") + s for s, p, t in lv], pname)))
    # pushes
    pushes = [(n, kind, e) for n, kind, e in wl.pushes() if is_within(n, wl.loop)]
    push_ok, why = False, "no push of the predecessors"
    for n, kind, e in pushes:
        unv, lv = once(n, "push")
        extra = [("" if p else "not ") + s for s, p, t in lv
                 if s != pname and not vis.is_test_of(t, v) and not isinstance(t, ast.BoolOp)]
        bad_pol = [(s, p) for s, p, t in lv if s == pname and not p]
        if kind == "many" and _is_name(e, pname):
            push_ok = unv and not extra and not bad_pol
            why = "`%s` under %s" % (src(n), [("" if p else "not ") + s for s, p, t in lv])
        elif kind == "one" and isinstance(parent(parent(n)), ast.For) and _is_name(parent(parent(n)).iter, pname) and \
                src(e) == src(parent(parent(n)).target) and not _breaks_of(parent(parent(n))):
            push_ok = unv and not extra and not bad_pol
            why = "`%s` in a loop over `%s`" % (src(n), pname)
        else:
            obs.append(Ob(R, "find_sources:only-predecessors-are-pushed", _where(fi, n), False,
                          "`%s` pushes something other than the predecessors `%s`" % (src(n), pname)))
    obs.append(Ob(R, "find_sources:every-predecessor-is-pushed", _where(fi, wl.loop), push_ok,
                  why + "; expected all of `%s` pushed for an unvisited vertex, no further condition" % pname))
    marks = [(m, x) for m, x in vis.marks(wl.loop) if x == v]
    mk_ok = False
    for m, x in marks:
        lv = expansion_leaves(m)
        neg = [(s, p) for s, p, t in lv if vis.is_test_of(t, v)]
        others = [s for s, p, t in lv if not vis.is_test_of(t, v) and not isinstance(t, ast.BoolOp)]
        if neg and all(not p for s, p in neg) and not others:
            mk_ok = True
    obs.append(Ob(R, "find_sources:vertex-marked-when-expanded", _where(fi, wl.loop), mk_ok,
                  "`%s[%s] = True` must be executed for every unvisited popped vertex (a cycle otherwise never "
                  "terminates)" % (vis.name, v)))
    rets = [r for r in _own(fi.node) if isinstance(r, ast.Return)]
    ok = len(rets) == 1 and not is_within(rets[0], wl.loop) and src(rets[0].value) == sources and not _leaves(rets[0])
    obs.append(Ob(R, "find_sources:returns-the-recorded-sources-after-exhaustion", _where(fi, rets[0] if rets else None),
                  ok and not _breaks_of(wl.loop),
                  "expected a single unconditional `return %s` after the loop and no break" % sources))
    return obs


# ---------------------------------------------------------------------------------------------------------------
# R7: the use in the feasibility check

def r7_use(repo):
    R = "C19-R7"
    obs = []
    m = repo.modules.get(TDA)
    if m is None:
        raise AnalysisError("module %s not found" % TDA, rule=R, anchor=TDA)
    for qual, fi in sorted(repo.functions.items()):
        if fi.module is not m:
            continue
        for c in [n for n in _own(fi.node) if isinstance(n, ast.Call)]:
            tgt, _how = repo.resolve_call(c, fi)
            if not any(getattr(t, "qualname", "") == GU + ".dfs" for t in tgt or []):
                continue
            ok = len(c.args) == 2 and not c.keywords and isinstance(c.args[0], ast.Name) and c.args[0].id in fi.params
            obs.append(Ob(R, "%s:dfs(%s)" % (fi.name, src(c.args[1]) if len(c.args) > 1 else "?"), _where(fi, c), ok,
                          "`%s`: the traversal must run on the graph the enclosing function was given" % src(c)))
    return obs


# ---------------------------------------------------------------------------------------------------------------
# variants (thorough tier): each must make exactly the named rule report; twins must stay silent

GUP = "src/graph_utils.py"


def _sub(tree, fname, old, new, count=1):
    """textual replacement inside one function (unparse -> replace -> reparse); the anchor must exist"""
    f = V.find_def(tree, fname)
    text = ast.unparse(f)
    if text.count(old) < count:
        raise V.SkipVariant("`%s` not in %s" % (old, fname))
    new_f = ast.parse(text.replace(old, new, count)).body[0]
    V.replace_node(tree, f, new_f)


def _mk_sub(fname, old, new, count=1):
    return lambda tree: _sub(tree, fname, old, new, count)


_REACHABLE_SET_FORM = '''
def reachable(graph, start_vertex, dest_vertex):
    """Find if a start_vertex can reach dest_vertex."""
    if start_vertex not in graph:
        return False
    seen = {start_vertex}
    pending = [start_vertex]
    while len(pending) > 0:
        current = pending.pop()
        if current == dest_vertex:
            return True
        for succ in graph[current]:
            if succ in graph and succ not in seen:
                seen.add(succ)
                pending.append(succ)
    return False
'''


_DFS_DISCOVERY = '''
def dfs(graph, source):
    seen = set()

    def _walk(n):
        for e in graph.get(n, []):
            if e.target not in seen:
                seen.add(e.target)
                _walk(e.target)
    _walk(source)
    seen.discard(source)
    return seen
'''


def _t_dfs_discovery(tree):
    V.replace_node(tree, V.find_def(tree, "dfs"), ast.parse(_DFS_DISCOVERY).body[0])


def _v_dfs_discovery_bare(tree):
    V.replace_node(tree, V.find_def(tree, "dfs"),
                   ast.parse(_DFS_DISCOVERY.replace("    seen.discard(source)\n", "")).body[0])


def _v_memo(tree):
    f = V.find_def(tree, "reachable")
    tree.body.insert(tree.body.index(f), ast.parse("_LAST = {}").body[0])
    f.body.insert(1 if isinstance(f.body[0], ast.Expr) else 0,
                  ast.parse("if _LAST.get('q') == (id(graph), start_vertex, dest_vertex):\n    return _LAST['a']").body[0])
    f.body.insert(len(f.body) - 1, ast.parse("_LAST.update(q=(id(graph), start_vertex, dest_vertex), a=False)").body[0])


def _t_reachable_set_form(tree):
    f = V.find_def(tree, "reachable")
    V.replace_node(tree, f, ast.parse(_REACHABLE_SET_FORM).body[0])


def _t_rename(tree):
    for fn, pairs in (("reachable", (("queue", "work"), ("next_v", "cur"), ("vertex", "w"))),
                      ("connected", (("queue", "todo"), ("adjs", "outgoing"))),
                      ("find_all_paths", (("newpaths", "found"), ("paths", "acc"))),
                      ("find_sources", (("s_sources", "preds"), ("stack", "todo")))):
        f = V.find_def(tree, fn)
        for a, b in pairs:
            V.rename_local(f, a, b)


def variants():
    g = GUP
    return [
        V.Variant("reachable: first successor skipped", g, _mk_sub("reachable", "graph[next_v]:", "graph[next_v][1:]:"), {"C19-R1"}),
        V.Variant("reachable: pushed vertex not marked", g, _mk_sub("reachable", "visited[vertex] = True", "pass"), {"C19-R1"}),
        V.Variant("reachable: pushes visited vertices", g, _mk_sub("reachable", "not visited[vertex]", "visited[vertex]"), {"C19-R1"}),
        V.Variant("reachable: answers True for any vertex but the destination", g,
                  _mk_sub("reachable", "next_v == dest_vertex", "next_v != dest_vertex"), {"C19-R1"}),
        V.Variant("reachable: gives up at the first dead end", g,
                  _mk_sub("reachable", "for vertex in graph[next_v]:", "if not graph[next_v]:\n            return False\n        for vertex in graph[next_v]:"), {"C19-R1"}),
        V.Variant("reachable: search seeded with the destination too", g,
                  _mk_sub("reachable", "queue.append(start_vertex)", "queue.append(start_vertex)\n    queue.append(dest_vertex)"), {"C19-R1"}),
        V.Variant("connected: reverse edges no longer followed", g,
                  _mk_sub("connected", "if next_v in adjs and (not visited[node]):", "if False and next_v in adjs and (not visited[node]):"), {"C19-R1"}),
        V.Variant("connected: reverse edges only from vertices with successors", g,
                  _mk_sub("connected", "if next_v in adjs and (not visited[node]):", "if next_v in adjs and graph[next_v] and (not visited[node]):"), {"C19-R1"}),
        V.Variant("bi_reachable: both directions demanded", g, _mk_sub("bi_reachable", " or ", " and "), {"C19-R2"}),
        V.Variant("find_all_connected: uses the directed query", g, _mk_sub("find_all_connected", "if connected(", "if bi_reachable("), {"C19-R2"}),
        V.Variant("find_all_bi_reachable: arguments exchanged with the graph", g,
                  _mk_sub("find_all_bi_reachable", "bi_reachable(graph, vertex, n)", "bi_reachable(graph, vertex, vertex)"), {"C19-R2"}),
        V.Variant("find_all_reachable: only the first maximal path", g,
                  _mk_sub("find_all_reachable", "res.update(path)", "res.update(path)\n        break"), {"C19-R2"}),
        V.Variant("dfs: the source is part of its own result", g, _mk_sub("dfs", "if is_visited and n != source", "if is_visited"), {"C19-R3"}),
        V.Variant("dfs: unmarked vertices returned too", g, _mk_sub("dfs", "if is_visited and n != source", "if n != source"), {"C19-R3"}),
        V.Variant("dfs: vertex marked after its edges", g,
                  _mk_sub("dfs", "visited[n] = True\n        for e in graph.get(n, []):\n            if not visited.get(e.target, False):\n                _dfs(e.target)",
                          "for e in graph.get(n, []):\n            if not visited.get(e.target, False):\n                _dfs(e.target)\n        visited[n] = True"), {"C19-R3"}),
        V.Variant("dfs: only the first edge followed", g, _mk_sub("dfs", "graph.get(n, [])", "graph.get(n, [])[:1]"), {"C19-R3"}),
        V.Variant("find_all_paths: path extended in place", g,
                  _mk_sub("find_all_paths", "path = path + [start]", "path.append(start)"), {"C19-R4"}),
        V.Variant("find_all_paths: only the start vertex may not be revisited", g,
                  _mk_sub("find_all_paths", "if node not in path:", "if node != start:"), {"C19-R4"}),
        V.Variant("find_all_paths: one-vertex continuations dropped", g,
                  _mk_sub("find_all_paths", "paths.append(newpath)", "if len(newpath) > len(path) + 1:\n                    paths.append(newpath)"), {"C19-R4"}),
        V.Variant("find_all_paths: mutable default accumulator", g, _mk_sub("find_all_paths", "path=None", "path=[]"), {"C19-R4"}),
        V.Variant("find_longest_paths: the repaired defect (slice of the wrong length)", g,
                  _mk_sub("find_longest_paths", "len(x) < len(y) and x == y[:len(x)]", "x == y[:len(y) - len(x) + 1]"), {"C19-R5"}),
        V.Variant("find_longest_paths: prefix test applied the wrong way round", g,
                  _mk_sub("find_longest_paths", "exist(x, p)", "exist(p, x)"), {"C19-R5"}),
        V.Variant("find_longest_paths: a path excludes itself", g,
                  _mk_sub("find_longest_paths", "len(x) < len(y) and x == y[:len(x)]", "x == y[:len(x)]"), {"C19-R5"}),
        V.Variant("find_sources: self-loops do not count as incoming edges", g,
                  _mk_sub("find_sources", "if source in graph[n]]", "if source in graph[n] and n != source]"), {"C19-R6"}),
        V.Variant("find_sources: expanded vertices are not marked", g, _mk_sub("find_sources", "visited[source] = True", "pass"), {"C19-R6"}),
        V.Variant("find_sources: only the first predecessor is followed", g,
                  _mk_sub("find_sources", "stack.extend(s_sources)", "stack.append(s_sources[0])"), {"C19-R6"}),
        V.Variant("reachable: memo of the last answer in a module-level dict", g, _v_memo, {"C19-R8"}),
        V.Variant("dfs: marked set returned as it is (source on a cycle included)", g, _v_dfs_discovery_bare, {"C19-R3"}),
        V.Variant("twin: dfs marks on discovery and takes the source out", g, _t_dfs_discovery, None, twin=True),
        V.Variant("twin: reachable with a visited set, a domain test on the graph and a stack", g, _t_reachable_set_form, None, twin=True),
        V.Variant("twin: rename locals", g, _t_rename, None, twin=True),
        V.Variant("twin: whole tree reformatted by ast.unparse", None, None, None, twin=True),
    ]


# ---------------------------------------------------------------------------------------------------------------
# R8: the queries keep no state between calls

_CONTAINER_MUTATORS = ("append", "extend", "insert", "pop", "remove", "clear", "update", "add", "discard", "setdefault",
                       "popitem", "sort", "reverse")


def r8_stateless(repo):
    """An answer is a function of the arguments' current contents.  The graphs are plain dicts that the only client in
    the repository (is_combination_feasible) updates in place between two queries, so state kept between calls - a
    module-level memo, a mutable default - makes a later answer depend on an earlier graph."""
    R = "C19-R8"
    m = repo.modules.get(GU)
    if m is None:
        raise AnalysisError("module %s not found" % GU, rule=R, anchor=GU)
    module_names = set()
    for st in m.tree.body:
        if isinstance(st, (ast.Assign, ast.AnnAssign, ast.AugAssign)):
            for t in (st.targets if isinstance(st, ast.Assign) else [st.target]):
                module_names |= {x.id for x in ast.walk(t) if isinstance(x, ast.Name)}
    obs = []
    for qual, fi in sorted(repo.functions.items()):
        if fi.module is not m or fi.outer is not None:
            continue
        bad = []
        local_binds = set(fi.params)
        for n in ast.walk(fi.node):
            if isinstance(n, ast.Global):
                bad.append("global %s" % ", ".join(n.names))
            if isinstance(n, (ast.Assign, ast.AugAssign, ast.For, ast.With, ast.NamedExpr, ast.comprehension)):
                tg = n.targets if isinstance(n, ast.Assign) else \
                    [getattr(n, "target", None)] if not isinstance(n, ast.With) else [i.optional_vars for i in n.items]
                for t in tg:
                    if t is not None:
                        local_binds |= {x.id for x in ast.walk(t) if isinstance(x, ast.Name) and
                                        isinstance(x.ctx, ast.Store)}
        for n in ast.walk(fi.node):
            if isinstance(n, ast.Call) and isinstance(n.func, ast.Attribute) and n.func.attr in _CONTAINER_MUTATORS and \
                    isinstance(n.func.value, ast.Name) and n.func.value.id in module_names - local_binds:
                bad.append(src(n))
            if isinstance(n, (ast.Assign, ast.AugAssign, ast.Delete)):
                for t in (n.targets if not isinstance(n, ast.AugAssign) else [n.target]):
                    if isinstance(t, (ast.Subscript, ast.Attribute)):
                        root = t
                        while isinstance(root, (ast.Subscript, ast.Attribute)):
                            root = root.value
                        if isinstance(root, ast.Name) and root.id in module_names - local_binds:
                            bad.append(src(n))
        args = fi.node.args
        for d in list(args.defaults) + [d for d in args.kw_defaults if d is not None]:
            if isinstance(d, (ast.List, ast.Dict, ast.Set, ast.ListComp, ast.DictComp, ast.SetComp)) or \
                    (isinstance(d, ast.Call) and isinstance(d.func, ast.Name) and
                     d.func.id in ("list", "dict", "set", "defaultdict", "OrderedDict", "deque")):
                bad.append("mutable default %s" % src(d))
        obs.append(Ob(R, "%s:keeps-no-state-between-calls" % fi.name, _where(fi), not bad,
                      "%s writes state that survives the call: %s; the graphs handed to these queries are updated in place "
                      "between queries, an answer must depend on the arguments alone" % (fi.name, bad)))
    return obs


def rules():
    return [
        RuleSpec("C19-R8", "the queries keep no state between calls", 10, r8_stateless,
                 "no global statement, no store or in-place update of a module-level name, no mutable default"),
        RuleSpec("C19-R1", "worklist searches with a boolean answer (reachable, connected)", 14, r1_boolean_searches,
                 "seed, complete expansion, push iff unvisited + mark, positive answer only for the destination, "
                 "negative only at exhaustion; connected follows edges both ways"),
        RuleSpec("C19-R2", "compositions (bi_reachable, find_all_*, none_*)", 8, r2_compositions,
                 "the right query, the right argument order, over all vertices, unfiltered"),
        RuleSpec("C19-R3", "recursive traversal dfs", 6, r3_dfs,
                 "mark before edges, every edge, exactly when unvisited, starts at the source, result = marked minus source"),
        RuleSpec("C19-R4", "all simple paths (find_all_paths)", 9, r4_all_paths,
                 "new list per extension, no in-place update, every successor, exactly `node not in path`, every "
                 "returned path kept"),
        RuleSpec("C19-R5", "maximal paths (find_longest_paths)", 6, r5_maximal_paths,
                 "kept iff no path has it as a proper prefix; the compared slice has the candidate's length"),
        RuleSpec("C19-R6", "sources (find_sources)", 6, r6_sources,
                 "all predecessors, recorded iff none, every predecessor pushed, each vertex expanded once"),
        RuleSpec("C19-R7", "the traversal runs on the graph the feasibility check was given", 2, r7_use,
                 "use clause; shape of the feasibility test itself is C03-R7"),
    ]
