"""C03 - type erasure only removes inferable type information (frame + guard)."""
import ast

from ..repo import AnalysisError
from ..report import Ob, RuleSpec
from ..astutil import (always_leaves, src, flat_guards, flatten_guard, calls_in, call_name, kwarg, const_value,
                       iter_own_nodes, ancestors, is_within, names_in, attr_chain)
from ..cfg import cfg_of, Prov, resolve_local
from ..irwrites import closure_effects, IR_MODULES
from .. import variants as V
from .. import kernel

PROPERTY = "C03"
TITLE = "Type erasure only removes inferable type information"
DECIDES = ("Decided: (a) the frame condition - every effect in the call-graph closure of TypeErasure (its methods, the "
           "inherited visitors, the type dependency analysis, the feasibility check and helpers) that can write into the "
           "program is one of: omit_type() on a declaration, can_infer_type_args = True, update_children re-installing "
           "the same children, and one bookkeeping field of FunctionCall that no translator reads; (b) the bodies of those "
           "mutators store exactly one attribute; (c) both writes are dominated by a positive feasibility answer for the "
           "very combination being applied, on a fresh copy of the graph, whose helpers only rebind keys; (d) visitors "
           "return their argument or the inherited result (so update_children re-installs the same objects); (e) what "
           "is omittable: exactly declarations with an inferred_type (variables, functions) and constructor/call "
           "instantiation nodes. Also: the analysis' lookup scope (_namespace) is restored on every path after every hand-written change; the recursion test that protects a return-type node is by name only.")
NOT_DECIDED = ("that the feasibility check is right about what a compiler infers (a property of the type-graph "
               "construction over all programs).")

TE = "src.transformations.type_erasure.TypeErasure"
TDA = "src.analysis.type_dependency_analysis"

CONTAINER_PARAMS = {
    "type_graph": "the analysis' own adjacency map (keys are graph nodes, values fresh Edge lists); not part of the program",
    "t_args": "local result list of _compute_type_variable_assignments handed to its helper",
    "type_var_map": "assignment map built by the instantiation / unification helpers (fresh dict per call chain)",
    "variance_choices": "caller-owned out-parameter of the instantiation helpers (C07-R2)",
    "visited": "dfs bookkeeping dict (closure variable of graph_utils.dfs)",
    "indexes": "local index map of _compute_type_variable_assignments",
    "res": "local result dict of analysis helpers",
}


def _w(f, node=None):
    return "%s:%d" % (f.module.relpath, (node or f.node).lineno)


def _g(node, stop=None):
    return [(src(t), p) for t, p in flat_guards(node, stop)]


def frame_obligations(repo, cls_qual, rule, allowed_ir_writes, allowed_ir_self, extra_container=()):
    """Shared by C03-R1 / C04-R1: returns (obs, stats)."""
    cls = repo.cls(cls_qual)
    E, fns, effs = closure_effects(repo, cls)
    obs = []
    counts = {}
    containers = dict(CONTAINER_PARAMS)
    containers.update(extra_container)
    seen_allowed = set()
    for f, e, (cat, detail) in effs:
        counts[cat] = counts.get(cat, 0) + 1
        if cat in ("fresh", "self-state", "ctor-init"):
            continue
        key = "%s:%s:%s" % (f.qualname, e.kind, " ".join(e.text().split())[:80])
        if cat == "container-param":
            ok = detail in containers
            obs.append(Ob(rule, "container:" + key, e.where, ok,
                          ("container-parameter write `%s` (%s)" % (e.text(), containers.get(detail)))
                          if ok else "store into container parameter `%s` that is not on the reviewed list: %s"
                          % (detail, e.describe())))
            continue
        if cat == "ir-self":
            hit = None
            for name, pred in allowed_ir_self.items():
                if pred(f, e):
                    hit = name
            if hit:
                seen_allowed.add(hit)
            obs.append(Ob(rule, "ir-self:" + key, e.where, hit is not None,
                          ("IR object writes its own field: allowed as `%s`" % hit) if hit else
                          "an IR method reachable from the mutation writes into its receiver outside the allowed set: "
                          + e.describe()))
            continue
        hit = None
        for name, pred in allowed_ir_writes.items():
            if pred(f, e):
                hit = name
        if hit:
            seen_allowed.add(hit)
        obs.append(Ob(rule, "ir-write:" + key, e.where, hit is not None,
                      ("write into the program: allowed as `%s`" % hit) if hit else
                      "the mutation's closure can write into the program outside its frame: " + e.describe(),
                      {"tags": sorted(e.tags), "attr": e.attr}))
    stats = {"closure_functions": len(fns), "effects": len(effs), "by_category": counts,
             "resolved_calls": E.resolved, "unresolved_calls": E.unresolved}
    return obs, stats, seen_allowed


def _in(f, qual_suffix):
    return f.qualname.endswith(qual_suffix)


ALLOWED_SELF = {
    "omit_type": lambda f, e: f.name == "omit_type" and f.module.name == "src.ir.ast",
    "update_children": lambda f, e: f.name == "update_children" and f.module.name == "src.ir.ast",
    "can_infer_type_args setter": lambda f, e: f.name == "can_infer_type_args" and e.attr == "_can_infer_type_args",
    "Context registration (Program.update_children re-registers the same declarations)":
        lambda f, e: f.qualname == "src.ir.context.Context._add_entity",
}


def r1_write_set(repo):
    allowed = {
        "can_infer_type_args = True": lambda f, e: _in(f, "TypeErasure.visit_func_decl") and
        e.attr == "can_infer_type_args" and isinstance(e.node, ast.Assign) and const_value(e.node.value) is True,
        "FunctionCall.type_parameters bookkeeping": lambda f, e: _in(f, "TypeDependencyAnalysis._handle_parameterized_func_call")
        and e.attr == "type_parameters" and e.root == "fun_call",
    }
    obs, stats, seen = frame_obligations(repo, TE, "C03-R1", allowed, ALLOWED_SELF)
    want = {"can_infer_type_args = True", "omit_type", "update_children"}
    obs.append(Ob("C03-R1", "expected-writes-present", "src/transformations/type_erasure.py", want <= seen,
                  "the frame analysis must see the mutation's own writes (found %s, closure of %d functions, %s)"
                  % (sorted(seen), stats["closure_functions"], stats["by_category"]), stats))
    if stats["closure_functions"] < 100:
        raise AnalysisError("closure of TypeErasure unexpectedly small (%d)" % stats["closure_functions"], rule="C03-R1")
    # omit_type reached from the mutation
    f = repo.method(TE, "visit_func_decl", inherited=False)
    oc = [c for c in calls_in(f.node) if call_name(c) == "omit_type"]
    obs.append(Ob("C03-R1", "omit_type-call-site", _w(f), len(oc) == 1 and src(oc[0].func.value).endswith(".decl"),
                  "declared types are removed only through <node>.decl.omit_type(): %s" % [src(c) for c in oc]))
    return obs


def r2_mutator_bodies(repo):
    obs = []
    want = {"src.ir.ast.VariableDeclaration.omit_type": "var_type",
            "src.ir.ast.FunctionDeclaration.omit_type": "ret_type"}
    for q, attr in want.items():
        f = repo.fn(q)
        stores = [n for n in iter_own_nodes(f.node) if isinstance(n, (ast.Assign, ast.AugAssign, ast.Delete))]
        calls = calls_in(f.node)
        ok = len(stores) == 1 and isinstance(stores[0], ast.Assign) and src(stores[0].targets[0]) == "self." + attr and \
            const_value(stores[0].value, 1) is None and not calls
        obs.append(Ob("C03-R2", q.split(".", 3)[-1] + ":clears-only-" + attr, _w(f), ok,
                      "omit_type must be exactly `self.%s = None`; found %s" % (attr, [src(s) for s in stores])))
    for q in ("src.ir.types.ParameterizedType", "src.ir.ast.FunctionCall"):
        c = repo.cls(q)
        setters = [n for n in c.node.body if isinstance(n, ast.FunctionDef) and n.name == "can_infer_type_args" and
                   any("setter" in src(d) for d in n.decorator_list)]
        ok = len(setters) == 1
        if ok:
            stores = [n for n in ast.walk(setters[0]) if isinstance(n, (ast.Assign, ast.AugAssign))]
            ok = len(stores) == 1 and src(stores[0].targets[0]) == "self._can_infer_type_args" and \
                src(stores[0].value) == setters[0].args.args[1].arg
        getters = [n for n in c.node.body if isinstance(n, ast.FunctionDef) and n.name == "can_infer_type_args" and
                   any(src(d) == "property" for d in n.decorator_list)]
        ok = ok and len(getters) == 1 and src(getters[0].body[-1]) == "return self._can_infer_type_args"
        obs.append(Ob("C03-R2", c.name + ".can_infer_type_args:setter-stores-one-flag", _w(c), ok,
                      "the setter must store exactly self._can_infer_type_args = <value> and the getter return it"))
    # all classes defining omit_type
    defs = sorted(c.name for c in repo.classes.values() if "omit_type" in c.methods)
    obs.append(Ob("C03-R2", "omit_type-defined-exactly-on-variables-and-functions", "src/ir/ast.py",
                  defs == ["FunctionDeclaration", "VariableDeclaration"], "classes defining omit_type: %s" % defs))
    return obs


def r3_guard(repo):
    f = repo.method(TE, "visit_func_decl", inherited=False)
    fn = f.node
    g = cfg_of(fn)
    obs = []
    writes = [c for c in calls_in(fn) if call_name(c) == "omit_type"] + \
        [n for n in iter_own_nodes(fn) if isinstance(n, ast.Assign) and
         isinstance(n.targets[0], ast.Attribute) and n.targets[0].attr == "can_infer_type_args"]
    if len(writes) != 2:
        raise AnalysisError("expected the two IR writes in TypeErasure.visit_func_decl, found %d" % len(writes),
                            rule="C03-R3", anchor=f.qualname)
    # second layout: the search lives in a helper that *returns* the accepted combination (`return combination` right
    # under the feasibility test, an empty tuple otherwise) and the writes iterate over its result
    helper_form = None
    inner0 = [a for a in ancestors(writes[0]) if isinstance(a, ast.For)]
    if len(inner0) == 1 and isinstance(inner0[0].iter, ast.Name):
        ds = g.defs_reaching(inner0[0].iter.id, inner0[0])
        if len(ds) == 1 and isinstance(ds[0][1], ast.Call):
            tg, _how = repo.resolve_call(ds[0][1], f)
            tg = [t for t in tg if t.module is f.module]
            if len(tg) == 1:
                helper_form = (inner0[0], ds[0][1], tg[0])
    if helper_form is not None:
        lp, hcall, h = helper_form
        hg = cfg_of(h.node)
        rets = [r for r in iter_own_nodes(h.node) if isinstance(r, ast.Return)]
        empties = [r for r in rets if r.value is None or (isinstance(r.value, (ast.Tuple, ast.List)) and not r.value.elts)]
        found = [r for r in rets if r not in empties]
        okh, why = False, "helper %s: returns %s" % (h.name, [src(r) for r in rets])
        sloop = None
        if len(found) == 1 and isinstance(found[0].value, ast.Name):
            comb = found[0].value.id
            loops_h = [a for a in ancestors(found[0]) if isinstance(a, ast.For)]
            if loops_h and comb in {n.id for n in ast.walk(loops_h[0].target) if isinstance(n, ast.Name)}:
                sloop = loops_h[0]
                tests = [t for t, p in flat_guards(found[0], stop=sloop) if p and isinstance(t, ast.Call) and
                         call_name(t) == "is_combination_feasible"]
                okh = len(tests) == 1 and src(tests[0].args[1]) == comb
                if okh:
                    a0 = tests[0].args[0]
                    if isinstance(a0, ast.Name):
                        dd = hg.defs_reaching(a0.id, tests[0])
                        okh = len(dd) == 1 and isinstance(dd[0][1], ast.Call) and call_name(dd[0][1]) in ("copy", "dict") and \
                            is_within(hg.stmt(dd[0][0]), sloop)
                    else:
                        okh = isinstance(a0, ast.Call) and call_name(a0) in ("copy", "dict") and len(a0.args) == 1
                why = "helper %s returns `%s` under %s" % (h.name, comb, [src(t) for t in tests])
        for wn in writes:
            root = src(wn.func.value) if isinstance(wn, ast.Call) else src(wn.targets[0].value)
            key = "write:" + (src(wn)[:60] if isinstance(wn, ast.Call) else src(wn.targets[0]))
            obs.append(Ob("C03-R3", key + ":guarded-by-feasibility-of-this-combination", _w(f, wn),
                          okh and root.split(".")[0] == src(lp.target) and not flat_guards(lp),
                          "the writes iterate over the result of %s, which must return a combination only right under "
                          "`is_combination_feasible(<fresh copy made in that iteration>, combination)` and the empty tuple "
                          "otherwise: %s" % (h.name, why)))
        obs.append(Ob("C03-R3", "first-feasible-combination-only", _w(f), okh,
                      "the helper returns at the first accepted combination"))
        prov_h = Prov(h.node, passthrough={"enumerate", "from_iterable", "combinations", "chain"})
        okc = False
        if sloop is not None:
            srcs = prov_h.sources(sloop.iter)
            pnames = {s_ for s_ in srcs if isinstance(s_, str)} | {getattr(s_, "id", None) for s_ in srcs if isinstance(s_, ast.Name)}
            # which argument of the call feeds the search loop: follow the parameter back to the caller
            for i_, p_ in enumerate(h.params[1:] if h.cls is not None else h.params):
                if any(p_ == x or ("param:" + p_) == x for x in pnames) or p_ in src(sloop.iter) or \
                        any(isinstance(s_, ast.AST) and p_ in {n.id for n in ast.walk(s_) if isinstance(n, ast.Name)} for s_ in srcs):
                    if i_ < len(hcall.args):
                        csrcs = Prov(fn).sources(hcall.args[i_], at=hcall)
                        comps = [s_ for s_ in csrcs if isinstance(s_, ast.ListComp)]
                        if any(any(src(i).endswith(".is_omittable()") for i in c.generators[0].ifs) for c in comps):
                            okc = True
        obs.append(Ob("C03-R3", "candidates-are-omittable-graph-nodes", _w(f), okc,
                      "the combinations must be drawn from [n for n in type_graph.keys() if n.is_omittable()]"))
        return obs + _r3_tail(repo, f, fn, g)
    for wn in writes:
        inner = [a for a in ancestors(wn) if isinstance(a, ast.For)]
        ok, msg = False, "write is not inside the loop over the accepted combination"
        if len(inner) >= 2:
            comb_loop, outer = inner[0], inner[1]
            comb = src(comb_loop.iter)
            tests = [t for t, p in flat_guards(wn, stop=outer) if p and isinstance(t, ast.Call) and
                     call_name(t) == "is_combination_feasible"]
            ok = len(tests) == 1 and src(tests[0].args[1]) == comb
            graph_ok = False
            if ok:
                a0 = tests[0].args[0]
                if isinstance(a0, ast.Name):
                    defs = g.defs_reaching(a0.id, tests[0])
                    graph_ok = len(defs) == 1 and isinstance(defs[0][1], ast.Call) and \
                        call_name(defs[0][1]) in ("copy", "dict") and is_within(g.stmt(defs[0][0]), outer)
                else:
                    # the copy is made in the argument position itself
                    graph_ok = isinstance(a0, ast.Call) and call_name(a0) in ("copy", "dict") and len(a0.args) == 1
                # combination is the outer loop's variable
                tgt = outer.target
                names = {n.id for n in ast.walk(tgt) if isinstance(n, ast.Name)}
                ok = graph_ok and comb in names
            # the written node is the inner loop variable
            root = src(wn.func.value) if isinstance(wn, ast.Call) else src(wn.targets[0].value)
            ok = ok and root.split(".")[0] == src(comb_loop.target)
            msg = ("the write must sit under `if tda.is_combination_feasible(<fresh copy made in this iteration>, "
                   "combination)` for the combination it iterates over: tests=%s fresh-copy=%s" % (
                       [src(t) for t in tests], graph_ok))
        key = "write:" + (src(wn)[:60] if isinstance(wn, ast.Call) else src(wn.targets[0]))
        obs.append(Ob("C03-R3", key + ":guarded-by-feasibility-of-this-combination", _w(f, wn), ok, msg))
    # first accepted combination only
    # the search loop is the loop around the writes (second enclosing loop: the first iterates over the combination)
    loops = []
    for wn in writes:
        inner = [a for a in ancestors(wn) if isinstance(a, ast.For)]
        if len(inner) >= 2 and inner[1] not in loops:
            loops.append(inner[1])
    ok = False
    if len(loops) == 1:
        # a `break` of the search loop that is taken exactly when the feasibility test held (whatever the layout: inside
        # the `if`, or after an `if not feasible: continue`)
        for b in [n for n in ast.walk(loops[0]) if isinstance(n, ast.Break)]:
            own = [a for a in ancestors(b) if isinstance(a, (ast.For, ast.While))][:1] == [loops[0]]
            gs = [(t, p) for t, p in flat_guards(b, stop=loops[0])]
            feas = [t for t, p in gs if p and isinstance(t, ast.Call) and call_name(t) == "is_combination_feasible"]
            rest = [src(t) for t, p in gs if p and not (isinstance(t, ast.Call) and call_name(t) == "is_combination_feasible")]
            if own and len(feas) == 1 and not rest:
                ok = True
    obs.append(Ob("C03-R3", "first-feasible-combination-only", _w(f), ok,
                  "the search must stop (`break`) right after applying the first accepted combination"))
    # candidates come from is_omittable() nodes only
    prov = Prov(fn, passthrough={"enumerate", "from_iterable", "combinations", "chain"})
    ok = False
    if loops:
        it = loops[0].iter
        srcs = prov.sources(it)
        comps = [s for s in srcs if isinstance(s, ast.ListComp)]
        # iterating a dict is iterating its keys: `for n in type_graph` and `for n in type_graph.keys()` are the same
        graph_names = {src(t) for n_ in iter_own_nodes(fn) if isinstance(n_, ast.Assign) and isinstance(n_.value, ast.Call)
                       and call_name(n_.value) == "result" for t in n_.targets}
        ok = any(any(src(i).endswith(".is_omittable()") for i in c.generators[0].ifs) and
                 (".keys()" in src(c.generators[0].iter) or src(c.generators[0].iter) in graph_names) for c in comps)
    obs.append(Ob("C03-R3", "candidates-are-omittable-graph-nodes", _w(f), ok,
                  "the combinations must be drawn from [n for n in type_graph.keys() if n.is_omittable()]"))
    return obs + _r3_tail(repo, f, fn, g)


def _r3_tail(repo, f, fn, g):
    obs = []
    # the function's graph is completed with the global graph, global entries taking precedence
    for q_ in (TE + ".visit_func_decl", "src.transformations.type_overwriting.TypeOverwriting._add_candidate_method"):
        h = repo.fn(q_)
        res = [n for n in iter_own_nodes(h.node) if isinstance(n, ast.Assign) and isinstance(n.value, ast.Call) and
               call_name(n.value) == "result" and isinstance(n.targets[0], ast.Name)]
        okm = len(res) == 1
        if okm:
            gname = res[0].targets[0].id
            ups = [c for c in calls_in(h.node) if call_name(c) == "update" and src(c.func.value) == gname]
            okm = len(ups) == 1 and src(ups[0].args[0]) == "self.global_type_graph" and not flat_guards(ups[0]) and \
                ups[0].lineno > res[0].lineno and \
                len(cfg_of(h.node).defs_reaching(gname, ups[0])) == 1
        obs.append(Ob("C03-R3", "%s:function-graph-updated-with-the-global-graph" % h.name, _w(h), okm,
                      "the graph analysed for a function must be `t_an.result()` updated with self.global_type_graph (for a "
                      "global variable the entry built from its own declaration - declared type and initialiser - must win "
                      "over the partial entry a function that assigns it contributes)"))
    # helpers only rebind keys
    for q in (TDA + ".is_combination_feasible", TDA + "._handle_declaration_node", TDA + "._handle_type_inst_call_node"):
        h = repo.fn(q)
        gparam = h.params[0]
        bad = []
        for n in iter_own_nodes(h.node):
            if isinstance(n, ast.Call) and isinstance(n.func, ast.Attribute) and \
                    n.func.attr in ("append", "extend", "remove", "pop", "clear", "insert", "sort", "reverse",
                                    "update", "setdefault") and gparam in src(n.func.value):
                bad.append(src(n)[:60])
            if isinstance(n, (ast.Assign, ast.AugAssign)):
                for t in (n.targets if isinstance(n, ast.Assign) else [n.target]):
                    if isinstance(t, ast.Subscript) and isinstance(t.value, ast.Subscript) and gparam in src(t):
                        bad.append(src(t))
                    if isinstance(n, ast.AugAssign) and gparam in src(t):
                        bad.append(src(n)[:60])
            if isinstance(n, ast.Delete) and gparam in src(n):
                bad.append(src(n))
        # edge lists taken from the graph are never mutated through a local alias
        aliases = [n.targets[0].id for n in iter_own_nodes(h.node) if isinstance(n, ast.Assign) and
                   isinstance(n.targets[0], ast.Name) and isinstance(n.value, ast.Subscript) and
                   src(n.value.value) == gparam]
        for n in iter_own_nodes(h.node):
            if isinstance(n, ast.Call) and isinstance(n.func, ast.Attribute) and \
                    n.func.attr in ("append", "extend", "remove", "pop", "clear", "insert", "sort", "reverse") and \
                    isinstance(n.func.value, ast.Name) and n.func.value.id in aliases:
                # allowed only if the alias was rebound to a fresh list before
                defs = cfg_of(h.node).defs_reaching(n.func.value.id, n)
                if any(isinstance(d[1], ast.Subscript) for d in defs):
                    bad.append("in-place %s on an edge list of the graph" % src(n)[:50])
        obs.append(Ob("C03-R3", h.name + ":only-rebinds-keys-of-the-graph", _w(h), not bad,
                      "the graph copy is shallow, so the feasibility helpers may only rebind keys "
                      "(`type_graph[k] = <new list>`), never mutate an edge list in place: %s" % bad))
    return obs


def r4_bookkeeping_unread(repo):
    obs = []
    reads = []
    for q in ("src.translators.java.JavaTranslator", "src.translators.kotlin.KotlinTranslator",
              "src.translators.groovy.GroovyTranslator", "src.translators.scala.ScalaTranslator"):
        c = repo.cls(q)
        m = c.lookup("visit_func_call")
        if m is None:
            raise AnalysisError("%s.visit_func_call missing" % q, rule="C03-R4", anchor=q)
        for n in iter_own_nodes(m.node):
            if isinstance(n, ast.Attribute) and n.attr == "type_parameters" and src(n.value) == m.params[1]:
                reads.append("%s:%d" % (m.qualname, n.lineno))
    fc = repo.cls("src.ir.ast.FunctionCall")
    users = sorted(m.name for m in fc.methods.values()
                   if any(isinstance(n, ast.Attribute) and n.attr == "type_parameters" for n in ast.walk(m.node)))
    ok = not reads and set(users) <= {"__init__", "get_type_variable_assignments"}
    obs.append(Ob("C03-R4", "FunctionCall.type_parameters-is-pure-bookkeeping", _w(fc), ok,
                  "the field the analysis writes into a FunctionCall must not reach translations or equality: translator "
                  "reads %s; FunctionCall methods using it: %s" % (reads, users)))
    # positive example: the same scan finds reads of node.type_args
    c = repo.cls("src.translators.kotlin.KotlinTranslator")
    m = c.lookup("visit_func_call")
    pos = [n for n in iter_own_nodes(m.node) if isinstance(n, ast.Attribute) and n.attr == "type_args"
           and src(n.value) == m.params[1]]
    if not pos:
        raise AnalysisError("positive example (Kotlin visit_func_call reads node.type_args) no longer matches",
                            rule="C03-R4", anchor=m.qualname)
    return obs


def r5_identity_visitors(repo):
    obs = []
    for q in (TE, "src.transformations.base.Transformation"):
        c = repo.cls(q)
        for name, m in sorted(c.methods.items()):
            if not name.startswith("visit_"):
                continue
            p = m.params[1]
            rets = [n for n in iter_own_nodes(m.node) if isinstance(n, ast.Return)]
            bad = []
            for r in rets:
                v = r.value
                if isinstance(v, ast.Name) and v.id == p:
                    continue
                if isinstance(v, ast.Call) and isinstance(v.func, ast.Attribute) and \
                        isinstance(v.func.value, ast.Call) and src(v.func.value.func) == "super" and \
                        v.func.attr == name and [src(a) for a in v.args] == [p]:
                    continue
                bad.append(src(r))
            falls = not rets or not always_leaves(m.node.body)     # every path ends in a return / raise
            obs.append(Ob("C03-R5", "%s.%s:returns-its-node" % (c.name, name), _w(m), not bad and not falls,
                          "a visitor of the mutation must return its argument or the inherited visitor's result "
                          "(otherwise update_children installs a different object): %s%s"
                          % (bad, " falls off the end (returns None)" if falls else "")))
    f = repo.method("src.ir.visitors.DefaultVisitorUpdate", "_visit_node", inherited=False)
    uc = [c for c in calls_in(f.node) if call_name(c) == "update_children"]
    app = [c for c in calls_in(f.node) if call_name(c) == "append"]
    ok = len(uc) == 1 and len(app) == 1 and isinstance(app[0].args[0], ast.Call) and \
        call_name(app[0].args[0]) == "accept" and src(uc[0].args[0]) == src(app[0].func.value) and \
        isinstance(f.node.body[-1], ast.Return) and src(f.node.body[-1].value) == f.params[1]
    obs.append(Ob("C03-R5", "DefaultVisitorUpdate._visit_node:reinstalls-visit-results-in-order", _w(f), ok,
                  "_visit_node must collect c.accept(self) for every child in order, pass the list to update_children "
                  "and return the node"))
    return obs


def r6_omittable(repo):
    obs = []
    want = {"TypeVarNode": "False", "TypeNode": "False", "TypeConstructorInstantiationDeclNode": "False",
            "TypeConstructorInstantiationCallNode": "True",
            "DeclarationNode": "getattr(self.decl, 'inferred_type', False) is not False"}
    for cn, expr in want.items():
        c = repo.cls(TDA + "." + cn)
        m = c.methods.get("is_omittable")
        ok = m is not None and len(m.node.body) == 1 and isinstance(m.node.body[0], ast.Return) and \
            src(m.node.body[0].value) == expr
        obs.append(Ob("C03-R6", cn + ".is_omittable", _w(c), ok,
                      "%s.is_omittable must be `return %s`; found %s" % (cn, expr, src(m.node.body[0]) if m else None)))
    others = sorted(c.name for c in repo.classes.values() if "is_omittable" in c.methods and c.name not in want)
    obs.append(Ob("C03-R6", "no-other-omittable-node-kind", "src/analysis/type_dependency_analysis.py", not others,
                  "other classes defining is_omittable: %s" % others))
    m = repo.module("src.ir.ast")
    with_inf = sorted(c.name for c in repo.classes.values() if c.module is m and any(
        isinstance(n, ast.Assign) and src(n.targets[0]) == "self.inferred_type"
        for f in c.methods.values() for n in iter_own_nodes(f.node)))
    with_omit = sorted(c.name for c in repo.classes.values() if c.module is m and "omit_type" in c.methods)
    decls = [x for x in with_inf if x.endswith("Declaration")]
    # a function whose body is a block or a call of a same-named function keeps its return type: the compiler cannot
    # infer a return type through the function's own (possibly inherited / overloaded) name.  The test is by name and
    # conservative; consulting anything else of the call (its receiver) narrows it.
    tda = repo.cls(TDA + ".TypeDependencyAnalysis")
    vf = tda.methods["visit_func_decl"]
    hd = [c for c in calls_in(vf.node) if call_name(c) == "_handle_declaration" and
          any(const_value(a) == "ret_type" for a in c.args)]
    okr, whyr = False, "no _handle_declaration(..., 'ret_type') in visit_func_decl"
    inline_rec = False
    if len(hd) == 1:
        from ..cfg import resolve_local as _rl
        gs = [(" ".join(src(_rl(vf.node, t, at=hd[0])).split()), p) for t, p in flat_guards(hd[0])]
        nd = vf.params[1]
        by_helper = ("_is_recursive_call(%s.name, %s.body)" % (nd, nd), False) in gs
        # the same test written in place: `isinstance(node.body, ast.FunctionCall) and node.name == node.body.func`
        for t, p in flat_guards(hd[0]):
            e = _rl(vf.node, t, at=hd[0])
            if p or not (isinstance(e, ast.BoolOp) and isinstance(e.op, ast.And)):
                continue
            conj = [" ".join(src(v).split()) for v in e.values]
            reads = sorted({n.attr for n in ast.walk(e) if isinstance(n, ast.Attribute) and src(n.value) == "%s.body" % nd})
            if "isinstance(%s.body, ast.FunctionCall)" % nd in conj and reads == ["func"] and len(conj) == 2 and \
                    any(isinstance(v, ast.Compare) and isinstance(v.ops[0], ast.Eq) and
                        {src(v.left), src(v.comparators[0])} == {"%s.name" % nd, "%s.body.func" % nd} for v in e.values):
                inline_rec = True
        okr = ("isinstance(%s.body, ast.Block)" % nd, False) in gs and (by_helper or inline_rec)
        whyr = "guards of the return-type declaration node: %s" % gs
    obs.append(Ob("C03-R6", "visit_func_decl:return-type-omittable-only-for-non-recursive-expression-bodies", _w(vf), okr,
                  "the virtual declaration for the return type may be created only when the body is neither a block nor "
                  "a recursive call: " + whyr))
    if inline_rec and repo.functions.get(TDA + "._is_recursive_call") is None:
        obs.append(Ob("C03-R6", "_is_recursive_call:by-name-only", _w(vf), True,
                      "the recursion test is written in place in visit_func_decl: same name, whatever the receiver"))
        obs.append(Ob("C03-R6", "inferred_type-declarations=omit_type-classes", "src/ir/ast.py",
                      decls == with_omit == ["FunctionDeclaration", "VariableDeclaration"],
                      "declaration classes with an inferred_type attribute: %s; classes with omit_type: %s "
                      "(parameters and fields are never erased)" % (decls, with_omit)))
        return obs
    rc = repo.fn(TDA + "._is_recursive_call")
    nm, body = rc.params[:2]
    reads = sorted({n.attr for n in ast.walk(rc.node) if isinstance(n, ast.Attribute) and src(n.value) == body})
    pos = [r for r in iter_own_nodes(rc.node) if isinstance(r, ast.Return) and const_value(r.value, 1) is not False]
    okc = reads == ["func"] and len(pos) == 1 and isinstance(pos[0].value, ast.Compare) and \
        {src(pos[0].value.left), src(pos[0].value.comparators[0])} == {nm, body + ".func"} and \
        isinstance(pos[0].value.ops[0], ast.Eq) and \
        [(" ".join(src(t).split()), p) for t, p in flat_guards(pos[0]) if "isinstance" in src(t)] == \
        [("isinstance(%s, ast.FunctionCall)" % body, True)]
    obs.append(Ob("C03-R6", "_is_recursive_call:by-name-only", _w(rc), okc,
                  "a call body is recursive iff it calls a function of the same name (`%s == %s.func`), whatever its "
                  "receiver; attributes of the body consulted: %s, positive answers: %s"
                  % (nm, body, reads, [src(r.value) for r in pos])))
    obs.append(Ob("C03-R6", "inferred_type-declarations=omit_type-classes", "src/ir/ast.py",
                  decls == with_omit == ["FunctionDeclaration", "VariableDeclaration"],
                  "declaration classes with an inferred_type attribute: %s; classes with omit_type: %s "
                  "(parameters and fields are never erased)" % (decls, with_omit)))
    return obs


def r7_feasibility_shape(repo):
    """The feasibility test itself: shape of its two verification loops (necessary conditions of its meaning)."""
    obs = []
    f = repo.fn(TDA + ".is_combination_feasible")
    fn = f.node
    graph, comb = f.params[:2]
    rets = [n for n in iter_own_nodes(fn) if isinstance(n, ast.Return)]
    true_rets = [r for r in rets if const_value(r.value) is True]
    ok = len(true_rets) == 1 and true_rets[0] is fn.body[-1] and \
        all(const_value(r.value, 1) is False for r in rets if r not in true_rets)
    obs.append(Ob("C03-R7", "is_combination_feasible:True-only-after-all-verification", _w(f), ok,
                  "the only positive answer must be the last statement, after both verification loops; every other return is False"))
    loops = [n for n in fn.body if isinstance(n, ast.For)]
    ok = len(loops) == 3 and all(src(l.iter) == comb for l in loops)
    obs.append(Ob("C03-R7", "is_combination_feasible:three-passes-over-the-whole-combination", _w(f), ok,
                  "edge removal, declaration verification and type-argument verification must each iterate over the whole combination"))
    if ok:
        rm, v1, v2 = loops
        calls = {call_name(c): c for c in calls_in(rm)}
        ok1 = "_handle_declaration_node" in calls and "_handle_type_inst_call_node" in calls and \
            any(pol and "DeclarationNode" in s_ for s_, pol in _g(calls["_handle_declaration_node"], stop=rm)) and \
            any(pol and "TypeConstructorInstantiationCallNode" in s_ for s_, pol in _g(calls["_handle_type_inst_call_node"], stop=rm))
        if not ok1:
            # dispatch-table form: a module-level dict {NodeKind: handler} looked up with type(node) and called
            m_ = f.module
            for gname, gval in m_.globals.items():
                if isinstance(gval, ast.Dict) and {(src(k), src(v)) for k, v in zip(gval.keys, gval.values)} >= {
                        ("DeclarationNode", "_handle_declaration_node"),
                        ("TypeConstructorInstantiationCallNode", "_handle_type_inst_call_node")}:
                    looked = [c for c in calls_in(rm) if call_name(c) in ("get", "__getitem__") and
                              src(c.func.value) == gname and c.args and src(c.args[0]) == "type(%s)" % src(rm.target)]
                    looked += [n for n in ast.walk(rm) if isinstance(n, ast.Subscript) and src(n.value) == gname and
                               src(n.slice) == "type(%s)" % src(rm.target)]
                    called = [c for c in calls_in(rm) if isinstance(c.func, ast.Name) and len(c.args) == 2 and
                              [src(a) for a in c.args] == [graph, src(rm.target)] and any(
                                  any(x is l for x in ast.walk(d[1])) for l in looked
                                  for d in cfg_of(fn).defs_reaching(c.func.id, c) if isinstance(d[1], ast.AST))]
                    ok1 = bool(looked) and bool(called)
        obs.append(Ob("C03-R7", "is_combination_feasible:removal-dispatch", _w(f, rm), ok1,
                      "declared edges are removed with the helper that matches the node kind"))
        dfs = [c for c in calls_in(v1) if call_name(c) == "dfs"]
        neg = [r for r in rets if is_within(r, v1)]
        ok2 = len(dfs) == 1 and [src(a) for a in dfs[0].args] == [graph, src(v1.target)] and len(neg) == 1
        if ok2:
            gs = _g(neg[0], stop=v1)
            ok2 = any(not pol and " ".join(s_.split()) in ("n.t == %s.decl.get_type()" % src(v1.target),
                                                          "%s.decl.get_type() == n.t" % src(v1.target)) for s_, pol in gs) and \
                any(pol and "isinstance(n," in s_ and "TypeNode" in s_ for s_, pol in gs)
        obs.append(Ob("C03-R7", "is_combination_feasible:omitted-declaration-reaches-only-its-own-type", _w(f, v1), ok2,
                      "for every omitted declaration, any type node reachable from it (dfs over the reduced graph) with a "
                      "type different from the declaration's type must make the combination infeasible"))
        dfs2 = [c for c in calls_in(v2) if call_name(c) == "dfs"]
        neg2 = [r for r in rets if is_within(r, v2)]
        ok3 = len(dfs2) == 1 and src(dfs2[0].args[0]) == graph and len(neg2) == 1 and \
            isinstance(neg2[0]._parent, ast.If) and src(neg2[0]._parent.test) == "not is_ok" and \
            neg2[0]._parent._parent in [x for x in ast.walk(v2) if isinstance(x, ast.For)]
        sets = [n for n in iter_own_nodes(v2) if isinstance(n, ast.Assign) and src(n.targets[0]) == "is_ok"]
        ok3 = ok3 and any(const_value(s_.value, 1) is False for s_ in sets) and \
            any("assigned_t" in src(s_.value) and "n.t ==" in src(s_.value) for s_ in sets) and \
            any("removed_decls" in src(s_.value) and "not in" in src(s_.value) for s_ in sets)
        if not ok3 and len(dfs2) == 1 and src(dfs2[0].args[0]) == graph and len(neg2) == 1:
            # the same verification written with any(): `if not any(n.t == assigned_t and not (n.parent_id and n.parent_id
            # in removed_decls) for n in dfs(..) if isinstance(n, TypeNode)): return False`
            gs2 = flat_guards(neg2[0], stop=v2)
            anys = [t for t, p in gs2 if not p and isinstance(t, ast.Call) and call_name(t) == "any" and t.args and
                    isinstance(t.args[0], ast.GeneratorExp) and is_within(dfs2[0], t)]
            if len(anys) == 1:
                ge = anys[0].args[0]
                conj = [" ".join(src(a).split()) for a, p in flatten_guard(ge.elt, True) if p] + \
                       ["not " + " ".join(src(a).split()) for a, p in flatten_guard(ge.elt, True) if not p]
                filt = [" ".join(src(i).split()) for g_ in ge.generators for i in g_.ifs]
                v = src(ge.generators[0].target)
                ok3 = any(c_ in ("%s.t == assigned_t" % v, "assigned_t == %s.t" % v) for c_ in conj) and \
                    any("removed_decls" in c_ and c_.startswith("not ") for c_ in conj) and \
                    any("isinstance(%s, TypeNode)" % v == x for x in filt + conj)
        # the search starts at each type variable of the call (the dfs is per type variable, not per call node: from
        # the call node every sibling type variable's type is reachable as well)
        inner = [x for x in ast.walk(v2) if isinstance(x, ast.For) and x is not v2 and isinstance(x.target, ast.Name)
                 and graph in names_in(x.iter)]
        ok4 = False
        if len(dfs2) == 1 and len(dfs2[0].args) == 2 and inner:
            start = dfs2[0].args[1]
            root, _path = attr_chain(start)
            roots = {root}
            if root is not None and root != inner[0].target.id:
                try:
                    for _d, v, _k in cfg_of(fn).defs_reaching(root, start):
                        if isinstance(v, ast.AST):
                            roots |= names_in(v)
                except AnalysisError:
                    pass
            ok4 = is_within(dfs2[0], inner[0]) and inner[0].target.id in roots
        obs.append(Ob("C03-R7", "is_combination_feasible:type-argument-search-starts-at-each-type-variable", _w(f, v2), ok4,
                      "the reachability search of the type-argument verification must start at the type variable being "
                      "verified (inside the loop over the call node's type variables), not at the call node, from which "
                      "the types of all sibling type variables are reachable too"))
        obs.append(Ob("C03-R7", "is_combination_feasible:omitted-type-argument-still-reaches-its-assigned-type", _w(f, v2), ok3,
                      "for every omitted type argument the corresponding type variable must still reach a type node equal to "
                      "the assigned type that does not hang off a declaration whose type was removed too; otherwise False"))
    h = repo.fn(TDA + "._handle_declaration_node")
    apps = [c for c in calls_in(h.node) if call_name(c) == "append" and src(c.func.value) == "new_edges"]
    ok = len(apps) == 1 and ("e.is_declared()", False) in _g(apps[0])
    st = [n for n in iter_own_nodes(h.node) if isinstance(n, ast.Assign) and src(n.targets[0]) == "%s[%s]" % (h.params[0], h.params[1])]
    ok = ok and len(st) == 1 and src(st[0].value) == "new_edges"
    if not ok and len(st) == 1 and isinstance(st[0].value, ast.ListComp):
        # the same filter as a comprehension over the node's edges
        lc = st[0].value
        it = resolve_local(h.node, lc.generators[0].iter, st[0])
        ok = len(lc.generators) == 1 and src(lc.elt) == src(lc.generators[0].target) and \
            [" ".join(src(i).split()) for i in lc.generators[0].ifs] == ["not %s.is_declared()" % src(lc.elt)] and \
            src(it) == "%s[%s]" % (h.params[0], h.params[1])
    obs.append(Ob("C03-R7", "_handle_declaration_node:keeps-exactly-the-inferred-edges", _w(h), ok,
                  "omitting a declared type removes the declared edges of that node and keeps the inferred ones"))
    h = repo.fn(TDA + "._handle_type_inst_call_node")
    comp = [n for n in iter_own_nodes(h.node) if isinstance(n, ast.ListComp)]
    ok = len(comp) == 1 and [src(i) for i in comp[0].generators[0].ifs] == ["not e.is_declared()"]
    obs.append(Ob("C03-R7", "_handle_type_inst_call_node:drops-declared-edges-of-the-type-variables", _w(h), ok,
                  "omitting explicit type arguments removes the declared edges of the call's type variables"))
    return obs


def r8_expected_type_context(repo):
    """TypeDependencyAnalysis._exp_type: save / set / restore discipline around sub-expression visits."""
    obs = []
    cls = repo.cls(TDA + ".TypeDependencyAnalysis")
    n_pairs = 0
    for name, m in sorted(cls.methods.items()):
        fn = m.node
        saves = [n for n in iter_own_nodes(fn) if isinstance(n, ast.Assign) and src(n.value) == "self._exp_type" and
                 isinstance(n.targets[0], ast.Name)]
        stores = [n for n in iter_own_nodes(fn) if isinstance(n, ast.Assign) and src(n.targets[0]) == "self._exp_type"]
        if name == "__init__" or (not saves and not stores):
            continue
        g = cfg_of(fn)
        for sv in saves:
            nm = sv.targets[0].id
            restores = [s_ for s_ in stores if src(s_.value) == nm]
            sets = [s_ for s_ in stores if s_ not in restores and not any(src(s_.value) == x.targets[0].id for x in saves)]
            n_pairs += 1
            problems = []
            if not restores:
                problems.append("saved into `%s` but never restored" % nm)
            for r in restores:
                # a visit between the save and the restore must see an explicitly chosen expected type
                between_sets = [s_ for s_ in sets if g.dominates(g.node(sv), g.node(s_)) and
                                g.path_exists_avoiding(g.node(s_), g.node(r), [])]
                visits = [c for c in calls_in(fn) if call_name(c) in ("accept", "visit", "_visit_node") or
                          (call_name(c) or "").startswith("visit_") or (call_name(c) or "").startswith("_visit")]
                enclosed = [c for c in visits if g.dominates(g.node(sv), g.node(c)) and
                            g.path_exists_avoiding(g.node(c), g.node(r), []) and c.lineno > sv.lineno and c.lineno < r.lineno]
                if enclosed and not between_sets:
                    problems.append("the pair `%s = self._exp_type` (line %d) ... `self._exp_type = %s` (line %d) encloses the "
                                    "visit `%s` but no `self._exp_type = ...` in between: the sub-expression inherits the expected "
                                    "type of the enclosing expression" % (nm, sv.lineno, nm, r.lineno, src(enclosed[0])[:40]))
                if not g.postdominates(g.node(r), g.node(sv)) and len(restores) == 1:
                    problems.append("restore at line %d is not reached on every path from the save" % r.lineno)
            obs.append(Ob("C03-R8", "%s:%s@%d" % (name, nm, sv.lineno - fn.lineno), _w(m, sv), not problems, "; ".join(problems)))
        # every plain set is protected by a save that dominates it
        for st in stores:
            if any(src(st.value) == x.targets[0].id for x in saves):
                continue
            ok = any(g.dominates(g.node(sv), g.node(st)) for sv in saves)
            obs.append(Ob("C03-R8", "%s:set@%d:protected-by-a-save" % (name, st.lineno - fn.lineno), _w(m, st), ok,
                          "`%s` changes the expected-type context without saving the previous value first" % src(st)[:60]))
    # the scope in which declarations are looked up (`_namespace`) obeys the same discipline where it is set by hand (the
    # decorator change_namespace does it for the declaration visitors): every store other than the restore is followed, on
    # every path to the exit, by `self._namespace = <saved>` - otherwise the rest of the function body is analysed in the
    # scope of a branch and resolves names to the wrong declarations
    for name, m in sorted(cls.methods.items()):
        fn = m.node
        saves = [n for n in iter_own_nodes(fn) if isinstance(n, ast.Assign) and src(n.value) == "self._namespace" and
                 isinstance(n.targets[0], ast.Name)]
        stores = [n for n in iter_own_nodes(fn) if isinstance(n, ast.Assign) and src(n.targets[0]) == "self._namespace"]
        if name in ("__init__",) or not stores or (not saves and name == "visit_program"):
            continue
        g = cfg_of(fn)
        saved = {x.targets[0].id for x in saves}
        restores = [s_ for s_ in stores if src(s_.value) in saved]
        for st in stores:
            if st in restores:
                continue
            ok = any(g.postdominates(g.node(r), g.node(st)) for r in restores)
            obs.append(Ob("C03-R8", "%s:_namespace@%d:restored-on-every-path" % (name, st.lineno - fn.lineno), _w(m, st), ok,
                          "`%s` changes the lookup scope of the analysis and no `self._namespace = <saved>` post-dominates it"
                          % src(st)[:70]))
    # sub-expressions in a non-result position (a receiver, a condition, the operands of a logical / equality /
    # comparison expression, the object of a field access) have nothing to do with the type expected of the whole
    # expression: they are visited with the expected type cleared
    n_sites = 0
    for name, m in sorted(cls.methods.items()):
        fn = m.node
        g = cfg_of(fn)
        stores = [n for n in iter_own_nodes(fn) if isinstance(n, ast.Assign) and src(n.targets[0]) == "self._exp_type"]
        for c in calls_in(fn):
            cn = call_name(c) or ""
            arg = src(c.args[0]) if c.args else ""
            non_result = (cn == "visit" and arg.split(".")[-1] in ("receiver", "cond") and arg.startswith(m.params[1] + ".")) or \
                (src(c.func).startswith("super().visit_") and cn in ("visit_logical_expr", "visit_equality_expr",
                                                                      "visit_comparison_expr", "visit_field_access"))
            if not non_result:
                continue
            n_sites += 1
            before = [s_ for s_ in stores if g.dominates(g.node(s_), g.node(c))]
            last = max(before, key=lambda s_: s_.lineno) if before else None
            later = [s_ for s_ in stores if last is not None and s_ is not last and s_.lineno > last.lineno and
                     s_.lineno < c.lineno and g.path_exists_avoiding(g.node(s_), g.node(c), [])]
            ok = last is not None and const_value(last.value, 1) is None and not later
            obs.append(Ob("C03-R8", "%s:non-result-child:%s" % (name, " ".join(src(c).split())[:40]), _w(m, c), ok,
                          "`%s` visits a sub-expression in a non-result position; it must run under `self._exp_type = None` "
                          "(nearest dominating store: %s)" % (src(c)[:40], src(last) if last is not None else "none")))
    obs.append(Ob("C03-R8", "non-result-child-visits>=6", "src/analysis/type_dependency_analysis.py", n_sites >= 6,
                  "%d visits of receivers / conditions / operands found" % n_sites))
    if n_pairs < 6:
        raise AnalysisError("only %d save/restore pairs of _exp_type found" % n_pairs, rule="C03-R8", anchor=cls.qualname)
    return obs


def r9_inferred_types_are_own(repo, rule="C03-R9"):
    """A plain inferred type node (`_inferred_nodes[..].append(TypeNode(T, None))`) says "this expression has type T by
    itself".  T must come from the visited node (or a looked-up declaration / the builtin factory), never from the
    analysis' own state: the expected type of the context is what the surroundings demand, and an inferred edge made
    from it makes every declared type around the expression look inferable."""
    obs = []
    cls = repo.cls(TDA + ".TypeDependencyAnalysis")
    for name, m in sorted(cls.methods.items()):
        for c in calls_in(m.node):
            if not (call_name(c) == "append" and isinstance(c.func, ast.Attribute) and
                    "_inferred_nodes" in src(c.func.value) and c.args and isinstance(c.args[0], ast.Call) and
                    call_name(c.args[0]) == "TypeNode" and c.args[0].args):
                continue
            t = c.args[0].args[0]
            leaves = Prov(m.node).sources(t)
            bad = [src(l) for l in leaves if isinstance(l, ast.Attribute) and attr_chain(l)[0] == "self"]
            bad += [str(l) for l in leaves if isinstance(l, tuple) and l[0] in ("free", "unknown", "opaque")]
            obs.append(Ob(rule, "%s:inferred-type-node:%s" % (name, " ".join(src(t).split())[:50]), _w(m, c), not bad,
                          "the type of an inferred type node must derive from the visited node, a declaration or the "
                          "builtin factory; it reads analysis state: %s (all sources: %s)"
                          % (bad, [src(l) if isinstance(l, ast.AST) else l for l in leaves][:5])))
    # an inferred edge from a type variable to the *bound* of its parameter is evidence only when the bound mentions
    # other type variables (class A<T1, T2 : T1>): a ground bound gives the compiler nothing to infer the argument from
    m = cls.methods.get("_handle_type_constructor_instantiation")
    if m is not None:
        sites = []
        for fn_ in [m] + [x for x in cls.methods.values() if x is not m and x.qualname not in (m.qualname,)]:
            for c in calls_in(fn_.node):
                if call_name(c) == "construct_edge" and len(c.args) >= 4 and src(c.args[3]).endswith("INFERRED") and \
                        isinstance(c.args[2], ast.Call) and call_name(c.args[2]) == "TypeNode" and c.args[2].args and \
                        src(c.args[2].args[0]).endswith("bound") and fn_ is m:
                    sites.append((fn_, c))
        for fn_, c in sites:
            b = " ".join(src(c.args[2].args[0]).split())
            gs = [(" ".join(src(t).split()), p) for t, p in flat_guards(c)]
            okg = (b + ".has_type_variables()", True) in gs
            obs.append(Ob(rule, "%s:bound-edge-only-for-bounds-with-type-variables" % fn_.name, _w(fn_, c), okg,
                          "`%s` must be guarded by `%s.has_type_variables()`; guards %s" % (src(c)[:70], b, gs)))
    return obs


def r10_equality(repo):
    """an annotation is removable when the inferred type equals the declared one: a coarser equality removes annotations that are not inferable"""
    return kernel.equality_is_structural(repo, "C03-R10")


def r11_poly(repo):
    """'replaced by what a compiler infers from the remaining program': a lambda or a method reference is typed *from* its
    target, it is not something a type argument can be inferred from"""
    from .c02 import poly_expressions_rule
    return poly_expressions_rule(repo, "C03-R11")


def r12_member_type_hint(repo):
    """The type of `receiver.member` that the analysis (and the Java/Groovy printers) work with is the member's declared
    type substituted with (1) the type arguments of the class of the hierarchy that *declares* the member
    (`rec_t.get_type_variable_assignments()`, rec_t = the supertype get_decl_from_inheritance found it in) and (2) the
    call's explicit type arguments for the member's own type parameters.  The receiver's own assignments are for the
    receiver's type parameters - merged in, a same-named parameter of the subclass overrides the superclass's argument
    (`class B<T> : A<Int>`), and the erasure infers a declared type from the wrong member type."""
    f = repo.fn("src.ir.type_utils.get_type_hint").nested.get("_comp_type")
    if f is None:
        raise AnalysisError("get_type_hint._comp_type not found", rule="C03-R12", anchor="src.ir.type_utils.get_type_hint")
    obs = []
    subs = [k for k in calls_in(f.node) if call_name(k) == "substitute_type"]
    ok = len(subs) == 1 and len(subs[0].args) == 2 and isinstance(subs[0].args[1], ast.Name)
    if not ok:
        obs.append(Ob("C03-R12", "_comp_type:one-substitution-with-a-local-map", _w(f), False,
                      "expected one substitute_type(<member type>, <map>): %s" % [src(k) for k in subs]))
        return obs
    mp = subs[0].args[1].id
    g = cfg_of(f.node)
    pairs = [p for p in _unpack_pairs(f.node)]
    rec = next((b for a, b in pairs if b is not None), None)
    defs = [v for _d, v, _k in g.defs_reaching(mp, subs[0])]
    bad_defs = [src(v) for v in defs if v is None or not (
        (isinstance(v, ast.Dict) and not v.keys) or
        (isinstance(v, ast.Call) and call_name(v) == "get_type_variable_assignments" and rec is not None and
         src(v.func.value) == rec))]
    obs.append(Ob("C03-R12", "_comp_type:map-starts-from-the-declaring-class", _w(f, subs[0]), bool(defs) and not bad_defs,
                  "the substitution map must start as `%s.get_type_variable_assignments()` (the supertype that declares the "
                  "member) or `{}`; other definitions: %s" % (rec, bad_defs)))
    writes = []
    for k in calls_in(f.node):
        if isinstance(k.func, ast.Attribute) and isinstance(k.func.value, ast.Name) and k.func.value.id == mp and \
                k.func.attr in ("update", "setdefault", "__setitem__", "pop", "clear"):
            writes.append(k)
    subs_w = [n for n in iter_own_nodes(f.node) if isinstance(n, (ast.Assign, ast.AugAssign)) and
              any(isinstance(t, ast.Subscript) and isinstance(t.value, ast.Name) and t.value.id == mp
                  for t in (n.targets if isinstance(n, ast.Assign) else [n.target]))]
    bad = [src(w)[:70] for w in subs_w]
    for k in writes:
        a = k.args[0] if k.args else None
        own = k.func.attr == "update" and isinstance(a, ast.DictComp) and len(a.generators) == 1 and \
            src(a.generators[0].iter).endswith("decl.type_parameters)") and "type_args" in src(a.value)
        if not own:
            bad.append(" ".join(src(k).split())[:70])
    obs.append(Ob("C03-R12", "_comp_type:only-the-member's-own-type-arguments-are-merged-in", _w(f), not bad,
                  "besides the declaring class's assignments only `{t_param: type_args[i] for .. in enumerate("
                  "decl.type_parameters)}` may enter the map; other writes: %s" % bad))
    return obs


def _unpack_pairs(fn_node):
    """(first, second) target names of `a, b = x` statements"""
    for n in iter_own_nodes(fn_node):
        if isinstance(n, ast.Assign) and isinstance(n.targets[0], ast.Tuple) and len(n.targets[0].elts) == 2 and \
                all(isinstance(e, ast.Name) for e in n.targets[0].elts):
            yield n.targets[0].elts[0].id, n.targets[0].elts[1].id


def rules():
    return [
        RuleSpec("C03-R1", "write set of the erasure mutation's call-graph closure", 8, r1_write_set),
        RuleSpec("C03-R2", "bodies of the two mutators", 5, r2_mutator_bodies),
        RuleSpec("C03-R3", "writes guarded by feasibility of the applied combination on a fresh graph copy", 9, r3_guard),
        RuleSpec("C03-R4", "bookkeeping field is not read by translators / equality", 1, r4_bookkeeping_unread),
        RuleSpec("C03-R5", "visitors return their node (identity rewrite)", 5, r5_identity_visitors),
        RuleSpec("C03-R6", "what is omittable", 7, r6_omittable),
        RuleSpec("C03-R7", "shape of the feasibility test (verification passes)", 4, r7_feasibility_shape),
        RuleSpec("C03-R9", "inferred type nodes carry the expression's own type", 12, r9_inferred_types_are_own),
        RuleSpec("C03-R8", "expected-type context of the analysis: save / set / restore around sub-visits", 12, r8_expected_type_context),
        RuleSpec("C03-R10", "equality of types is structural (declared and inferred types are compared by ==)", 6, r10_equality),
        RuleSpec("C03-R11", "poly expressions (lambda, method reference) are no inference sources", 2, r11_poly),
        RuleSpec("C03-R12", "type hint of a member: substituted with the declaring class's arguments and the call's own", 2, r12_member_type_hint),
    ]


# -- variants -------------------------------------------------------------------------

def _vf(tree):
    return V.find_def(tree, "TypeErasure.visit_func_decl")


def _v_extra_write(tree):
    f = _vf(tree)
    c = V.one([n for n in ast.walk(f) if isinstance(n, ast.Expr) and V.is_call_named(n.value, "omit_type")])
    V.insert_after(tree, c, V.parse_stmts("g_node.decl.inferred_type = None"))


def _v_omit_clears_inferred(tree):
    f = V.find_def(tree, "VariableDeclaration.omit_type")
    f.body.extend(V.parse_stmts("self.inferred_type = None"))


def _v_no_feasibility(tree):
    f = _vf(tree)
    iff = V.one([n for n in ast.walk(f) if isinstance(n, ast.If) and V.is_call_named(n.test, "is_combination_feasible")])
    iff.test = V.parse_expr("len(combination) > 0")


def _v_shared_graph(tree):
    f = _vf(tree)
    iff = V.one([n for n in ast.walk(f) if isinstance(n, ast.If) and V.is_call_named(n.test, "is_combination_feasible")])
    iff.test.args[0] = ast.Name(id="type_graph", ctx=ast.Load())


def _v_other_combination(tree):
    f = _vf(tree)
    iff = V.one([n for n in ast.walk(f) if isinstance(n, ast.If) and V.is_call_named(n.test, "is_combination_feasible")])
    iff.test.args[1] = V.parse_expr("combination[:1]")


def _v_no_break(tree):
    f = _vf(tree)
    iff = V.one([n for n in ast.walk(f) if isinstance(n, ast.If) and V.is_call_named(n.test, "is_combination_feasible")])
    iff.body = [s for s in iff.body if not isinstance(s, ast.Break)]


def _v_inplace_edges(tree):
    f = V.find_def(tree, "_handle_type_inst_call_node")
    lp = V.one([n for n in f.body if isinstance(n, ast.For)])
    lp.body = V.parse_stmts("edges = type_graph[type_var.target]\nfor e in list(edges):\n    if e.is_declared():\n        edges.remove(e)")


def _v_visitor_returns_none(tree):
    f = V.find_def(tree, "TypeErasure.visit_var_decl")
    f.body[-1] = ast.Return(value=None)


def _v_tda_writes_node(tree):
    f = V.find_def(tree, "TypeDependencyAnalysis.visit_var_decl")
    f.body.insert(0, V.parse_stmts("node.is_final = True")[0])


def _v_params_omittable(tree):
    f = V.find_def(tree, "DeclarationNode.is_omittable")
    f.body[0].value = ast.Constant(value=True)


def _v_translator_reads_bookkeeping(tree):
    f = V.find_def(tree, "KotlinTranslator.visit_func_call")
    f.body.insert(0, V.parse_stmts("_tps = node.type_parameters")[0])


def _v_feasible_skips_typeargs(tree):
    f = V.find_def(tree, "is_combination_feasible")
    loops = [n for n in f.body if isinstance(n, ast.For)]
    if len(loops) != 3:
        raise V.SkipVariant("loops")
    iff = V.one([n for n in ast.walk(loops[2]) if isinstance(n, ast.If) and ast.unparse(n.test) == "not is_ok"])
    iff.test = V.parse_expr("not is_ok and n.parent_id")


def _v_feasible_subtype_ok(tree):
    f = V.find_def(tree, "is_combination_feasible")
    iff = V.one([n for n in ast.walk(f) if isinstance(n, ast.If) and "n.t != node.decl.get_type()" in ast.unparse(n.test)])
    iff.test = V.parse_expr("not n.t.is_subtype(node.decl.get_type())")


def _v_keep_declared(tree):
    f = V.find_def(tree, "_handle_declaration_node")
    iff = V.one([n for n in ast.walk(f) if isinstance(n, ast.If) and ast.unparse(n.test) == "not e.is_declared()"])
    iff.test = V.parse_expr("True")


def _v_receiver_inherits_expected(tree):
    f = V.find_def(tree, "TypeDependencyAnalysis.visit_func_call")
    sts = [n for n in ast.walk(f) if isinstance(n, ast.Assign) and ast.unparse(n) == "self._exp_type = None"]
    if not sts:
        raise V.SkipVariant("no set")
    V.remove_stmt(tree, sts[0])


def _v_merge_order(tree):
    f = _vf(tree)
    st = V.one([n for n in f.body if isinstance(n, ast.Assign) and ast.unparse(n.value) == "t_an.result()"])
    up = V.one([n for n in f.body if isinstance(n, ast.Expr) and V.is_call_named(n.value, "update")])
    st.value = V.parse_expr("{**self.global_type_graph, **t_an.result()}")
    V.remove_stmt(tree, up)


def _t_rename(tree):
    f = _vf(tree)
    V.rename_local(f, "c_type_graph", "graph_copy")
    V.rename_local(f, "g_node", "picked")


def variants():
    te = "src/transformations/type_erasure.py"
    return [
        V.Variant("erasure also clears inferred_type of the declaration", te, _v_extra_write, {"C03-R1"}),
        V.Variant("omit_type clears inferred_type too", "src/ir/ast.py", _v_omit_clears_inferred, {"C03-R2"}),
        V.Variant("the analysis writes into a visited node", "src/analysis/type_dependency_analysis.py", _v_tda_writes_node, {"C03-R1"}),
        V.Variant("combination applied without the feasibility test", te, _v_no_feasibility, {"C03-R3"}),
        V.Variant("feasibility tested on the shared graph", te, _v_shared_graph, {"C03-R3"}),
        V.Variant("feasibility tested for a different combination", te, _v_other_combination, {"C03-R3"}),
        V.Variant("search does not stop after the first accepted combination", te, _v_no_break, {"C03-R3"}),
        V.Variant("helper mutates an edge list in place", "src/analysis/type_dependency_analysis.py", _v_inplace_edges, {"C03-R3"}),
        V.Variant("visitor returns None", te, _v_visitor_returns_none, {"C03-R5"}),
        V.Variant("every declaration omittable (parameters, fields)", "src/analysis/type_dependency_analysis.py", _v_params_omittable, {"C03-R6"}),
        V.Variant("translator reads the bookkeeping field", "src/translators/kotlin.py", _v_translator_reads_bookkeeping, {"C03-R4"}),
        V.Variant("feasibility: unreachable type argument tolerated for top-level nodes", "src/analysis/type_dependency_analysis.py", _v_feasible_skips_typeargs, {"C03-R7"}),
        V.Variant("feasibility: a reachable subtype counts as the same type", "src/analysis/type_dependency_analysis.py", _v_feasible_subtype_ok, {"C03-R7"}),
        V.Variant("omitting a declaration keeps its declared edges", "src/analysis/type_dependency_analysis.py", _v_keep_declared, {"C03-R7"}),
        V.Variant("receiver of a call inherits the expected type", "src/analysis/type_dependency_analysis.py", _v_receiver_inherits_expected, {"C03-R8"}),
        V.Variant("function graph entries override the global graph", te, _v_merge_order, {"C03-R3"}),
        V.Variant("twin: rename locals in visit_func_decl", te, _t_rename, None, twin=True),
        V.Variant("twin: whole tree reformatted by ast.unparse", None, None, None, twin=True),
    ]
