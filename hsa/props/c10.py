"""C10 - type unification returns a unifier or nothing (discipline part)."""
import ast

from ..repo import AnalysisError
from ..report import Ob, RuleSpec
from ..astutil import (src, flat_guards, guards, calls_in, call_name, kwarg, const_value,
                       iter_own_nodes, ancestors, is_within, always_leaves, flatten_guard)
from ..cfg import cfg_of, Prov, resolve_local
from .. import variants as V
from .. import kernel

PROPERTY = "C10"
TITLE = "Type unification returns a unifier or nothing"
DECIDES = ("Decided: the binding discipline of unify_types - every binding goes through _update_type_var_map, whose "
           "conflict answer is tested and leads to the empty result; the writer itself stores only when there is no "
           "different earlier binding; every binding of a bounded variable is dominated by a subtype test against its "
           "bound; the structural mismatches (different classes, different constructors, wildcard against non-wildcard, "
           "unequal ground arguments) return the empty map; projections are unwrapped only after their variances were "
           "compared and both bounds exist.")
NOT_DECIDED = "the algebraic law itself (substituting the result into the pattern yields the target) on all type pairs."

TU = "src.ir.type_utils"


def _w(f, node=None):
    return "%s:%d" % (f.module.relpath, (node or f.node).lineno)


def _g(node, stop=None):
    return [(src(t), p) for t, p in flat_guards(node, stop)]


def _is_empty_ret(n):
    return isinstance(n, ast.Return) and isinstance(n.value, ast.Dict) and not n.value.keys


def _uf(repo):
    f = repo.fn(TU + ".unify_types")
    if f.params[:2] != ["t1", "t2"]:
        raise AnalysisError("unify_types signature changed", anchor=f.qualname)
    # the loop over the argument pairs: the outermost for-loop of the function (wherever it is nested in ifs)
    loops = [n for n in iter_own_nodes(f.node) if isinstance(n, ast.For) and
             not any(isinstance(a, (ast.For, ast.While)) for a in ancestors(n))]
    if len(loops) != 1:
        raise AnalysisError("unify_types: expected one argument loop", anchor=f.qualname)
    return f, loops[0]


def r1_single_writer(repo):
    f, lp = _uf(repo)
    obs = []
    # result map
    rets = [n for n in iter_own_nodes(f.node) if isinstance(n, ast.Return) and isinstance(n.value, ast.Name)]
    if len(rets) != 1:
        raise AnalysisError("unify_types: expected one `return <map>`", rule="C10-R1", anchor=f.qualname)
    mp = rets[0].value.id
    direct = [n for n in iter_own_nodes(f.node) if isinstance(n, (ast.Assign, ast.AugAssign)) and
              any(isinstance(t, ast.Subscript) and src(t.value) == mp
                  for t in (n.targets if isinstance(n, ast.Assign) else [n.target]))]
    direct += [c for c in calls_in(f.node) if call_name(c) in ("update", "setdefault") and src(c.func.value) == mp]
    obs.append(Ob("C10-R1", "no-direct-store-into-the-result-map", _w(f), not direct,
                  "bindings must go through _update_type_var_map (which rejects a second, different binding); direct "
                  "stores: %s" % [(src(d)[:60], d.lineno) for d in direct]))
    ups = [c for c in calls_in(f.node) if call_name(c) == "_update_type_var_map"]
    for i, c in enumerate(ups):
        ok = src(c.args[0]) == mp
        # the call must be the operand of a `not` inside the test of an `if` whose body returns {}
        p = c._parent
        tested = isinstance(p, ast.UnaryOp) and isinstance(p.op, ast.Not)
        iff = None
        for a in ancestors(c):
            if isinstance(a, ast.If) and is_within(c, a.test):
                iff = a
                break
        leaves = iff is not None and len(iff.body) >= 1 and _is_empty_ret(iff.body[-1]) and \
            all(isinstance(x, ast.Return) for x in iff.body[-1:])
        # the conflict must make the test true: the `not update(...)` is a disjunct / any(...) element of the test
        pos = False
        if tested and iff is not None:
            t = iff.test
            alts = t.values if isinstance(t, ast.BoolOp) and isinstance(t.op, ast.Or) else [t]
            for alt in alts:
                if alt is p:
                    pos = True
                if isinstance(alt, ast.Call) and call_name(alt) == "any" and is_within(p, alt) and \
                        isinstance(alt.args[0], ast.GeneratorExp) and alt.args[0].elt is p:
                    pos = True
        obs.append(Ob("C10-R1", "update-call#%d:result-tested-conflict-gives-empty" % i, _w(f, c),
                      ok and tested and leaves and pos,
                      "`%s`: result must be tested (`not ...` as a disjunct / any() element of an if-test) and a conflict "
                      "must `return {}`" % src(c)[:80]))
    obs.append(Ob("C10-R1", "all-binding-sites-go-through-the-writer", _w(f), len(ups) >= 4,
                  "unify_types must bind through _update_type_var_map at its four binding sites (direct bound, unbounded "
                  "variable, nested result merged entry by entry, bound-unification result merged entry by entry); found %d calls"
                  % len(ups)))
    # recursive results are merged entry by entry and an empty recursive result gives {}
    recs = [n for n in iter_own_nodes(f.node) if isinstance(n, ast.Assign) and isinstance(n.value, ast.Call) and
            call_name(n.value) == "unify_types" and is_within(n, lp)]
    for i, r in enumerate(recs):
        nm = src(r.targets[0])
        # an empty answer is given exactly under `not <result> or any(<conflict>)`, whatever the layout of the test
        ok = False
        for e in [n for n in iter_own_nodes(lp) if _is_empty_ret(n) and n.lineno >= r.lineno]:
            for t_, p_ in flat_guards(e, stop=lp):
                txt = " ".join(src(t_).split())
                if p_ and txt.startswith("not %s or any(" % nm) and "%s.items()" % nm in txt and \
                        cfg_of(f.node).dominates(cfg_of(f.node).node(r), cfg_of(f.node).node(e)):
                    ok = True
        obs.append(Ob("C10-R1", "recursive-result#%d:empty-or-conflict-gives-empty" % i, _w(f, r), ok,
                      "a nested unification that fails (empty) or conflicts with earlier bindings must give {}"))
    return obs


def r1b_writer(repo):
    f = repo.fn(TU + "._update_type_var_map")
    m, k, v = f.params[:3]
    stores = [n for n in iter_own_nodes(f.node) if isinstance(n, ast.Assign) and src(n.targets[0]) == "%s[%s]" % (m, k)]
    obs = []
    ok, msg = len(stores) == 1, "expected one store %s[%s] = %s" % (m, k, v)
    if ok:
        st = stores[0]
        prov = Prov(f.node)
        gs = []
        for t, p in guards(st):
            gs.append((t, p))
        # guard: not (old and old != value)
        good = False
        for t, p in gs:
            if not p and isinstance(t, ast.BoolOp) and isinstance(t.op, ast.And) and len(t.values) == 2:
                a, b = t.values
                if isinstance(b, ast.Compare) and isinstance(b.ops[0], ast.NotEq) and isinstance(a, ast.Name):
                    d = cfg_of(f.node).defs_reaching(a.id, st)
                    olds = [src(x[1]) for x in d if isinstance(x[1], ast.AST)]
                    if olds == ["%s.get(%s)" % (m, k)] and {src(b.left), src(b.comparators[0])} == {a.id, v}:
                        good = True
        ok = good and src(st.value) == v
        msg = "the store must happen only when there is no earlier binding or it equals the new value; guards %s" % _g(st)
    obs.append(Ob("C10-R1b", "_update_type_var_map:stores-only-without-conflict", _w(f), ok, msg))
    rets = [n for n in iter_own_nodes(f.node) if isinstance(n, ast.Return)]
    neg = [r for r in rets if const_value(r.value, 1) is False]
    pos = [r for r in rets if const_value(r.value, 0) is True]
    ok = len(rets) == 2 and len(neg) == 1 and len(pos) == 1 and bool(stores) and \
        cfg_of(f.node).dominates(cfg_of(f.node).node(stores[0]), cfg_of(f.node).node(pos[0])) and \
        not cfg_of(f.node).path_exists_avoiding(cfg_of(f.node).node(stores[0]), cfg_of(f.node).node(neg[0]), [])
    obs.append(Ob("C10-R1b", "_update_type_var_map:False-on-conflict-True-after-store", _w(f), ok,
                  "conflict answers False without storing, success answers True after the store"))
    return obs


def r2_bound_before_bind(repo):
    f, lp = _uf(repo)
    t1, t2 = f.params[:2]
    obs = []
    # (a) bindings in the loop of a variable of the pattern
    ups = [c for c in calls_in(lp) if call_name(c) == "_update_type_var_map" and len(c.args) == 3 and
           isinstance(c.args[1], ast.Name)]
    direct = [c for c in ups if not any(isinstance(a, ast.GeneratorExp) for a in ancestors(c))]
    for i, c in enumerate(direct):
        var, val = src(c.args[1]), src(c.args[2])
        gs = _g(c, stop=lp)
        unb = ("%s.bound is None" % var, True) in gs
        sub = ("%s.is_subtype(%s.bound)" % (val, var), True) in gs and \
            (("%s.bound is None" % var, False) in gs or ("%s.bound" % var, True) in gs)
        obs.append(Ob("C10-R2", "loop-binding#%d:%s<-%s" % (i, var, val), _w(f, c), unb or sub,
                      "binding %s := %s must be dominated by `%s.bound is None` or `%s.is_subtype(%s.bound)`; guards %s"
                      % (var, val, var, val, var, gs)))
    # (b) top-level `return {t2: t1}`
    rets = [n for n in f.node.body if isinstance(n, ast.If)]
    lits = [n for n in iter_own_nodes(f.node) if isinstance(n, ast.Return) and isinstance(n.value, ast.Dict)
            and n.value.keys and not is_within(n, lp)]
    for i, r in enumerate(lits):
        ok = [src(k) for k in r.value.keys] == [t2] and [src(v) for v in r.value.values] == [t1]
        gs = _g(r)
        names = {}
        for n in iter_own_nodes(f.node):
            if isinstance(n, ast.Assign) and isinstance(n.value, ast.Call) and call_name(n.value) == "get_bound_rec":
                names[src(n.targets[0])] = src(n.value.func.value)
        b2 = [k for k, v in names.items() if v == t2]
        b1 = [k for k, v in names.items() if v == t1]
        cond = False
        for s, pol in gs:
            # `not b1 and not b2` / `not b2 or (b1 and b1.is_subtype(b2))` / leaving-if `b and not t1.is_subtype(b)`
            for x in b2:
                if pol and s.replace(" ", "") in ("not%sor(%sand%s.is_subtype(%s))".replace(" ", "") % (x, y, y, x) for y in b1):
                    cond = True
                if (s, pol) == (x, False):
                    cond = True
                if not pol and s == "%s and (not %s.is_subtype(%s))" % (x, t1, x):
                    cond = True
                if not pol and s == "%s and not %s.is_subtype(%s)" % (x, t1, x):
                    cond = True
        obs.append(Ob("C10-R2", "variable-pattern-binding#%d" % i, _w(f, r), ok and cond,
                      "`return {%s: %s}` must be dominated by a test that %s is unbounded or that %s (or its bound) is a "
                      "subtype of the bound; guards %s" % (t2, t1, t2, t1, gs)))
    return obs


def r3_mismatch(repo):
    f, lp = _uf(repo)
    t1, t2 = f.params[:2]
    obs = []
    empties = [n for n in iter_own_nodes(f.node) if _is_empty_ret(n)]

    def has(cond_texts, where=None):
        for e in empties:
            gs = _g(e)
            if all(any(s == c and pol == p for s, pol in gs) for c, p in cond_texts):
                return e
        return None
    cases = [
        ("different-classes", [("same_type", True), ("type(%s) == type(%s)" % (t1, t2), False)]),
        ("target-not-parameterized", [("isinstance(%s, tp.ParameterizedType)" % t1, False)]),
        ("different-constructors", [("%s.t_constructor == %s.t_constructor" % (t1, t2), False)]),
        ("wildcard-vs-non-wildcard", [("t_arg2.is_wildcard()", True), ("t_arg1.is_wildcard()", False)]),
        ("unequal-ground-arguments", [("t_arg1 == t_arg2", False)]),
    ]
    for name, conds in cases:
        e = has(conds)
        ok = e is not None
        if ok and name in ("target-not-parameterized", "different-constructors"):
            ok = cfg_of(f.node).dominates(cfg_of(f.node).node(e._parent), cfg_of(f.node).node(lp))
        if name == "unequal-ground-arguments":
            cands = []
            for e2 in empties:
                gs = _g(e2, stop=lp)
                if ("t_arg1 == t_arg2", False) in gs and any(
                        ("has_type_variables" in s_ or s_ == "is_type_var") and not pol for s_, pol in gs):
                    cands.append(e2)
            e = cands[0] if cands else None
            # ... and the inequality alone decides: the innermost test around the empty answer is exactly that comparison
            ok = len(cands) == 1 and isinstance(e._parent, ast.If) and \
                [(src(t_), p_) for t_, p_ in flatten_guard(e._parent.test, e in e._parent.body)] == [("t_arg1 == t_arg2", False)]
        obs.append(Ob("C10-R3", "mismatch:" + name, _w(f, e), ok,
                      "a structural mismatch (%s) must `return {}`" % name))
    # skipping a pair of arguments (`continue`) asserts that nothing needs to be unified or compared for it: allowed only
    # when the two arguments were found equal
    conts = [n for n in iter_own_nodes(lp) if isinstance(n, ast.Continue) and
             [a for a in ancestors(n) if isinstance(a, (ast.For, ast.While))][:1] == [lp]]
    for i, cn in enumerate(conts):
        gs = _g(cn, stop=lp)
        bound_now = any(pol and s_.startswith("_update_type_var_map(") for s_, pol in gs)   # the pair was just bound
        equal = ("t_arg1 == t_arg2", True) in gs or ("t_arg2 == t_arg1", True) in gs
        # equal arguments may only be skipped when the pattern argument has no type variables: `Bar<T>` facing `Bar<T>`
        # still binds T (to T), and that binding can clash with another occurrence of T
        has_vars = [pol for s_, pol in [(" ".join(src(resolve_local(f.node, t_, at=cn)).split()), p_)
                                        for t_, p_ in flat_guards(cn, stop=lp)]
                    if s_ in ("t_arg2.has_type_variables()", "is_type_var")]
        okc = bound_now or (equal and True not in has_vars)
        obs.append(Ob("C10-R3", "continue#%d:only-for-equal-arguments" % i, _w(f, cn), okc,
                      "an argument pair may be skipped only after `t_arg1 != t_arg2` was excluded or the pattern variable "
                      "was bound through the writer; guards %s" % gs))
    # the ground comparison happens for every argument without type variables
    # every path through one loop iteration reaches an update call, an empty return, or a ground-equality test
    return obs


def r4_projections(repo):
    f, lp = _uf(repo)
    obs = []
    unwraps = [n for n in iter_own_nodes(lp) if isinstance(n, ast.Assign) and isinstance(n.value, ast.Attribute)
               and n.value.attr == "bound" and src(n.targets[0]) == src(n.value.value)]
    ok, msg = len(unwraps) == 2, "expected the two unwrapping assignments `t_arg = t_arg.bound`, found %d" % len(unwraps)
    if ok:
        names = sorted(src(u.targets[0]) for u in unwraps)
        a, b = names
        good = True
        why = []
        for u in unwraps:
            gs = _g(u, stop=lp)
            var_cmp = any(not pol and s in ("%s.variance != %s.variance" % (a, b), "%s.variance != %s.variance" % (b, a))
                          for s, pol in gs) or \
                any(pol and s in ("%s.variance == %s.variance" % (a, b), "%s.variance == %s.variance" % (b, a))
                    for s, pol in gs)
            bounds = all(any((not pol and ("%s.bound is None" % x) in s) or (pol and s == "%s.bound is not None" % x)
                             or (pol and s == "%s.bound" % x) for s, pol in gs) for x in names)
            both_w = ("%s.is_wildcard()" % b, True) in gs or ("%s.is_wildcard()" % a, True) in gs
            if not (var_cmp and bounds and both_w):
                good = False
                why.append("line %d: variance-compared=%s both-bounds-exist=%s guards=%s" % (u.lineno, var_cmp, bounds, gs))
        ok = good
        msg = ("both projections may be unwrapped only after their variances were found equal and both bounds exist "
               "(otherwise A<out String> unifies with A<in T>, and a star projection yields {T: None}); " + "; ".join(why))
    obs.append(Ob("C10-R4", "unwrap-dominated-by-variance-and-bound-tests", _w(f), ok, msg))
    return obs


def r5_nested_strict(repo):
    f, lp = _uf(repo)
    obs = []
    recs = [c for c in calls_in(f.node) if call_name(c) == "unify_types"]
    inner = [c for c in recs if is_within(c, lp)]
    outer = [c for c in recs if not is_within(c, lp)]
    for i, c in enumerate(inner):
        st = kwarg(c, "same_type", 3)
        ok = st is None or const_value(st) is True
        obs.append(Ob("C10-R5", "nested-unification#%d:strict-mode" % i, _w(f, c), ok,
                      "type arguments must be unified in strict mode (same class on both sides): a nested call that forwards "
                      "supertype-matching mode lets W<Sub<X>> unify with W<Super<T>> although type arguments are invariant "
                      "positions of the match; found same_type=%s" % (src(st) if st is not None else "default True")))
    ok = len(outer) == 1 and src(kwarg(outer[0], "same_type", 3)) == "same_type" and \
        ("same_type", False) in _g(outer[0]) and \
        src(resolve_local(f.node, outer[0].args[0], outer[0])) == "%s.supertypes[-1]" % f.params[0]
    obs.append(Ob("C10-R5", "supertype-matching-climbs-only-at-top-level", _w(f), ok,
                  "supertype-matching mode may only replace the whole target by one of its supertypes (top-level recursion under `not same_type`)"))
    if len(inner) < 2:
        raise AnalysisError("nested unification calls: %d" % len(inner), rule="C10-R5", anchor=f.qualname)
    return obs


def r6_equality(repo):
    """a variable 'is given two different types' exactly when the two are not equal: the unifier's conflict test is `==`"""
    return kernel.equality_is_structural(repo, "C10-R6")


def rules():
    return [
        RuleSpec("C10-R1", "single writer: bindings only through _update_type_var_map, conflicts give {}", 6, r1_single_writer),
        RuleSpec("C10-R1b", "the writer stores only without conflict", 2, r1b_writer),
        RuleSpec("C10-R2", "bound test before every binding", 4, r2_bound_before_bind),
        RuleSpec("C10-R3", "structural mismatches give the empty map", 5, r3_mismatch),
        RuleSpec("C10-R4", "projections unwrapped only after variance/bound tests", 1, r4_projections),
        RuleSpec("C10-R5", "nested unification is strict; supertype matching only at top level", 3, r5_nested_strict),
        RuleSpec("C10-R6", "equality of types is structural (conflicts between two bindings are decided by ==)", 6, r6_equality),
    ]


# -- variants -----------------------------------------------------------------------

def _u(tree):
    return V.find_def(tree, "unify_types")


def _v_direct_store(tree):
    f = _u(tree)
    iff = V.one([n for n in ast.walk(f) if isinstance(n, ast.If) and
                 ast.unparse(n.test) == "not _update_type_var_map(type_var_map, t_var, t_arg1)" and
                 "bound is None" in ast.unparse(getattr(n, "_x", n))][-1:])
    V.replace_node(tree, iff, V.parse_stmts("type_var_map[t_var] = t_arg1")[0])


def _v_conflict_ignored(tree):
    f = _u(tree)
    iffs = [n for n in ast.walk(f) if isinstance(n, ast.If) and
            ast.unparse(n.test) == "not _update_type_var_map(type_var_map, t_var, t_arg1)"]
    iff = V.one(iffs)
    iff.body = V.parse_stmts("pass")


def _v_writer_overwrites(tree):
    f = V.find_def(tree, "_update_type_var_map")
    iff = V.one([n for n in f.body if isinstance(n, ast.If)])
    f.body.remove(iff)


def _v_bind_before_bound(tree):
    f = _u(tree)
    iff = V.one([n for n in ast.walk(f) if isinstance(n, ast.If) and ast.unparse(n.test) == "t_arg1.is_subtype(t_var.bound)"])
    iff.test = V.parse_expr("t_arg1.is_subtype(t_var.bound) or True")


def _v_typevar_pattern_no_bound(tree):
    f = _u(tree)
    iff = V.one([n for n in ast.walk(f) if isinstance(n, ast.If) and ast.unparse(n.test) == "bound and (not t1.is_subtype(bound))"])
    V.remove_stmt(tree, iff)


def _v_ctor_mismatch(tree):
    f = _u(tree)
    iff = V.one([n for n in f.body if isinstance(n, ast.If) and "t_constructor !=" in ast.unparse(n.test)])
    f.body.remove(iff)


def _v_ground_unchecked(tree):
    f = _u(tree)
    iff = V.one([n for n in ast.walk(f) if isinstance(n, ast.If) and ast.unparse(n.test) == "t_arg1 != t_arg2"])
    iff.test = V.parse_expr("t_arg1 != t_arg2 and t_arg1.name != t_arg2.name")


def _v_unwrap_unchecked(tree):
    f = _u(tree)
    iff = V.one([n for n in ast.walk(f) if isinstance(n, ast.If) and ast.unparse(n.test) == "t_arg1.variance != t_arg2.variance"])
    V.remove_stmt(tree, iff)


def _v_star_unchecked(tree):
    f = _u(tree)
    iff = V.one([n for n in ast.walk(f) if isinstance(n, ast.If) and "bound is None" in ast.unparse(n.test)
                 and "t_arg1" in ast.unparse(n.test)])
    V.remove_stmt(tree, iff)


def _v_nested_widening(tree):
    f = _u(tree)
    lp = V.one([n for n in f.body if isinstance(n, ast.For)])
    c = [n for n in ast.walk(lp) if V.is_call_named(n, "unify_types")]
    if not c:
        raise V.SkipVariant("nested call")
    c[-1].keywords.append(ast.keyword(arg="same_type", value=ast.Name(id="same_type", ctx=ast.Load())))


def _v_update_merge(tree):
    f = _u(tree)
    iff = [n for n in ast.walk(f) if isinstance(n, ast.If) and ast.unparse(n.test).startswith("not res or any(")]
    if not iff:
        raise V.SkipVariant("merge")
    i = iff[0]
    i.test = V.parse_expr("not res")
    V.insert_after(tree, i, V.parse_stmts("type_var_map.update(res)"))


def _t_rename(tree):
    f = _u(tree)
    V.rename_local(f, "res", "nested")
    V.rename_local(f, "is_parameterized", "bound_is_param")


def variants():
    t = "src/ir/type_utils.py"
    return [
        V.Variant("conflicting binding ignored", t, _v_conflict_ignored, {"C10-R1"}),
        V.Variant("_update_type_var_map overwrites earlier bindings", t, _v_writer_overwrites, {"C10-R1b"}),
        V.Variant("bounded variable bound without a subtype test", t, _v_bind_before_bound, {"C10-R2"}),
        V.Variant("type-variable pattern ignores its bound", t, _v_typevar_pattern_no_bound, {"C10-R2"}),
        V.Variant("different type constructors unified", t, _v_ctor_mismatch, {"C10-R3"}),
        V.Variant("ground arguments compared by name only", t, _v_ground_unchecked, {"C10-R3"}),
        V.Variant("variance comparison removed (the repaired defect, part 1)", t, _v_unwrap_unchecked, {"C10-R4"}),
        V.Variant("star projection test removed (the repaired defect, part 2)", t, _v_star_unchecked, {"C10-R4"}),
        V.Variant("nested type arguments unified in supertype-matching mode", t, _v_nested_widening, {"C10-R5"}),
        V.Variant("nested result merged with dict.update (conflicts lost)", t, _v_update_merge, {"C10-R1"}),
        V.Variant("twin: rename locals", t, _t_rename, None, twin=True),
        V.Variant("twin: whole tree reformatted by ast.unparse", None, None, None, twin=True),
    ]
