"""C02 - Java translations compile with javac: ONLY the batching / packaging clause is decided."""
import ast

from ..repo import AnalysisError, FunctionInfo
from ..report import Ob, RuleSpec
from ..astutil import (src, flat_guards, calls_in, call_name, kwarg, const_value,
                       iter_own_nodes, ancestors, is_within)
from ..cfg import cfg_of, Prov
from ..effects import Effects
from .. import variants as V

PROPERTY = "C02"
TITLE = "Java translations of valid programs compile with javac (batching clause only)"
DECIDES = ("Decided: ONLY the last sentence of the property (batching several programs into one compiler invocation does "
           "not change any program's verdict) through its necessary condition: every program of a batch is written to "
           "its own directory and that directory is the package the translator printed - the package string handed to "
           "the translator and the directory component of the written file derive from the same packages[i], correct "
           "program index 0 / incorrect index 1; and (pool typestate) the package names of one batch are drawn between "
           "two resets of the word pool, with no call path from one draw to the next that reaches reset_word_pool(). "
           "Of the first sentence one necessary condition of syntactic validity: on every decision-consistent path "
           "through every method of the Java translator the string literals it evaluates are balanced in (), {}, [], <> "
           "and double quotes (C02-R5), so the emitted compilation unit is balanced by induction over the tree.")
NOT_DECIDED = ("that the emitted Java is accepted by javac (statement terminators, keywords, boxing, inference, every "
               "other rule of the language) - this needs javac's verdict on generated text and is out of reach of static "
               "analysis of the generator; bracket balance is the only clause of syntactic validity that is decided.")

H = "hephaestus"


def _w(f, node=None):
    return "%s:%d" % (f.module.relpath, (node or f.node).lineno)


def r1_package_is_path(repo):
    obs = []
    gp = repo.fn(H + ".gen_program")
    pk = gp.params[2]
    tr = [n for n in iter_own_nodes(gp.node) if isinstance(n, ast.Assign) and src(n.targets[0]) == "translator"]
    ok = len(tr) == 1 and isinstance(tr[0].value, ast.Call) and tr[0].value.args and \
        " ".join(src(tr[0].value.args[0]).split()) == "'src.' + %s[0]" % pk and \
        src(tr[0].value.func).startswith("TRANSLATORS[")
    obs.append(Ob("C02-R1", "gen_program:translator-package=src.packages[0]", _w(gp), ok,
                  "the translator of the correct program must be constructed with package 'src.' + packages[0]"))
    cp = [c for c in calls_in(gp.node) if call_name(c) == "process_cp_transformations"]
    ncp = [c for c in calls_in(gp.node) if call_name(c) == "process_ncp_transformations"]
    ok = len(cp) == 1 and src(cp[0].args[5]) == "%s[0]" % pk and src(cp[0].args[2]) == "translator" and \
        src(cp[0].args[1]) == gp.params[1]
    obs.append(Ob("C02-R1", "gen_program:correct-program-written-under-packages[0]", _w(gp), ok,
                  "process_cp_transformations must receive the same translator, dirname and packages[0]"))
    ok = len(ncp) == 1 and src(ncp[0].args[5]) == "%s[1]" % pk and src(ncp[0].args[1]) == gp.params[1]
    obs.append(Ob("C02-R1", "gen_program:incorrect-program-written-under-packages[1]", _w(gp), ok,
                  "process_ncp_transformations must receive packages[1] (a different directory than the correct program)"))
    for name in ("process_cp_transformations", "process_ncp_transformations"):
        f = repo.fn(H + "." + name)
        dirn, pkg = f.params[1], f.params[5]
        dst = [n for n in iter_own_nodes(f.node) if isinstance(n, ast.Assign) and src(n.targets[0]) == "dst_file"]
        ok = len(dst) == 1 and isinstance(dst[0].value, ast.Call) and src(dst[0].value.func) == "os.path.join" and \
            [src(a) for a in dst[0].value.args] == [dirn, pkg, "translator.get_filename()"]
        obs.append(Ob("C02-R1", "%s:file-in-<dirname>/<package_name>" % name, _w(f), ok,
                      "the batch file must be written to os.path.join(dirname, package_name, translator.get_filename())"))
        if name.startswith("process_ncp"):
            sp = [n for n in iter_own_nodes(f.node) if isinstance(n, ast.Assign) and src(n.targets[0]) == "translator.package"]
            tcalls = [c for c in calls_in(f.node) if call_name(c) == "translate_program"]
            ok = len(sp) == 1 and " ".join(src(sp[0].value).split()) == "'src.' + %s" % pkg and \
                all(c.lineno > sp[0].lineno for c in tcalls) and not flat_guards(sp[0])
            obs.append(Ob("C02-R1", "%s:package-switched-before-translating" % name, _w(f), ok,
                          "translator.package must be set to 'src.' + package_name before the incorrect program is translated"))
    # producing one program never deletes or moves anything in the batch directory shared with the other programs
    for name in ("gen_program", "gen_program_mul", "process_cp_transformations", "process_ncp_transformations", "save_program"):
        f = repo.fn(H + "." + name)
        bad = [src(c)[:70] for c in calls_in(f.node)
               if call_name(c) in ("rmtree", "remove", "unlink", "rmdir", "move", "rename", "removedirs", "replace")
               and (src(c.func).startswith(("shutil.", "os.")))]
        obs.append(Ob("C02-R1", "%s:does-not-delete-or-move-batch-files" % name, _w(f), not bad,
                      "`dirname` is the src directory shared by every program of the batch: generating / saving one program "
                      "(also on its error path) must not remove or move files there; found %s" % bad))
    # the translators print `package <self.package>`
    for lang, q in (("java", "src.translators.java.JavaTranslator"), ("kotlin", "src.translators.kotlin.KotlinTranslator"),
                    ("groovy", "src.translators.groovy.GroovyTranslator"), ("scala", "src.translators.scala.ScalaTranslator")):
        vp = repo.method(q, "visit_program", inherited=False)
        st = [n for n in iter_own_nodes(vp.node) if isinstance(n, ast.Assign) and src(n.targets[0]) == "package_str" and
              "self.package" in src(n.value)]
        ok = len(st) == 1 and isinstance(st[0].value, ast.BinOp) and "'package '" in src(st[0].value) and \
            ("self.package", True) in [(src(t), p) for t, p in flat_guards(st[0])]
        used = any("package_str" in src(n.value) or "package=package_str" in src(n.value)
                   for n in iter_own_nodes(vp.node) if isinstance(n, ast.Assign) and src(n.targets[0]) == "self.program")
        obs.append(Ob("C02-R1", "%s:prints-package-declaration" % lang, _w(vp), ok and used,
                      "visit_program must start the unit with `package <self.package>`"))
    return obs


def r2_distinct_packages(repo):
    obs = []
    f = repo.fn(H + "._run")
    fn = f.node
    g = cfg_of(fn)
    draws = [c for c in calls_in(fn) if src(c.func) in ("utils.random.word", "ut.random.word")]
    resets = [c for c in calls_in(fn) if call_name(c) == "reset_word_pool"]
    ok = len(draws) >= 2 and len(resets) >= 1
    obs.append(Ob("C02-R2", "_run:draw-and-reset-sites", _w(f), ok,
                  "%d draws of utils.random.word(), %d resets in _run" % (len(draws), len(resets))))
    if not ok:
        return obs
    pp = f.params[0]
    # callees of the function-valued parameter process_program: bound at the call sites of _run
    bound = []
    for caller in repo.functions.values():
        for c in calls_in(caller.node):
            if isinstance(c.func, ast.Name) and c.func.id == "_run" and c.args:
                tgt = repo.resolve_name_expr(c.args[0], caller.module, caller)
                if isinstance(tgt, FunctionInfo):
                    bound.append(tgt)
    if len(bound) < 2:
        raise AnalysisError("call sites of _run with a resolvable process_program: %d" % len(bound), rule="C02-R2", anchor=f.qualname)
    E = Effects(repo)

    def reaches_reset(entry):
        """does the (same-process) closure of `entry` call reset_word_pool?  Work handed to a worker pool
        (apply_async / Pool.map) runs in another process and is not followed."""
        seen, todo = set(), [entry]
        while todo:
            h = todo.pop()
            if h.qualname in seen:
                continue
            seen.add(h.qualname)
            for c in calls_in(h.node):
                if call_name(c) == "reset_word_pool":
                    return h, c
                if call_name(c) in ("apply_async", "map_async", "apply", "imap", "imap_unordered", "starmap") or \
                        (call_name(c) == "map" and "pool" in src(c.func).lower()):
                    continue
                tg, _how = E.callees(h, c)
                for t in tg:
                    # do not descend into the whole program generator: reset is called at the driver level
                    if t.module.name in ("hephaestus", "src.utils", "src.modules.processor"):
                        todo.append(t)
        return None
    # statements on a path from one draw to the next draw
    draw_nodes = {g.node(d) for d in draws}
    # a reset that dominates every draw and is not in a loop together with them starts a new batch:
    # paths through it leave the batch and are cut
    batch_resets = {g.node(r) for r in resets
                    if all(g.dominates(g.node(r), y) for y in draw_nodes) and
                    not any(isinstance(a, ast.For) and all(is_within(d, a) for d in draws) for a in ancestors(r))}
    for i, d in enumerate(draws):
        dn = g.node(d)
        between = set()
        # forward reachability until another draw node
        todo = list(g.g.successors(dn))
        while todo:
            x = todo.pop()
            if x in between:
                continue
            if x in draw_nodes and x != dn:
                continue
            if x in batch_resets:
                continue
            between.add(x)
            if x == dn:
                continue
            todo.extend(g.g.successors(x))
        # only nodes from which a draw is reachable again matter
        relevant = [x for x in between
                    if any(g.path_exists_avoiding(x, y, batch_resets) or x == y for y in draw_nodes)]
        offenders = []
        for x in relevant:
            st = g.stmt(x)
            if st is None:
                continue
            exprs = [st.test] if isinstance(st, (ast.If, ast.While)) else ([st.iter] if isinstance(st, ast.For) else [st])
            for e in exprs:
                for c in [n for n in ast.walk(e) if isinstance(n, ast.Call)]:
                    if call_name(c) == "reset_word_pool":
                        # a reset between two draws is fine only if it is the per-batch reset that dominates all draws
                        if not all(g.dominates(g.node(c), y) for y in draw_nodes) or \
                                any(isinstance(a, (ast.For,)) and is_within(d, a) and is_within(c, a) for a in ancestors(c)):
                            offenders.append("line %d: reset_word_pool() between two draws" % c.lineno)
                    if isinstance(c.func, ast.Name) and c.func.id == pp:
                        for b in bound:
                            hit = reaches_reset(b)
                            if hit:
                                offenders.append("line %d: %s(...) -> %s -> %s calls reset_word_pool() (line %d)"
                                                 % (c.lineno, pp, b.qualname, hit[0].qualname, hit[1].lineno))
        obs.append(Ob("C02-R2", "_run:no-reset-between-draw#%d-and-the-next-draw" % i, _w(f, d), not offenders,
                      "uniqueness of drawn words holds only between two reset_word_pool() calls; on a path from this draw "
                      "to the next draw of the same batch: %s" % sorted(set(offenders))))
    # the per-batch reset precedes the draws
    ok = any(all(g.dominates(g.node(r), g.node(d)) for d in draws) for r in resets)
    obs.append(Ob("C02-R2", "_run:pool-reset-once-per-batch-before-drawing", _w(f), ok,
                  "a reset_word_pool() must dominate all draws of a batch (fresh pool per batch)"))
    # every batch gets its own fresh directory
    mk = [c for c in calls_in(fn) if src(c.func) == "tempfile.mkdtemp"]
    wl = [a for a in ancestors(mk[0]) if isinstance(a, ast.While)] if mk else []
    okd = len(mk) == 1 and bool(wl) and not flat_guards(mk[0], stop=wl[0])
    obs.append(Ob("C02-R2", "_run:fresh-directory-per-batch", _w(f), okd,
                  "tempfile.mkdtemp() must be called inside the batch loop: with a worker pool the next batch is generated while "
                  "the previous one is still being compiled, so a shared directory mixes two batches in one compiler run"))
    # RandomUtils.word removes what it returns
    wf = repo.method("src.utils.RandomUtils", "word", inherited=False)
    rm = [c for c in calls_in(wf.node) if call_name(c) == "remove" and src(c.func.value) == "self.WORDS"]
    ret = wf.node.body[-1]
    ok = len(rm) == 1 and isinstance(ret, ast.Return) and src(ret.value) == src(rm[0].args[0])
    obs.append(Ob("C02-R2", "RandomUtils.word:removes-what-it-returns", _w(wf), ok,
                  "word() must remove the returned word from the pool"))
    # the drawn pair is what the program receives
    calls = [c for c in calls_in(fn) if isinstance(c.func, ast.Name) and c.func.id == pp]
    ok = len(calls) == 1 and len(calls[0].args) >= 3
    if ok:
        prov = Prov(fn)
        srcs = prov.sources(calls[0].args[2], at=calls[0])
        ok = any(any(d is x for x in ast.walk(s)) for s in srcs if isinstance(s, ast.AST) for d in draws)
    obs.append(Ob("C02-R2", "_run:program-receives-the-drawn-names", _w(f), ok,
                  "the packages argument of process_program must derive from the drawn words"))
    return obs


TDA = "src.analysis.type_dependency_analysis.TypeDependencyAnalysis"
POLY_VISITORS = ("visit_lambda", "visit_func_ref")


def poly_expressions_rule(repo, rid):
    """Java: a lambda expression and a method reference are poly expressions - their type is *taken from* the target
    type (JLS 15.27.3, 15.13.2), they give javac nothing to infer a type argument from.  If the dependency analysis records
    such an expression as an inferred node, the erasure mutation treats `new A<>(lambda)` / `foo(lambda)` as inferable and
    javac answers 'cannot infer type arguments'.  The visitors of these two node kinds therefore add no inferred node
    (and no edge to one): they only visit their children."""
    obs = []
    c = repo.cls(TDA)
    for vn in POLY_VISITORS:
        m = c.methods.get(vn)
        if m is None:
            obs.append(Ob(rid, "%s:adds-no-inferred-node" % vn, "src/analysis/type_dependency_analysis.py", True,
                          "not overridden: the default visitor only visits the children"))
            continue
        writes = [n for n in iter_own_nodes(m.node) if isinstance(n, (ast.Attribute,)) and n.attr in
                  ("_inferred_nodes", "type_graph") and isinstance(getattr(n, "_parent", None), (ast.Subscript, ast.Attribute))]
        helpers = [k for k in calls_in(m.node) if call_name(k) in ("TypeNode", "construct_edge", "_handle_declaration",
                                                                   "_infer_type_variable_by_ret", "_parameterized_type2node")]
        ok = not writes and not helpers
        obs.append(Ob(rid, "%s:adds-no-inferred-node" % vn, _w(m), ok,
                      "%s must not feed the inference (poly expression): touches %s, calls %s"
                      % (vn, sorted({src(w) for w in writes}), [call_name(k) for k in helpers])))
    return obs


def r3_poly(repo):
    return poly_expressions_rule(repo, "C02-R3")


def r4_no_primitive_type_arguments(repo):
    """Java has no primitive type arguments (`Foo<int>`, `(int p) -> ..` for a `Function1<Integer, ..>`): both
    instantiation helpers box the candidate pool (`_get_available_types(.., primitives=False)`), and that function boxes
    every candidate when asked to."""
    obs = []
    for fn_name in ("instantiate_type_constructor", "instantiate_parameterized_function"):
        f = repo.fn("src.ir.type_utils." + fn_name)
        sites = [k for k in calls_in(f.node) if call_name(k) == "_get_available_types"]
        vals = [const_value(kwarg(k, "primitives", 3)) if kwarg(k, "primitives", 3) is not None else "default (True)"
                for k in sites]
        obs.append(Ob("C02-R4", "%s:pool-is-boxed" % fn_name, _w(f), bool(sites) and all(v is False for v in vals),
                      "candidate pools of %s: primitives=%s (must be False at every site)" % (fn_name, vals)))
    g = repo.fn("src.ir.type_utils._get_available_types")
    box = [k for k in calls_in(g.node) if call_name(k) == "box_type"]
    ok = False
    if len(box) == 1:
        conds = [(" ".join(t.split()), pol) for t, pol in _gl(box[0], g.node)]
        # boxed whenever primitives is false and the candidate can be boxed; candidates skipped before (negative guards of
        # a `continue`) are not in the pool at all
        extra = [c_ for c_ in conds if c_[1] is True and c_[0] != "only_regular" and "box_type" not in c_[0]]
        extra += [c_ for c_ in conds if c_[1] is False and c_[0] != "primitives" and
                  not (c_[0].startswith("isinstance(") or "isinstance(" in c_[0])]
        ok = ("primitives", False) in conds and not extra
    obs.append(Ob("C02-R4", "_get_available_types:boxes-every-candidate-when-asked", _w(g), ok,
                  "`ptype.box_type()` must apply to every candidate under `not primitives`; %d boxing site(s), guards %s"
                  % (len(box), conds if len(box) == 1 else "-")))
    return obs


def _gl(node, stop):
    return [(src(t), p) for t, p in flat_guards(node, stop)]


def rules():
    return [
        RuleSpec("C02-R1", "package printed = directory written (per program, per variant)", 15, r1_package_is_path),
        RuleSpec("C02-R2", "distinct package names within a batch (word-pool typestate)", 7, r2_distinct_packages),
        RuleSpec("C02-R3", "Java poly expressions (lambda, method reference) are no inference sources for the erasure", 2, r3_poly),
        RuleSpec("C02-R4", "no primitive type arguments: instantiation pools are boxed", 3, r4_no_primitive_type_arguments),
        RuleSpec("C02-R5", "Java text: the literals every method of the Java translator evaluates are balanced on every path", 40,
                 r5_java_balance,
                 "necessary for a syntactically valid compilation unit: (), {}, [], <>, double quotes balanced by "
                 "induction over the tree"),
        RuleSpec("C02-R6", "no `null` for a Java primitive: a bottom constant is never forced for a primitive type", 5,
                 r6_no_null_for_primitives),
    ]


def r6_no_null_for_primitives(repo):
    from .c01 import r11_no_bottom_for_primitives
    return r11_no_bottom_for_primitives(repo, "C02-R6")


def r5_java_balance(repo):
    from .. import balance
    return balance.check_module(repo, "src.translators.java", "C02-R5", "java", Ob)


# -- variants ---------------------------------------------------------------------------

def _v_incorrect_under_0(tree):
    f = V.find_def(tree, "gen_program")
    c = V.one([n for n in ast.walk(f) if V.is_call_named(n, "process_ncp_transformations")])
    c.args[5] = V.parse_expr("packages[0]")


def _v_package_not_switched(tree):
    f = V.find_def(tree, "process_ncp_transformations")
    st = V.one([n for n in f.body if isinstance(n, ast.Assign) and ast.unparse(n.targets[0]) == "translator.package"])
    V.remove_stmt(tree, st)


def _v_flat_dir(tree):
    f = V.find_def(tree, "process_cp_transformations")
    st = V.one([n for n in f.body if isinstance(n, ast.Assign) and ast.unparse(n.targets[0]) == "dst_file"])
    st.value.args = [st.value.args[0], st.value.args[2]]


def _v_revert_fix(tree):
    f = V.find_def(tree, "_run")
    lp = V.one([n for n in ast.walk(f) if isinstance(n, ast.For) and "range(batches)" in ast.unparse(n.iter)])
    st = V.one([n for n in lp.body if isinstance(n, ast.Assign) and ast.unparse(n.targets[0]) == "packages"])
    st.value = V.parse_expr("(utils.random.word(), utils.random.word())")


def _v_reset_in_loop(tree):
    f = V.find_def(tree, "_run")
    lp = V.one([n for n in ast.walk(f) if isinstance(n, ast.For) and "range(batches)" in ast.unparse(n.iter)])
    lp.body.insert(0, V.parse_stmts("utils.random.reset_word_pool()")[0])
    st = V.one([n for n in lp.body if isinstance(n, ast.Assign) and ast.unparse(n.targets[0]) == "packages"])
    st.value = V.parse_expr("(utils.random.word(), utils.random.word())")


def _v_word_keeps(tree):
    f = V.find_def(tree, "RandomUtils.word")
    st = V.one([n for n in f.body if isinstance(n, ast.Expr) and V.is_call_named(n.value, "remove")])
    V.remove_stmt(tree, st)


def _v_kotlin_no_package(tree):
    f = V.find_def(tree, "JavaTranslator.visit_program")
    iff = V.one([n for n in f.body if isinstance(n, ast.If) and ast.unparse(n.test) == "self.package"])
    iff.test = V.parse_expr("False")


def _v_cleanup_on_error(tree):
    f = V.find_def(tree, "gen_program")
    tr = V.one([n for n in f.body if isinstance(n, ast.Try)])
    tr.handlers[0].body.insert(0, V.parse_stmts("shutil.rmtree(dirname, ignore_errors=True)")[0])


def _v_one_dir(tree):
    f = V.find_def(tree, "_run")
    st = V.one([n for n in ast.walk(f) if isinstance(n, ast.Assign) and "mkdtemp" in ast.unparse(n.value)])
    V.remove_stmt(tree, st)
    wl = V.one([n for n in f.body if isinstance(n, ast.While)])
    V.insert_before(tree, wl, [st])


def _t_rename(tree):
    f = V.find_def(tree, "_run")
    V.rename_local(f, "batch_packages", "names")


def _drop_char(fname, ch, nth=0):
    def edit(tree):
        f = V.find_def(tree, fname)
        cs = [n for n in ast.walk(f) if isinstance(n, ast.Constant) and isinstance(n.value, str) and ch in n.value]
        if len(cs) <= nth:
            raise V.SkipVariant("no literal with %r in %s" % (ch, fname))
        c = cs[nth]
        i = c.value.rindex(ch)
        c.value = c.value[:i] + c.value[i + 1:]
    return edit


def _v_is_paren(tree):
    f = V.find_def(tree, "JavaTranslator.visit_conditional")
    cs = [n for n in ast.walk(f) if isinstance(n, ast.Constant) and isinstance(n.value, str) and "(" in n.value]
    if not cs:
        raise V.SkipVariant("no parenthesis literal")
    c = cs[0]
    V.replace_node(tree, c, V.parse_expr("(%r if node.is_final else %r)" % (c.value, c.value.replace("(", "", 1))))


def variants():
    h = "hephaestus.py"
    return [
        V.Variant("incorrect program written under packages[0]", h, _v_incorrect_under_0, {"C02-R1"}),
        V.Variant("translator.package not switched for the incorrect program", h, _v_package_not_switched, {"C02-R1"}),
        V.Variant("batch file written without the package directory", h, _v_flat_dir, {"C02-R1"}),
        V.Variant("java: package declaration never printed", "src/translators/java.py", _v_kotlin_no_package, {"C02-R1"}),
        V.Variant("package names drawn inside the program loop again (the repaired defect)", h, _v_revert_fix, {"C02-R2"}),
        V.Variant("pool reset before every program", h, _v_reset_in_loop, {"C02-R2"}),
        V.Variant("word() keeps the word in the pool", "src/utils.py", _v_word_keeps, {"C02-R2"}),
        V.Variant("tool error removes the whole batch directory", h, _v_cleanup_on_error, {"C02-R1"}),
        V.Variant("one temporary directory for all batches", h, _v_one_dir, {"C02-R2"}),
        V.Variant("java: cast of a generic array loses its closing parenthesis", "src/translators/java.py",
                  _drop_char("JavaTranslator.visit_array_expr", ")"), {"C02-R5"}),
        V.Variant("java: a class body is never closed", "src/translators/java.py",
                  _drop_char("JavaTranslator.visit_class_decl", "}"), {"C02-R5"}),
        V.Variant("java: type arguments of a call lose their closing angle bracket", "src/translators/java.py",
                  _drop_char("JavaTranslator.visit_func_decl", ">", 1), {"C02-R5"}),
        V.Variant("java: string constant opened but not closed", "src/translators/java.py",
                  _drop_char("JavaTranslator.visit_string_constant", '"'), {"C02-R5"}),
        V.Variant("java: parenthesis closed only when the negation is printed (correlated branches broken)",
                  "src/translators/java.py", _v_is_paren, {"C02-R5"}),
        V.Variant("twin: rename batch_packages", h, _t_rename, None, twin=True),
        V.Variant("twin: whole tree reformatted by ast.unparse", None, None, None, twin=True),
    ]
