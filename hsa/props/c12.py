"""C12 - translations are faithful to the program's declarations and annotations (annotation / inventory part)."""
import ast

from ..repo import AnalysisError
from ..report import Ob, RuleSpec
from ..astutil import (src, flat_guards, guards, calls_in, call_name, kwarg, const_value,
                       iter_own_nodes, ancestors, is_within)
from ..cfg import cfg_of, Prov, resolve_local
from ..translator import TRANSLATORS, dispatch_table, child_kinds
from .. import variants as V
from .. import kernel

PROPERTY = "C12"
TITLE = "Translations are faithful to the program's declarations and annotations"
DECIDES = ("Decided: whether a declared type / explicit type argument is printed is controlled by exactly the attribute "
           "the mutations write (printed and tested attributes per language and node kind, agreement with the attributes "
           "TypeOverwriting writes and omit_type clears); visit_new / visit_func_call drop type arguments only under "
           "can_infer_type_args; each declaration visitor reads every attribute its language can express and consults "
           "each boolean modifier independently of the other modifiers; the offsets "
           "used to slice children results follow the order in which children() concatenates; every visitor has net "
           "effect +1 on the result stack on every path and pops exactly the results of the children it visited; "
           "brackets and quotes: on every decision-consistent path through every method of the four translators the "
           "string literals it evaluates (format templates parsed with string.Formatter, concatenations, f-strings, "
           "constants, same-module helpers) are balanced in (), {}, [], <> and double quotes, loop bodies / comprehension "
           "elements / join separators each by themselves - so a translation is balanced by induction over the tree. Also: the lists of a declaration (superclasses, interfaces, fields, ...) are rendered independently of each other (no join site guarded by the emptiness of another joined list); a rendered `<type> <name>` is taken apart at its last blank only; get_name of every type is balanced as well.")
NOT_DECIDED = ("that the text is a correct rendering (literal values, keyword spelling, statement terminators, "
               "indentation, the order of fragments inside a template) - string building is value-level; bracket balance "
               "is decided for the literals of the translators, not for text that comes from names or type names.")

LANGS = ["java", "kotlin", "groovy", "scala"]
OMITS = {  # language -> node kind -> attribute whose absence means "annotation omitted" (None: language/translator never omits)
    "kotlin": {"var": "var_type", "func": "ret_type"},
    "scala": {"var": "var_type", "func": "ret_type"},
    "groovy": {"var": "var_type", "func": None},
    "java": {"var": None, "func": None},
}
NO_OMISSION_REASON = {
    ("java", "var"): "the Java translator always prints the type of a local (no `var`); erasure shows only as the diamond",
    ("java", "func"): "Java methods always declare their return type",
    ("groovy", "func"): "Groovy methods are printed with their return type (Closure<T> for nested functions)",
}
WRITTEN_BY_OVERWRITE = {"var": {"var_type", "inferred_type"}, "func": {"ret_type", "inferred_type"}}
BOOL_MODIFIERS = {"is_final", "can_override", "override", "vararg"}
REQUIRED_READS = {
    "visit_class_decl": {"*": {"name", "is_final", "fields", "functions", "superclasses", "children"},
                         "_one_of": [{"class_type", "get_class_prefix"}]},
    "visit_field_decl": {"*": {"name", "field_type", "is_final"}, "kotlin": {"can_override", "override"},
                         "scala": {"can_override", "override"}},
    "visit_func_decl": {"*": {"name", "params", "type_parameters", "body", "is_final", "children"},
                        "kotlin": {"override", "ret_type"}, "scala": {"override", "ret_type"},
                        "java": {"inferred_type"}, "groovy": {"inferred_type"}},
    "visit_param_decl": {"*": {"name", "param_type", "vararg"}, "kotlin": {"children"}, "scala": {"children"},
                         "groovy": {"children"}},
    "visit_type_param": {"*": {"name", "bound"}, "_one_of_kotlin": [{"variance", "variance_to_string"}],
                         "_one_of_scala": [{"is_covariant", "is_contravariant", "variance"}]},
    "visit_var_decl": {"*": {"name", "is_final", "children"}, "kotlin": {"var_type"}, "scala": {"var_type"},
                       "groovy": {"var_type", "inferred_type"}, "java": {"inferred_type"}},
}


def _w(f, node=None):
    return "%s:%d" % (f.module.relpath, (node or f.node).lineno)


def _cls(repo, lang):
    return repo.cls(TRANSLATORS[lang])


def _visitor(repo, lang, name):
    m = _cls(repo, lang).lookup(name)
    if m is None:
        raise AnalysisError("%s.%s missing" % (TRANSLATORS[lang], name), anchor=TRANSLATORS[lang] + "." + name)
    return m


def _type_print_sites(m):
    """calls self.get_type_name(<expr>) in visitor m whose argument derives from a type attribute of the node:
    -> [(call, attr, guard_attrs:set of (attr, polarity))]"""
    node = m.params[1]
    out = []
    prov = Prov(m.node, passthrough={"box_type"})
    for c in calls_in(m.node):
        if call_name(c) != "get_type_name" or not c.args:
            continue
        srcs = prov.sources(c.args[0], at=c)
        attrs = set()
        for s in srcs:
            if isinstance(s, ast.Attribute) and isinstance(s.value, ast.Name) and s.value.id == node and \
                    s.attr in ("var_type", "ret_type", "inferred_type"):
                attrs.add(s.attr)
            if isinstance(s, ast.Call) and call_name(s) == "get_type" and src(s.func.value) == node:
                attrs.add("inferred_type")
        if not attrs:
            continue
        gl = set()
        for t, pol in flat_guards(c):
            for a in ast.walk(t):
                if isinstance(a, ast.Attribute) and isinstance(a.value, ast.Name) and a.value.id == node and \
                        a.attr in ("var_type", "ret_type", "inferred_type"):
                    neg = isinstance(t, ast.Compare) and isinstance(t.ops[0], ast.Is) and \
                        const_value(t.comparators[0], 1) is None
                    gl.add((a.attr, (not pol) if neg else pol, src(t)))
        out.append((c, attrs, gl))
    return out


def _written_by_overwrite(repo):
    """{'var': {...}, 'func': {...}}: declaration attributes TypeOverwriting.visit_func_decl stores per node kind"""
    f = repo.method("src.transformations.type_overwriting.TypeOverwriting", "visit_func_decl", inherited=False)
    out = {"var": set(), "func": set()}
    for n in iter_own_nodes(f.node):
        if isinstance(n, ast.Assign) and isinstance(n.targets[0], ast.Attribute) and src(n.targets[0].value).endswith(".decl"):
            gs = [(src(t), p) for t, p in flat_guards(n)]
            only_var = any(p and "VariableDeclaration" in s_ for s_, p in gs)
            only_func = any((not p) and "VariableDeclaration" in s_ for s_, p in gs)
            if not only_func:
                out["var"].add(n.targets[0].attr)
            if not only_var:
                out["func"].add(n.targets[0].attr)
    if not out["var"] or not out["func"]:
        raise AnalysisError("cannot extract the attributes TypeOverwriting writes", rule="C12-R2", anchor=f.qualname)
    return out


def r1_r2_annotations(repo):
    obs = []
    written = _written_by_overwrite(repo)
    for lang in LANGS:
        for kind, vname in (("var", "visit_var_decl"), ("func", "visit_func_decl")):
            m = _visitor(repo, lang, vname)
            sites = _type_print_sites(m)
            omit_attr = OMITS[lang][kind]
            printed = set()
            for _c, attrs, _g in sites:
                printed |= attrs
            # R2 (overwritten type really present): something written by the overwrite is printed
            ok = bool(printed) and printed <= written[kind] and printed <= WRITTEN_BY_OVERWRITE[kind]
            obs.append(Ob("C12-R2", "%s:%s:prints-an-attribute-the-overwrite-writes" % (lang, kind), _w(m), ok,
                          "every type attribute printed by %s.%s (%s) must be one that TypeOverwriting writes for this node "
                          "kind (%s, extracted from its visit_func_decl), otherwise an overwritten type is invisible in %s"
                          % (lang, vname, sorted(printed), sorted(written[kind]), lang)))
            if omit_attr is None:
                obs.append(Ob("C12-R1", "%s:%s:annotation-always-printed" % (lang, kind), _w(m), bool(sites),
                              "exempt from omission: " + NO_OMISSION_REASON[(lang, kind)]))
                if (lang, kind) == ("groovy", "func"):
                    # nested functions are closures: `def name = {...}` when the return type was erased,
                    # `Closure<R> name = {...}` otherwise - that choice must test node.ret_type
                    guarded = [c for c, attrs, gl in sites if any(g[0] == "ret_type" and g[1] for g in gl)]
                    obs.append(Ob("C12-R1", "groovy:func:closure-form-typed-iff-ret_type-present", _w(m), bool(guarded),
                                  "the Closure<R> form of a nested function must be chosen by testing node.ret_type (the "
                                  "attribute erasure clears), not a type computed from the inferred type; sites guarded by "
                                  "node.ret_type: %d of %d" % (len(guarded), len(sites))))
                continue
            # R1: every site is guarded by presence of the attribute erasure clears
            for i, (c, attrs, gl) in enumerate(sites):
                pres = [g for g in gl if g[0] == omit_attr and g[1]]
                other_disj = [g for g in gl if g[0] == omit_attr and " or " in g[2]]
                ok = bool(pres)
                note = ""
                if ok and other_disj:
                    # a disjunction (Groovy: `var_type is not None or namespace == GLOBAL`)
                    note = " (disjunction `%s`: global variables become fields of Main and must be typed)" % other_disj[0][2]
                    ok = lang == "groovy" and "GLOBAL_NAMESPACE" in other_disj[0][2]
                obs.append(Ob("C12-R1", "%s:%s:site#%d:printed-iff-%s-present" % (lang, kind, i, omit_attr), _w(m, c), ok,
                              "`%s` prints %s; it must be guarded by `%s` being present (erasure sets it to None); guards: %s%s"
                              % (src(c)[:60], sorted(attrs), omit_attr, sorted(g[2] for g in gl), note)))
            # R2 (erased annotation really absent): tested attribute = attribute cleared by omit_type
            q = "src.ir.ast.%s.omit_type" % ("VariableDeclaration" if kind == "var" else "FunctionDeclaration")
            om = repo.fn(q)
            cleared = {n.targets[0].attr for n in iter_own_nodes(om.node) if isinstance(n, ast.Assign) and
                       isinstance(n.targets[0], ast.Attribute)}
            obs.append(Ob("C12-R2", "%s:%s:tested-attribute-is-the-one-erasure-clears" % (lang, kind), _w(m),
                          cleared == {omit_attr} and bool(sites),
                          "omit_type clears %s; the translator tests %s" % (sorted(cleared), omit_attr)))
    # lambdas printed with the fun-syntax (Kotlin, Scala)
    for lang in ("kotlin", "scala"):
        m = _visitor(repo, lang, "visit_lambda")
        sites = _type_print_sites(m)
        ok = all(any(g[0] == "ret_type" and g[1] for g in gl) for _c, attrs, gl in sites if "ret_type" in attrs)
        obs.append(Ob("C12-R1", "%s:lambda:ret_type-printed-iff-present" % lang, _w(m), ok and bool(sites),
                      "fun-syntax lambdas print their return type only when the node carries one"))
    return obs


def r3_type_args(repo):
    obs = []
    for lang in LANGS:
        m = _visitor(repo, lang, "visit_new")
        node = m.params[1]
        tests = [n for n in iter_own_nodes(m.node) if isinstance(n, ast.If) and "can_infer_type_args" in src(n.test)]
        ok, msg = len(tests) == 1, "expected one test of can_infer_type_args in visit_new"
        if ok:
            t = tests[0]
            want = "getattr(%s.class_type, 'can_infer_type_args', None) is True" % node
            full = [c for c in calls_in(m.node) if call_name(c) == "get_type_name" and
                    src(c.args[0]) == "%s.class_type" % node]
            # by path condition, not by branch position: the full type only where the flag is not True, the bare name
            # (or diamond) where it is
            def pol_of(n_):
                for t_, p_ in flat_guards(n_):
                    if " ".join(src(t_).split()) == want:
                        return p_
                return None
            in_true = [c for c in full if pol_of(c) is True]
            in_false = [c for c in full if pol_of(c) is False]
            name_only = [n for n in ast.walk(t) if isinstance(n, ast.Attribute) and
                         src(n) == "%s.class_type.name" % node and pol_of(n) is True]
            ok = want in " ".join(src(t.test).split()) and not in_true and bool(in_false) and bool(name_only) and \
                all(pol_of(c) is not None for c in full)
            msg = ("type arguments of a constructor call are dropped (name only / diamond) iff can_infer_type_args is True, "
                   "otherwise the full type is printed: test `%s`, full type in else-branch: %s, name only in then-branch: %s"
                   % (src(t.test), bool(in_false), bool(name_only)))
        obs.append(Ob("C12-R3", "%s:visit_new:type-args-dropped-iff-inferable" % lang, _w(m), ok, msg))
    for lang in LANGS:
        m = _visitor(repo, lang, "visit_func_call")
        node = m.params[1]
        reads = [n for n in iter_own_nodes(m.node) if isinstance(n, ast.Attribute) and n.attr == "type_args" and
                 src(n.value) == node]
        ok, msg = bool(reads), ("%s.visit_func_call never reads node.type_args: explicit type arguments of a generic call "
                                "are not printed, so an explicit type argument the program carries (and one that type "
                                "overwriting replaced) is invisible in this language" % lang)
        if ok:
            ifx = [n for n in iter_own_nodes(m.node) if isinstance(n, ast.IfExp) and
                   any(r is x for r in reads for x in ast.walk(n.body))]
            ok = len(ifx) == 1
            if ok:
                conds = sorted(" ".join(src(v).split()) for v in
                               (ifx[0].test.values if isinstance(ifx[0].test, ast.BoolOp) else [ifx[0].test]))
                ok = conds == sorted(["not %s.can_infer_type_args" % node, "%s.type_args" % node]) and \
                    isinstance(ifx[0].test, ast.BoolOp) and isinstance(ifx[0].test.op, ast.And) and \
                    const_value(ifx[0].orelse, None) == ""
                # every element printed
                comp = [n for n in ast.walk(ifx[0].body) if isinstance(n, ast.ListComp)]
                ok = ok and len(comp) == 1 and src(comp[0].generators[0].iter) == "%s.type_args" % node and \
                    not comp[0].generators[0].ifs
                msg = "explicit type arguments printed iff `node.type_args and not node.can_infer_type_args`: %s" % conds
                if ok:
                    # the rendered list must reach every produced text (with and without receiver)
                    st_ = ifx[0]._parent
                    while not isinstance(st_, ast.stmt):
                        st_ = st_._parent
                    tname = src(st_.targets[0]) if isinstance(st_, ast.Assign) else None
                    fmts = [c for c in calls_in(m.node) if call_name(c) == "format" and
                            isinstance(c._parent, ast.Assign) and src(c._parent.targets[0]) == "res"]
                    missing = [c.lineno for c in fmts if tname not in
                               {n.id for a in list(c.args) + [k.value for k in c.keywords] for n in ast.walk(a)
                                if isinstance(n, ast.Name)}]
                    ok = tname is not None and bool(fmts) and not missing
                    msg += "; every text built for the call must include `%s` (missing in the format calls at lines %s)" % (tname, missing)
        obs.append(Ob("C12-R3", "%s:visit_func_call:type-args-printed-iff-carried" % lang, _w(m), ok, msg))
    return obs


def r4_inventory(repo):
    obs = []
    for vname, req in sorted(REQUIRED_READS.items()):
        for lang in LANGS:
            m = _visitor(repo, lang, vname)
            p = m.params[1]
            reads = {n.attr for n in ast.walk(m.node) if isinstance(n, ast.Attribute) and
                     isinstance(n.value, ast.Name) and n.value.id == p}
            reads |= {const_value(c.args[1]) for c in calls_in(m.node) if call_name(c) == "getattr" and
                      len(c.args) >= 2 and src(c.args[0]) == p}
            need = set(req.get("*", set())) | set(req.get(lang, set()))
            missing = sorted(need - reads)
            for grp in req.get("_one_of", []) + req.get("_one_of_" + lang, []):
                if not (grp & reads):
                    missing.append("one of %s" % sorted(grp))
            obs.append(Ob("C12-R4", "%s:%s:reads-every-expressible-attribute" % (lang, vname), _w(m), not missing,
                          "%s.%s must read %s of the node; missing: %s" % (lang, vname, sorted(need), missing),
                          {"reads": sorted(x for x in reads if x)}))
            # boolean modifiers are independent attributes of the IR: each must be consulted on its own, i.e. at
            # least one of its reads is not control-dependent on another attribute of the same node (otherwise the text
            # does not depend on it on the other branch and two different declarations print alike)
            for a in sorted(need & BOOL_MODIFIERS):
                rs = [n for n in ast.walk(m.node) if isinstance(n, ast.Attribute) and isinstance(n.value, ast.Name)
                      and n.value.id == p and n.attr == a]
                if not rs:
                    continue
                free = []
                for n in rs:
                    dep = [src(t) for t, _pol in flat_guards(n) if not any(x is n for x in ast.walk(t)) and any(
                        isinstance(x, ast.Attribute) and isinstance(x.value, ast.Name) and x.value.id == p and
                        x.attr != a for x in ast.walk(t))]
                    if not dep:
                        free.append(n)
                obs.append(Ob("C12-R4", "%s:%s:%s-consulted-independently" % (lang, vname, a), _w(m, rs[0]), bool(free),
                              "every read of %s.%s in %s.%s happens only under a test of another attribute of the node; on "
                              "the other branch the emitted text does not depend on it" % (p, a, lang, vname)))
    return obs


# -- R5 positional assembly -------------------------------------------------------

def _children_order(repo, cname):
    """ordered attribute names of children() for ClassDeclaration / FunctionDeclaration / Lambda"""
    f = repo.method("src.ir.ast." + cname, "children", inherited=False)
    order = []

    def walk(e):
        if isinstance(e, ast.BinOp) and isinstance(e.op, ast.Add):
            walk(e.left)
            walk(e.right)
        elif isinstance(e, ast.Attribute) and src(e.value) == "self":
            if e.attr not in order:
                order.append(e.attr)
        elif isinstance(e, ast.List):
            for x in e.elts:
                walk(x)
        elif isinstance(e, ast.Name):
            for n in iter_own_nodes(f.node):
                if isinstance(n, ast.Assign) and src(n.targets[0]) == e.id:
                    walk(n.value)
    rets = [n for n in iter_own_nodes(f.node) if isinstance(n, ast.Return)]
    # the longest return lists every part
    for r in sorted(rets, key=lambda r: len(src(r.value))):
        walk(r.value)
    return order


class _Lin:
    """linear form over list-length symbols"""

    def __init__(self, m, children_name="children_res"):
        self.m = m
        self.node = m.params[1]
        self.cfg = cfg_of(m.node)

    def length_of(self, e, at):
        """symbol (attribute name) whose length the list expression e has, or None"""
        if isinstance(e, ast.Attribute) and src(e.value) == self.node:
            return e.attr
        if isinstance(e, ast.Name):
            defs = self.cfg.defs_reaching(e.id, at)
            if len(defs) == 1 and isinstance(defs[0][1], ast.ListComp):
                lc = defs[0][1]
                it = lc.generators[0].iter
                if isinstance(it, ast.Call) and src(it.func) == "enumerate":
                    it = it.args[0]
                if not lc.generators[0].ifs:
                    return self.length_of(it, defs[0][1])
        return None

    def lin(self, e, at, loopvar=None):
        """-> dict {symbol: coef, '1': const, 'i': coef} or None"""
        if isinstance(e, ast.Constant) and isinstance(e.value, int):
            return {"1": e.value}
        if isinstance(e, ast.Name):
            if e.id == loopvar:
                return {"i": 1}
            defs = self.cfg.defs_reaching(e.id, at)
            if len(defs) == 1 and isinstance(defs[0][1], ast.AST):
                return self.lin(defs[0][1], self.cfg.stmt(defs[0][0]), None)
            return None
        if isinstance(e, ast.Call) and src(e.func) == "len" and len(e.args) == 1:
            s = self.length_of(e.args[0], at)
            return {s: 1} if s else None
        if isinstance(e, ast.BinOp) and isinstance(e.op, ast.Add):
            a, b = self.lin(e.left, at, loopvar), self.lin(e.right, at, loopvar)
            if a is None or b is None:
                return None
            out = dict(a)
            for k, v in b.items():
                out[k] = out.get(k, 0) + v
            return {k: v for k, v in out.items() if v}
        return None


def r5_offsets(repo):
    obs = []
    plan = [("visit_class_decl", "ClassDeclaration"), ("visit_func_decl", "FunctionDeclaration"),
            ("visit_lambda", "Lambda")]
    for vname, cname in plan:
        order = _children_order(repo, cname)
        for lang in LANGS:
            m = _visitor(repo, lang, vname)
            L = _Lin(m)
            node = m.params[1]
            n_checked = 0
            problems = []
            for sub in [n for n in iter_own_nodes(m.node) if isinstance(n, ast.Subscript) and
                        src(n.value) == "children_res" and isinstance(n.ctx, ast.Load)]:
                sl = sub.slice
                # which part does this access belong to?  comprehension over enumerate(node.<part>)
                comp = None
                for a in ancestors(sub):
                    if isinstance(a, ast.ListComp):
                        comp = a
                        break
                if comp is not None and not isinstance(sl, ast.Slice):
                    it = comp.generators[0].iter
                    if isinstance(it, ast.Call) and src(it.func) == "enumerate":
                        it = it.args[0]
                    part = it.attr if isinstance(it, ast.Attribute) and src(it.value) == node else None
                    tgt = comp.generators[0].target
                    lv = tgt.elts[0].id if isinstance(tgt, ast.Tuple) else (tgt.id if isinstance(tgt, ast.Name) else None)
                    lf = L.lin(sl, sub, lv)
                    if part is None or lf is None or part not in order:
                        raise AnalysisError("cannot interpret `%s` in %s.%s" % (src(sub), lang, vname), rule="C12-R5",
                                            anchor=m.qualname)
                    want = {"i": 1}
                    for pr in order[:order.index(part)]:
                        want[pr] = 1
                    n_checked += 1
                    if lf != want:
                        problems.append("`%s` (results of node.%s): offset %s, children() order %s requires %s"
                                        % (src(sub), part, _fmt(lf), order, _fmt(want)))
                elif isinstance(sl, ast.Slice) and sl.lower is not None:
                    lo = L.lin(sl.lower, sub)
                    if lo is None:
                        raise AnalysisError("cannot interpret `%s` in %s.%s" % (src(sub), lang, vname), rule="C12-R5",
                                            anchor=m.qualname)
                    # the part whose results start at `lo`: the first part not contained in lo
                    starts = [p for p in order if p not in lo]
                    part = starts[0] if starts else None
                    want = {p: 1 for p in order[:order.index(part)]} if part else None
                    n_checked += 1
                    ok = part is not None and lo == want
                    if ok and sl.upper is not None:
                        hi = L.lin(sl.upper, sub)
                        w2 = dict(want)
                        w2[part] = 1
                        ok = hi == w2
                    if not ok:
                        problems.append("slice `%s`: lower bound %s does not start at a part boundary of %s"
                                        % (src(sub), _fmt(lo), order))
                elif isinstance(sl, ast.UnaryOp) and isinstance(sl.op, ast.USub) and const_value(sl.operand) == 1:
                    # children_res[-1]: the last child is the body
                    n_checked += 1
                    if order[-1] != "body":
                        problems.append("`%s` assumes the body is the last child; children() order is %s" % (src(sub), order))
            obs.append(Ob("C12-R5", "%s:%s:offsets-follow-children-order" % (lang, vname), _w(m), not problems,
                          "; ".join(problems) if problems else "%d indexed accesses agree with children() = %s" % (n_checked, order),
                          {"order": order, "checked": n_checked}))
    return obs


def _fmt(lf):
    if lf is None:
        return "?"
    parts = []
    for k, v in sorted(lf.items()):
        parts.append(("%d" % v) if k == "1" else (k if v == 1 else "%d*%s" % (v, k)))
    return " + ".join(parts) or "0"


# -- R6 result stack discipline ------------------------------------------------------

FIXED_ARITY = {}


def _arity(repo, kind):
    """fixed number of children of an IR class (children() returns a list literal on every path), else None"""
    if kind in FIXED_ARITY:
        return FIXED_ARITY[kind]
    c = repo.classes.get("src.ir.ast." + kind)
    res = None
    if c is not None:
        ch = c.lookup("children")
        if ch is not None:
            rets = [n for n in iter_own_nodes(ch.node) if isinstance(n, ast.Return)]
            lens = set()
            for r in rets:
                if isinstance(r.value, ast.List):
                    lens.add(len(r.value.elts))
                else:
                    lens.add(None)
            if len(lens) == 1 and None not in lens:
                res = lens.pop()
    FIXED_ARITY[kind] = res
    return res


class StackEffect:
    """Net pushes on _children_res along every path of a visitor, as a*L + b with L = len(children)."""

    def __init__(self, repo, cls, lang):
        self.repo = repo
        self.cls = cls
        self.lang = lang
        self.returns_value = lang in ("java", "groovy")
        self.disp = dispatch_table(repo)
        self.v2k = {v: k for k, v in self.disp.items()}
        self.summ = {}
        self.problems = {}

    def decorated(self, m):
        return any(src(d) == "append_to" for d in m.decorators)

    def summary(self, name, stack=()):
        """set of possible net values of method `name` (ints) or {'TOP'}"""
        if name in self.summ:
            return self.summ[name]
        if name in stack:
            return {1}
        m = self.cls.lookup(name)
        if m is None:
            return {"TOP"}
        saved = (getattr(self, "_m", None), getattr(self, "_stack", None), getattr(self, "_exits", None))
        exits = self._analyse(m, stack + (name,))
        self._m, self._stack, self._exits = saved
        vals = set()
        kind = self.v2k.get(name)
        ar = _arity(self.repo, kind) if kind else None
        for (a, b, lz, sl, nz, retval) in exits:
            # net = a*L + b - sl*[L >= 1]   (sl: loops over `children[:-1]` / `children[1:]`, one element short)
            if a == "TOP":
                vals.add("TOP")
                continue
            if lz:
                vs = [b]
            elif ar is not None:
                vs = [a * ar + b - (sl if ar >= 1 else 0)]
            elif a == 0:
                vs = [b - sl] if (nz or sl == 0) else [b - sl, b]
            else:
                vals.add("TOP:%d*L%+d" % (a, b))
                continue
            for v in vs:
                if self.returns_value and self.decorated(m):
                    if retval is False:
                        vals.add("no-return-value")
                    v += 1
                vals.add(v)
        self.summ[name] = vals
        return vals

    def _analyse(self, m, stack):
        self._m = m
        self._stack = stack
        self._exits = []
        states = self._block(m.node.body, [(0, 0, False, 0, False)])
        for s in states:
            self._exits.append(s + (False,))
        return self._exits

    def _block(self, stmts, states):
        for s in stmts:
            if not states:
                return []
            states = self._stmt(s, states)
        return states

    def _uniq(self, states):
        out = []
        for s in states:
            if s not in out:
                out.append(s)
        if len(out) > 24:
            return [("TOP", 0, False, 0, False)]
        return out

    def _stmt(self, s, states):
        if isinstance(s, (ast.FunctionDef, ast.ClassDef, ast.Pass, ast.Import, ast.ImportFrom)):
            return states
        if isinstance(s, ast.Return):
            states = self._apply_expr(s.value, states) if s.value is not None else states
            has_val = s.value is not None and not (isinstance(s.value, ast.Constant) and s.value.value is None)
            for st in states:
                self._exits.append(st + (has_val,))
            return []
        if isinstance(s, ast.Raise):
            return []
        if isinstance(s, ast.If):
            states = self._apply_expr(s.test, states)
            tz, fz = self._zero_knowledge(s.test)
            # a state that knows L == 0 and L >= 1 at once describes no execution
            a = self._block(s.body, [(x, y, z or tz, sl, nz or fz) for x, y, z, sl, nz in states
                                     if not ((z or tz) and (nz or fz))])
            b = self._block(s.orelse, [(x, y, z or fz, sl, nz or tz) for x, y, z, sl, nz in states
                                       if not ((z or fz) and (nz or tz))])
            return self._uniq(a + b)
        if isinstance(s, ast.For):
            states = self._apply_expr(s.iter, states)
            n_iter = self._iter_len(s.iter)
            body = self._block(s.body, [(0, 0, False, 0, False)])
            nets = {(a, b) for a, b, _z, _s, _n in body}
            if nets == {(0, 0)} or not body:
                return states
            if nets == {(0, 1)} and n_iter is not None:
                da, db = n_iter     # db == -1: a slice that is one element short (nothing at all when L == 0)
                return self._uniq([(x + da if x != "TOP" else x, y, z, sl + (1 if db == -1 else 0), nz)
                                   for x, y, z, sl, nz in states])
            return [("TOP", 0, False, 0, False)]
        if isinstance(s, ast.While):
            body = self._block(s.body, [(0, 0, False, 0, False)])
            if {(a, b) for a, b, _z, _s, _n in body} <= {(0, 0)}:
                return states
            return [("TOP", 0, False, 0, False)]
        if isinstance(s, ast.With):
            return self._block(s.body, states)
        if isinstance(s, ast.Try):
            a = self._block(s.body, list(states))
            for h in s.handlers:
                a = a + self._block(h.body, list(states))
            if s.finalbody:
                a = self._block(s.finalbody, a)
            return self._uniq(a)
        for e in ast.iter_child_nodes(s):
            if isinstance(e, ast.expr):
                states = self._apply_expr(e, states)
        return states

    def _zero_knowledge(self, test):
        """(L is 0 on the true branch, L is 0 on the false branch)"""
        t = " ".join(src(test).split())
        if t in ("len(children)", "children", "children_res", "len(children) > 0", "len(node.children())"):
            return False, True
        if t in ("not children", "not len(children)", "len(children) == 0", "not children_res"):
            return True, False
        return False, False

    def _iter_len(self, it):
        t = src(it)
        if t in ("children", "node.children()", "enumerate(children)", "enumerate(node.children())"):
            return (1, 0)
        if t in ("children[1:]", "children[:-1]", "node.children()[1:]"):
            return (1, -1)
        return None

    def _apply_expr(self, e, states):
        if e is None:
            return states
        delta_a, delta_b, top = 0, 0, False
        for c in [n for n in ast.walk(e) if isinstance(n, ast.Call)]:
            n = call_name(c)
            f = c.func
            if not isinstance(f, ast.Attribute):
                continue
            if n == "accept" and len(c.args) == 1 and src(c.args[0]) == "self":
                delta_b += 1
            elif n == "append" and src(f.value) == "self._children_res":
                delta_b += 1
            elif n in ("pop", "clear", "extend", "insert") and src(f.value) == "self._children_res":
                top = True
            elif n == "pop_children_res" and src(f.value) == "self":
                a0 = src(c.args[0]) if c.args else ""
                if a0 in ("children", "node.children()"):
                    delta_a -= 1
                else:
                    top = True
            elif src(f.value) == "self" and n.startswith("visit_") and n in self.disp.values() or \
                    (src(f.value) == "self" and n.startswith("visit_") and self.cls.lookup(n) is not None):
                vals = self.summary(n, self._stack)
                if vals == {1}:
                    delta_b += 1
                else:
                    top = True
        if top:
            return [("TOP", 0, False, 0, False)]
        if delta_a == 0 and delta_b == 0:
            return states
        return self._uniq([(x + delta_a if x != "TOP" else x, y + delta_b, z, sl, nz) for x, y, z, sl, nz in states])


def r6_stack(repo):
    obs = []
    disp = dispatch_table(repo)
    for lang in LANGS:
        cls = _cls(repo, lang)
        se = StackEffect(repo, cls, lang)
        for kind, vname in sorted(disp.items()):
            if vname == "visit_program":
                continue
            m = cls.lookup(vname)
            vals = se.summary(vname)
            ok = vals == {1}
            obs.append(Ob("C12-R6", "%s:%s:net-one-result" % (lang, vname), _w(m), ok,
                          "every path through %s.%s must leave exactly one new entry on the result stack (visit each "
                          "child, pop exactly their results, produce one string); possible net effects: %s"
                          % (lang, vname, sorted(map(str, vals)))))
        # the pop primitive
        p = cls.lookup("pop_children_res")
        body = " ".join(src(p.node).split())
        ok = "self._children_res[-len_c:]" in body and "self._children_res = self._children_res[:-len_c]" in body and \
            "len_c = len(%s)" % p.params[1] in body
        obs.append(Ob("C12-R6", "%s:pop_children_res:takes-and-removes-the-last-len(children)" % lang, _w(p), ok,
                      "pop_children_res(children) must return the last len(children) results and remove exactly those"))
        # the wrapper's sinks (Java/Groovy): exactly one sink per path
        if lang in ("java", "groovy"):
            w = repo.fn(cls.module.name + ".append_to").nested.get("inner")
            g = cfg_of(w.node)
            sinks = [n for n in iter_own_nodes(w.node) if
                     (isinstance(n, ast.Assign) and src(n.targets[0]) == "self._main_method") or
                     (isinstance(n, ast.Call) and call_name(n) == "append" and
                      src(n.func.value) in ("self._main_children", "self._children_res"))]
            nodes = [g.node(s) for s in sinks]
            one = len(sinks) == 3 and not g.path_exists_avoiding(g.entry, g.exit, nodes) and \
                all(not g.path_exists_avoiding(a, b, []) for a in nodes for b in nodes if a != b)
            vals_ok = all(src(s.value if isinstance(s, ast.Assign) else s.args[0]) == "res" for s in sinks)
            obs.append(Ob("C12-R6", "%s:append_to:exactly-one-sink-per-path" % lang, _w(w), one and vals_ok,
                          "the wrapper must route the visitor's result to exactly one of _main_method / _main_children / "
                          "_children_res on every path"))
    return obs


def r7_boolean_attributes(repo):
    """Every visitor: a boolean attribute of the visited node (`is_*`, the modifiers) that the visitor reads at all is
    consulted at least once without being control-dependent on another attribute of the node - otherwise the text does
    not depend on it on the other branch (a negated type test printed only for plain variables, `final` only without
    `override`, ...)."""
    obs = []
    for lang in LANGS:
        cls = _cls(repo, lang)
        for name, m in sorted(cls.methods.items()):
            if not name.startswith("visit_") or len(m.params) < 2:
                continue
            p = m.params[1]
            reads = {}
            for n in ast.walk(m.node):
                if not (isinstance(n, ast.Attribute) and (n.attr.startswith("is_") or n.attr in BOOL_MODIFIERS)):
                    continue
                if isinstance(getattr(n, "_parent", None), ast.Call) and n._parent.func is n:
                    continue      # a method call (is_parameterized()), not an attribute
                base = n.value
                while isinstance(base, ast.Attribute):
                    base = base.value
                if not (isinstance(base, ast.Name) and base.id == p):
                    continue
                dep = []
                for t, _pol in flat_guards(n):
                    if any(x is n for x in ast.walk(t)):
                        continue
                    tt = resolve_local(m.node, t, n) if isinstance(t, ast.Name) else t
                    if any(isinstance(x, ast.Name) and x.id == p for x in ast.walk(tt)) and src(n) not in src(tt):
                        dep.append(src(tt)[:60])
                reads.setdefault(src(n), []).append((n, dep))
            for a, sites in sorted(reads.items()):
                free = [n for n, dep in sites if not dep]
                obs.append(Ob("C12-R7", "%s:%s:%s-consulted-independently" % (lang, name, a), _w(m, sites[0][0]), bool(free),
                              "every read of %s in %s.%s happens only under a test of another attribute of the node (%s): on "
                              "the other branch the emitted text does not depend on it"
                              % (a, lang, name, sorted({d for _n, dep in sites for d in dep})[:3])))
    return obs


def r8_operator_text(repo):
    """'every operator of the program appears': the translators print an operator through `format(.., node.operator)` /
    `str(node.operator)`, i.e. through Operator.__str__.  For every operator name the IR defines, the text must be the name,
    prefixed with `!` when negated (`!=`, `!==`, `!is`, `!in` in all four languages).  Decided by evaluating __str__ over
    the operator names that occur in `Operator(...)` constructions."""
    from ..absint import AObj, run
    obs = []
    op = repo.cls("src.ir.ast.Operator")
    m = op.lookup("__str__")
    names = set()
    for mod in repo.modules.values():
        for k in ast.walk(mod.tree):
            if isinstance(k, ast.Call) and call_name(k) == "Operator" and k.args and isinstance(k.args[0], ast.Constant) and \
                    isinstance(k.args[0].value, str):
                names.add(k.args[0].value)
    bad = []
    for nm in sorted(names):
        for neg in (False, True):
            me = AObj("Operator(%r, is_not=%s)" % (nm, neg), is_not=neg)
            me.attrs["name"] = nm
            me.cls = op
            got = run(m.node, {m.params[0]: me, "__class__": m.cls}, {})
            want = ("!" if neg else "") + nm
            if got != want:
                bad.append("%s prints %r (must be %r)" % (me.name, got, want))
    obs.append(Ob("C12-R8", "Operator.__str__:name-with-!-when-negated", _w(m), bool(names) and not bad,
                  "%d operator names x {plain, negated} evaluated; wrong texts: %s" % (len(names), bad[:4])))
    obs.append(Ob("C12-R8", "operator-names>=10", "src/ir/ast.py", len(names) >= 10, "%d names: %s" % (len(names), sorted(names))))
    return obs


JAVA_PRIMITIVES = {"IntegerType": "int", "ShortType": "short", "LongType": "long", "ByteType": "byte", "FloatType": "float",
                   "DoubleType": "double", "CharType": "char", "BooleanType": "boolean"}


def r9_java_primitive_names(repo):
    """'a declared type is printed': the Java translator prints a type through get_name().  A primitive built-in must
    print as its Java keyword (JLS 4.2), the boxed one as its wrapper class (the default `name` of the constructor).
    Decided by evaluating get_name() along the class's MRO (constant propagation, no execution)."""
    from ..absint import AObj, call_method
    obs = []
    for cn, kw in sorted(JAVA_PRIMITIVES.items()):
        c = repo.cls("src.ir.java_types." + cn)
        init = c.lookup("__init__")
        a = init.node.args
        params = [x.arg for x in a.args]
        defaults = dict(zip(params[len(params) - len(a.defaults):], a.defaults))
        boxed = const_value(defaults.get("name")) if "name" in defaults else None
        if not isinstance(boxed, str):
            raise AnalysisError("%s.__init__ has no literal default name" % cn, rule="C12-R9", anchor=c.qualname)
        for prim, want in ((True, kw), (False, boxed)):
            me = AObj("%s(primitive=%s)" % (cn, prim), primitive=prim, supertypes=[])
            me.attrs["name"] = boxed
            me.cls = c
            got = call_method(me, c, "get_name", [], {})
            obs.append(Ob("C12-R9", "java:%s:%s-prints-%s" % (cn, "primitive" if prim else "boxed", want), _w(c.lookup("get_name")),
                          got == want, "%s.get_name() evaluates to %r, Java spells it %r" % (me.name, got, want)))
    return obs


def r10_variance(repo):
    """the Kotlin / Scala printers take the keyword from variance_to_str()"""
    return kernel.variance_table(repo, "C12-R10")


def rules():
    return [
        RuleSpec("C12-R1", "annotation printed iff carried; writer/reader agreement (R1+R2)", 18, r1_r2_annotations),
        RuleSpec("C12-R3", "explicit type arguments (visit_new, visit_func_call)", 8, r3_type_args),
        RuleSpec("C12-R4", "declaration visitors read every expressible attribute", 24, r4_inventory),
        RuleSpec("C12-R5", "positional assembly follows children() order", 12, r5_offsets),
        RuleSpec("C12-R6", "result-stack discipline of every visitor", 120, r6_stack),
        RuleSpec("C12-R7", "boolean attributes of the node are consulted independently (all visitors)", 25, r7_boolean_attributes),
        RuleSpec("C12-R8", "operator text (Operator.__str__ over every operator name of the IR)", 2, r8_operator_text),
        RuleSpec("C12-R9", "Java spelling of primitive and boxed built-in types (get_name along the MRO)", 16, r9_java_primitive_names),
        RuleSpec("C12-R10", "variance keywords: Covariant prints `out`, Contravariant `in`, Invariant nothing", 4, r10_variance),
        RuleSpec("C12-R11", "brackets and quotes: the literals every translator method (and every get_name of a type) evaluates are balanced on every path", 180,
                 r11_balance,
                 "induction over the tree: balanced children texts + balanced own literals on every decision-consistent "
                 "path = balanced translation; (), {}, [], <>, double quotes"),
        RuleSpec("C12-R13", "a rendered `<type> <name>` is taken apart at its last blank only", 1, r13_no_first_token),
        RuleSpec("C12-R12", "the lists of a declaration are rendered independently of each other (no elif chain over two lists)", 40,
                 r12_collections_independent),
    ]


def r12_collections_independent(repo):
    """The program's lists (superclasses, interfaces, fields, functions, type parameters, arguments) are rendered with
    `<sep>.join(<list>)`.  Whether one list is printed must not depend on another list being empty: an `elif` chain over
    two different lists drops the second whenever the first is non-empty (a Java class with a superclass *and* interfaces
    loses its `implements` clause).  Decided on the guards of every join site: no negative truthiness test of another
    list that the same method also joins."""
    obs = []
    for lang in LANGS:
        m = repo.module("src.translators." + lang)
        for q, f in sorted(repo.functions.items()):
            if f.module is not m:
                continue
            joins = [n for n in ast.walk(f.node) if isinstance(n, ast.Call) and isinstance(n.func, ast.Attribute) and
                     n.func.attr == "join" and n.args and isinstance(n.args[0], ast.Name)]
            names = {j.args[0].id for j in joins}
            for j in joins:
                x = j.args[0].id
                bad = [t.id for t, p in flat_guards(j) if isinstance(t, ast.Name) and t.id in names and t.id != x and not p]
                obs.append(Ob("C12-R12", "%s:%s:join(%s)@%d:independent-of-other-lists" % (
                    lang, f.name, x, sum(1 for o in obs if o.key.startswith("%s:%s:join(%s)" % (lang, f.name, x)))),
                    _w(f, j), not bad,
                    "`%s` is printed only when %s is empty: the lists of a declaration are rendered independently of each "
                    "other" % (src(j)[:60], sorted(set(bad)))))
    return obs


def r13_no_first_token(repo):
    """A rendered declaration is `<type> <name>` and a type may contain blanks (`Function1<A, B>`, `? super T`): where a
    translator takes such a text apart again, the name is its last token and the type is everything before the last blank
    (`rsplit(' ', 1)[0]`, `split()[-1]`).  Taking a *leading* token of a whitespace split (`split()[0]`, also through a
    list of split results) truncates every type with a blank in it."""
    obs = []
    for lang in LANGS:
        m = repo.module("src.translators." + lang)
        for q, f in sorted(repo.functions.items()):
            if f.module is not m or f.outer is not None:
                continue
            splits = [c for c in ast.walk(f.node) if isinstance(c, ast.Call) and isinstance(c.func, ast.Attribute) and
                      c.func.attr == "split" and len(c.args) <= 1 and not c.keywords]
            if not splits:
                continue
            holders = set()
            bad = []
            for c in splits:
                par = getattr(c, "_parent", None)
                if isinstance(par, ast.Subscript) and par.value is c:
                    k = const_value(par.slice, None)
                    if isinstance(k, int) and k >= 0:
                        bad.append(src(par))
                    continue
                # the pieces are kept: N = x.split() / L = [x.split() for x in ..] / L.append(x.split())
                st = par
                while st is not None and not isinstance(st, ast.stmt):
                    st = getattr(st, "_parent", None)
                if isinstance(st, ast.Assign) and isinstance(st.targets[0], ast.Name):
                    holders.add(st.targets[0].id)
            # names that range over a holder
            for n in ast.walk(f.node):
                if isinstance(n, (ast.For, ast.comprehension)) and isinstance(n.iter, ast.Name) and n.iter.id in holders:
                    holders |= {x.id for x in ast.walk(n.target) if isinstance(x, ast.Name)}
            for n in ast.walk(f.node):
                if isinstance(n, ast.Subscript) and isinstance(n.value, ast.Name) and n.value.id in holders:
                    k = const_value(n.slice, None)
                    if isinstance(k, int) and k >= 0 and isinstance(getattr(n, "ctx", None), ast.Load):
                        bad.append(src(n))
            obs.append(Ob("C12-R13", "%s:%s:rendered-text-split-at-its-last-blank" % (lang, f.name), _w(f, splits[0]), not bad,
                          "%s takes leading tokens of a whitespace split of rendered text (%s): a type with a blank in it "
                          "(`Function1<A, B>`) is cut short; the name is the last token, the type everything before the last "
                          "blank" % (f.name, sorted(set(bad)))))
    return obs


def r11_balance(repo):
    from .. import balance
    obs = []
    for lang in LANGS:
        obs += balance.check_module(repo, "src.translators." + lang, "C12-R11", lang, Ob)
    obs += balance.check_module(repo, "src.translators.base", "C12-R11", "base", Ob)
    # the names of types are printed by the types themselves: get_name() of the type representation and of the built-in
    # types of the four languages (the __str__ methods are debugging output and are not judged)
    for m in ("src.ir.types", "src.ir.builtins", "src.ir.java_types", "src.ir.kotlin_types", "src.ir.groovy_types",
              "src.ir.scala_types"):
        obs += balance.check_module(repo, m, "C12-R11", m.rsplit(".", 1)[-1], Ob, only_names={"get_name", "variance_to_str"})
    return obs


# -- variants -------------------------------------------------------------------------

def _v_kotlin_unguarded_inferred(tree):
    f = V.find_def(tree, "KotlinTranslator.visit_var_decl")
    iff = V.one([n for n in f.body if isinstance(n, ast.If) and ast.unparse(n.test) == "node.var_type is not None"
                 and "get_type_name" in ast.unparse(n)])
    V.replace_node(tree, iff, V.parse_stmts("res += ': ' + self.get_type_name(node.inferred_type)")[0])


def _v_scala_ret_always(tree):
    f = V.find_def(tree, "ScalaTranslator.visit_func_decl")
    iff = V.one([n for n in f.body if isinstance(n, ast.If) and ast.unparse(n.test) == "node.ret_type"])
    V.replace_node(tree, iff, V.parse_stmts("res += ': ' + self.get_type_name(node.get_type())")[0])


def _v_scala_new_ignores_flag(tree):
    f = V.find_def(tree, "ScalaTranslator.visit_new")
    iff = V.one([n for n in ast.walk(f) if isinstance(n, ast.If) and "can_infer_type_args" in ast.unparse(n.test)])
    iff.test = V.parse_expr("False")


def _v_kotlin_call_drops_args(tree):
    f = V.find_def(tree, "KotlinTranslator.visit_func_call")
    x = V.one([n for n in ast.walk(f) if isinstance(n, ast.IfExp) and "type_args" in ast.unparse(n.test)])
    x.test = V.parse_expr("node.type_args and False")


def _v_java_field_final(tree):
    f = V.find_def(tree, "JavaTranslator.visit_field_decl")
    for n in ast.walk(f):
        if isinstance(n, ast.Attribute) and n.attr == "is_final":
            n.attr = "can_override"


def _v_kotlin_override_dropped(tree):
    f = V.find_def(tree, "KotlinTranslator.visit_func_decl")
    st = V.one([n for n in f.body if isinstance(n, ast.AugAssign) and "override" in ast.unparse(n)])
    V.remove_stmt(tree, st)


def _v_swap_offsets(tree):
    f = V.find_def(tree, "GroovyTranslator.visit_class_decl")
    c = V.one([n for n in ast.walk(f) if isinstance(n, ast.ListComp) and "node.functions" in ast.unparse(n)])
    c.elt.slice = V.parse_expr("i + len_fields")


def _v_func_params_after(tree):
    f = V.find_def(tree, "ScalaTranslator.visit_func_decl")
    c = V.one([n for n in ast.walk(f) if isinstance(n, ast.ListComp) and "node.params" in ast.unparse(n)])
    c.elt.slice = V.parse_expr("i + len(node.type_parameters)")


def _v_skip_pop(tree):
    f = V.find_def(tree, "KotlinTranslator.visit_call_argument")
    st = V.one([n for n in f.body if isinstance(n, ast.Assign) and "pop_children_res" in ast.unparse(n.value)])
    st.value = V.parse_expr("self._children_res[-1:]")


def _v_double_append(tree):
    f = V.find_def(tree, "ScalaTranslator.visit_field_decl")
    f.body.append(f.body[-1])


def _v_java_no_return(tree):
    f = V.find_def(tree, "JavaTranslator.visit_variable")
    rets = [n for n in ast.walk(f) if isinstance(n, ast.Return)]
    if not rets:
        raise V.SkipVariant("no return")
    rets[0].value = None


def _v_partial_visit(tree):
    f = V.find_def(tree, "GroovyTranslator.visit_new")
    lp = V.one([n for n in f.body if isinstance(n, ast.For)])
    lp.iter = V.parse_expr("children[1:]")


def _v_groovy_closure_type(tree):
    f = V.find_def(tree, "GroovyTranslator.visit_func_decl")
    x = [n for n in ast.walk(f) if isinstance(n, ast.IfExp) and "Closure<" in ast.unparse(n)]
    if not x:
        raise V.SkipVariant("closure form")
    x[0].test = V.parse_expr("not ret_type or ret_type == gt.Void")


def _v_kotlin_args_only_with_receiver(tree):
    f = V.find_def(tree, "KotlinTranslator.visit_func_call")
    fm = [n for n in ast.walk(f) if V.is_call_named(n, "format") and isinstance(n.func.value, ast.Constant)
          and n.func.value.value == "{}{}{}({})"]
    if len(fm) != 1:
        raise V.SkipVariant("formats")
    c = fm[0]
    c.func.value.value = "{}{}({})"
    c.args = [a for a in c.args if ast.unparse(a) != "type_args"]


def _t_rename(tree):
    f = V.find_def(tree, "KotlinTranslator.visit_class_decl")
    V.rename_local(f, "len_fields", "n_fields")
    V.rename_local(f, "field_res", "fields_txt")


def _drop_char(fname, ch, nth=0):
    def edit(tree):
        f = V.find_def(tree, fname)
        cs = [n for n in ast.walk(f) if isinstance(n, ast.Constant) and isinstance(n.value, str) and ch in n.value]
        if len(cs) <= nth:
            raise V.SkipVariant("no literal with %r in %s" % (ch, fname))
        c = cs[nth]
        i = c.value.rindex(ch)
        c.value = c.value[:i] + c.value[i + 1:]
    return edit


def _t_split_brace_into_helper(tree):
    """twin: the closing brace of a Kotlin class body comes from a new helper method (judged inside its caller)"""
    cls = V.find_def(tree, "KotlinTranslator")
    f = V.find_def(tree, "KotlinTranslator.visit_class_decl")
    cs = [n for n in ast.walk(f) if isinstance(n, ast.Constant) and n.value == "}"]
    if not cs:
        raise V.SkipVariant("no closing brace literal")
    V.replace_node(tree, cs[0], V.parse_expr("self._close_body()"))
    cls.body.append(ast.parse("def _close_body(self):\n    return '}'").body[0])


def variants():
    return [
        V.Variant("kotlin: a class body is never closed", "src/translators/kotlin.py",
                  _drop_char("KotlinTranslator.visit_class_decl", "}", 1), {"C12-R11"}),
        V.Variant("scala: type parameters of a class lose their closing bracket", "src/translators/scala.py",
                  _drop_char("ScalaTranslator.visit_class_decl", "]"), {"C12-R11"}),
        V.Variant("groovy: a call loses its closing parenthesis", "src/translators/groovy.py",
                  _drop_char("GroovyTranslator.visit_func_call", ")"), {"C12-R11"}),
        V.Variant("kotlin: string constant opened but not closed", "src/translators/kotlin.py",
                  _drop_char("KotlinTranslator.visit_string_constant", '"'), {"C12-R11"}),
        V.Variant("types: the name of a parameterized type loses its closing angle bracket", "src/ir/types.py",
                  _drop_char("ParameterizedType.get_name", ">"), {"C12-R11"}),
        V.Variant("twin: the closing brace comes from a new helper method", "src/translators/kotlin.py",
                  _t_split_brace_into_helper, None, twin=True),
        V.Variant("kotlin: variable type printed from inferred_type, unguarded", "src/translators/kotlin.py", _v_kotlin_unguarded_inferred, {"C12-R1"}),
        V.Variant("scala: function return type always printed", "src/translators/scala.py", _v_scala_ret_always, {"C12-R1"}),
        V.Variant("scala: visit_new ignores can_infer_type_args", "src/translators/scala.py", _v_scala_new_ignores_flag, {"C12-R3"}),
        V.Variant("kotlin: explicit call type arguments never printed", "src/translators/kotlin.py", _v_kotlin_call_drops_args, {"C12-R3"}),
        V.Variant("java: field finality not read", "src/translators/java.py", _v_java_field_final, {"C12-R4"}),
        V.Variant("kotlin: override modifier dropped", "src/translators/kotlin.py", _v_kotlin_override_dropped, {"C12-R4"}),
        V.Variant("groovy: function results read at the superclass offset", "src/translators/groovy.py", _v_swap_offsets, {"C12-R5"}),
        V.Variant("scala: parameter results read after the type parameters", "src/translators/scala.py", _v_func_params_after, {"C12-R5"}),
        V.Variant("kotlin: visit_call_argument peeks instead of popping", "src/translators/kotlin.py", _v_skip_pop, {"C12-R6"}),
        V.Variant("scala: field declaration appended twice", "src/translators/scala.py", _v_double_append, {"C12-R6"}),
        V.Variant("java: a visitor returns nothing", "src/translators/java.py", _v_java_no_return, {"C12-R6"}),
        V.Variant("groovy: visit_new skips its first child", "src/translators/groovy.py", _v_partial_visit, {"C12-R6"}),
        V.Variant("groovy: closure form decided by the inferred type", "src/translators/groovy.py", _v_groovy_closure_type, {"C12-R1"}),
        V.Variant("kotlin: type arguments only printed for calls with a receiver", "src/translators/kotlin.py", _v_kotlin_args_only_with_receiver, {"C12-R3"}),
        V.Variant("twin: rename locals in Kotlin visit_class_decl", "src/translators/kotlin.py", _t_rename, None, twin=True),
        V.Variant("twin: whole tree reformatted by ast.unparse", None, None, None, twin=True),
    ]
