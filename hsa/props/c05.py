"""C05 - generated programs are closed and respect scoping and mutability rules (structural part)."""
import ast
import re

from ..repo import AnalysisError
from ..report import Ob, RuleSpec
from ..astutil import (src, flat_guards, flatten_guard, calls_in, call_name, kwarg, const_value,
                       iter_own_nodes, ancestors, is_within)
from ..cfg import cfg_of, Prov
from .. import variants as V
from .. import kernel

PROPERTY = "C05"
TITLE = "Generated programs are closed and respect scoping and mutability rules"
DECIDES = ("Decided: the guards that make an ill-scoped or ill-mutable reference impossible to select (only non-final "
           "variables/fields enter the assignment candidates, only REGULAR classes are instantiated, Java lambda bodies "
           "capture only final variables - sibling rule over every reader of the variables in scope), the order "
           "'register the declaration, then generate its body' with the class blacklist released afterwards, the "
           "provenance of every declaration name (identifier pool / reserved forms), the pool discipline (word() removes "
           "what it returns, reserved words are removed from both pools, args.py applies it for the target language) and "
           "a data check of the resource files against the hard keywords of Java 17, Kotlin, Groovy 4 and Scala 3; callees "
           "generated for a type with type variables stay in their scope, and after type parameters are removed from scope "
           "every remaining bound is rewritten by recursive substitution with the removal map. Also: the counter behind lambda shadow names is one monotone stream bound once in __init__.")
NOT_DECIDED = ("closedness of each generated program (depends on the symbol table behaving as C16 states on the "
               "histories the generator produces, and on arities/visibility computed at run time).")

GEN = "src.generators.generator.Generator"

# Hard (reserved) keywords; contextual / soft keywords are deliberately not listed.
HARD = {
    "java": """abstract assert boolean break byte case catch char class const continue default do double else enum
        extends final finally float for goto if implements import instanceof int interface long native new package
        private protected public return short static strictfp super switch synchronized this throw throws transient
        try void volatile while true false null""".split(),
    "kotlin": """as break class continue do else false for fun if in interface is null object package return super this
        throw true try typealias typeof val var when while""".split(),
    "groovy": """abstract as assert boolean break byte case catch char class const continue def default do double else
        enum extends false final finally float for goto if implements import in instanceof int interface long native
        new null package private protected public return short static strictfp super switch synchronized this
        threadsafe throw throws transient true try void volatile while""".split(),
    "scala": """abstract case catch class def do else enum export extends false final finally for given if implicit
        import lazy match new null object override package private protected return sealed super then throw trait true
        try type val var while with yield""".split(),
}
# words that the translators themselves put next to identifiers are escaped where the language allows it
ESCAPED = {"scala": "the Scala translator prints identifiers in back-quotes only at call sites, not at declarations"}


def _w(f, node=None):
    return "%s:%d" % (f.module.relpath, (node or f.node).lineno)


def _g(node, stop=None):
    return [(src(t), p) for t, p in flat_guards(node, stop)]


def _m(repo, name):
    return repo.method(GEN, name, inherited=False)


def r1_non_final_targets(repo):
    obs = []
    f = _m(repo, "_get_assignable_vars")
    last = f.node.body[-1]
    if not (isinstance(last, ast.Return) and isinstance(last.value, ast.Name)):
        raise AnalysisError("_get_assignable_vars does not end in `return <list>`", rule="C05-R1", anchor=f.qualname)
    lst = last.value.id
    apps = [c for c in calls_in(f.node) if call_name(c) == "append" and src(c.func.value) == lst]
    for i, a in enumerate(apps):
        gs = _g(a)
        elem = a.args[0]
        tgt = src(elem.elts[1]) if isinstance(elem, ast.Tuple) and len(elem.elts) == 2 else src(elem)
        ok = False
        why = ""
        for s, pol in gs:
            t = " ".join(s.split())
            if pol is False and t in ("getattr(var, 'is_final', True)", "var.is_final", "field.is_final"):
                ok = True
            if pol is True and t in ("not getattr(var, 'is_final', True)",):
                ok = True
        # the tested object must be the one appended (or the field it was built from)
        tested = [s for s, pol in gs if "is_final" in s]
        if ok:
            subj = "var" if tgt == "var" else "field"
            ok = any(subj in s for s in tested)
            if any("getattr" in s and "False)" in s for s in tested):
                ok = False
                why = " (default of getattr(..., 'is_final', <default>) must be True so that objects lacking the attribute count as final)"
        obs.append(Ob("C05-R1", "_get_assignable_vars:append#%d:%s" % (i, tgt), _w(f, a), ok,
                      "only non-final variables / fields may become assignment targets; guards %s%s" % (gs, why)))
    if len(apps) < 2:
        raise AnalysisError("_get_assignable_vars: fewer append sites than confirmed", rule="C05-R1", anchor=f.qualname)
    f = _m(repo, "_get_classes_with_assignable_fields")
    apps = [c for c in calls_in(f.node) if call_name(c) == "append" and src(c.func.value) == "classes"]
    ok = len(apps) == 1 and ("field.is_final", False) in _g(apps[0]) and src(apps[0].args[0].elts[1]) == "field"
    obs.append(Ob("C05-R1", "_get_classes_with_assignable_fields:only-non-final-fields", _w(f), ok,
                  "a (class, field) pair may be recorded only for `not field.is_final`"))
    # what is finally returned derives from that list only
    prov = Prov(f.node, passthrough={"choice"})
    ret = [n for n in iter_own_nodes(f.node) if isinstance(n, ast.Return) and n.value is not None and
           const_value(n.value, 0) is not None]
    ok2 = False
    if ret:
        lp = [n for n in iter_own_nodes(f.node) if isinstance(n, ast.For) and src(n.iter) == "classes"]
        ok2 = len(lp) == 1
    obs.append(Ob("C05-R1", "_get_classes_with_assignable_fields:result-built-from-the-filtered-list", _w(f), ok2,
                  "the returned (type, field) must come from the loop over the filtered `classes` list"))
    f = _m(repo, "gen_assignment")
    fin = [n for n in iter_own_nodes(f.node) if isinstance(n, ast.Assign) and src(n.targets[0]) == "var_decl.is_final"]
    asg = [c for c in calls_in(f.node) if call_name(c) == "Assignment" and src(c.args[0]) == "var_decl.name"]
    g = cfg_of(f.node)
    ok = len(fin) == 1 and const_value(fin[0].value, 1) is False and len(asg) == 1 and \
        g.dominates(g.node(fin[0]), g.node(asg[0]))
    obs.append(Ob("C05-R1", "gen_assignment:fallback-variable-made-non-final", _w(f), ok,
                  "the freshly generated fallback variable must be made non-final before it is assigned"))
    ch = [c for c in calls_in(f.node) if call_name(c) == "choice"]
    ok = len(ch) == 1 and src(ch[0].args[0]) == "variables"
    vd = g.defs_reaching("variables", ch[0]) if ok else []
    srcs_ok = all((isinstance(d[1], ast.Call) and call_name(d[1]) == "_get_assignable_vars") or
                  (isinstance(d[1], ast.List) and "field" in src(d[1])) for d in vd)
    obs.append(Ob("C05-R1", "gen_assignment:target-chosen-from-the-filtered-candidates", _w(f), ok and srcs_ok and bool(vd),
                  "the assignment target is chosen from _get_assignable_vars() / _get_classes_with_assignable_fields() only"))
    return obs


def r2_concrete_classes(repo):
    obs = []
    f = _m(repo, "_get_subclass")
    apps = [c for c in calls_in(f.node) if call_name(c) == "append" and src(c.func.value) == "subclasses"]
    ok = len(apps) >= 1 and all(("c.class_type == ast.ClassDeclaration.REGULAR", True) in _g(a) for a in apps)
    obs.append(Ob("C05-R2", "_get_subclass:only-REGULAR-classes", _w(f), ok,
                  "interfaces and abstract classes must be skipped before a class becomes an instantiation candidate"))
    rets = [n for n in iter_own_nodes(f.node) if isinstance(n, ast.Return) and n.value is not None and
            const_value(n.value, 0) is not None]
    ok = all("subclasses" in src(r.value) for r in rets) and bool(rets)
    obs.append(Ob("C05-R2", "_get_subclass:returns-a-candidate", _w(f), ok, "the result is drawn from the filtered list"))
    m = repo.module("src.generators.generator")
    sites = []
    for fn in repo.functions.values():
        if fn.module is m:
            for c in calls_in(fn.node):
                if call_name(c) == "New" and src(c.func) in ("ast.New", "New"):
                    sites.append((fn, c))
    for fn, c in sites:
        t = c.args[0]
        s = src(t)
        ok, why = False, ""
        if s in ("self.bt_factory.get_any_type()", "self.bt_factory.get_void_type()"):
            ok, why = True, "built-in top / void type"
        elif isinstance(t, ast.Name):
            prov = Prov(fn.node, passthrough={"get_type", "new"})
            srcs = [x for x in prov.sources(t, at=c) if isinstance(x, ast.Call)]
            ok = any(call_name(x) == "_get_subclass" for x in srcs)
            why = "class comes from _get_subclass" if ok else "class of the New expression does not derive from _get_subclass: %s" % [src(x)[:40] for x in srcs]
        obs.append(Ob("C05-R2", "New@%s:%d" % (fn.name, [x[1] for x in sites if x[0] is fn].index(c)), _w(fn, c), ok, why))
    if len(sites) < 3:
        raise AnalysisError("New construction sites: %d" % len(sites), rule="C05-R2")
    return obs


def r3_java_lambda_capture(repo):
    obs = []
    cls = repo.cls(GEN)
    readers = []
    for name, m in cls.methods.items():
        for c in calls_in(m.node):
            if call_name(c) == "get_vars" and src(c.func.value) == "self.context" and c.args and \
                    src(c.args[0]) == "self.namespace":
                readers.append((m, c))
        for sub in m.nested.values():
            for c in calls_in(sub.node):
                if call_name(c) == "get_vars" and src(c.func.value) == "self.context" and c.args and \
                        src(c.args[0]) == "self.namespace":
                    readers.append((m, c))
    seen = set()
    for m, c in readers:
        if m.qualname in seen:
            continue
        seen.add(m.qualname)
        body = m.node
        consults = [n for n in ast.walk(body) if isinstance(n, ast.If) and "self._inside_java_lambda" in src(n.test)]
        ok, how = False, ""
        for iff in consults:
            txt = " ".join(src(iff).split())
            if "is_final" in txt and ("filter(" in txt or " for " in txt):
                ok, how = True, "filters the variables by is_final under self._inside_java_lambda"
            if any(isinstance(s, ast.Continue) for s in iff.body) and src(iff.test) == "self._inside_java_lambda":
                ok, how = True, "skips every variable under self._inside_java_lambda"
        if not ok:
            # keeps only final declarations regardless of the flag
            for lc in [n for n in ast.walk(body) if isinstance(n, (ast.ListComp, ast.GeneratorExp))]:
                if any(x is c for x in ast.walk(lc)) and any("is_final" in src(i) and "True)" in src(i)
                                                             for g_ in lc.generators for i in g_.ifs):
                    ok, how = True, "keeps only is_final declarations (default True)"
        obs.append(Ob("C05-R3", "reader:%s" % m.name, _w(m, c), ok,
                      how or "%s reads the variables in scope (self.context.get_vars(self.namespace)) to pick something to "
                             "reference but neither consults self._inside_java_lambda nor keeps only final declarations: inside a "
                             "Java lambda only (effectively) final variables may be captured" % m.name))
    if len(seen) < 6:
        raise AnalysisError("only %d readers of the variables in scope" % len(seen), rule="C05-R3", anchor=GEN)
    # the flag is restored wherever it is set
    for name, m in sorted(cls.methods.items()):
        sets = [n for n in iter_own_nodes(m.node) if isinstance(n, ast.Assign) and
                src(n.targets[0]) == "self._inside_java_lambda"]
        if not sets or name == "__init__":
            continue
        g = cfg_of(m.node)
        saves = [n for n in iter_own_nodes(m.node) if isinstance(n, ast.Assign) and src(n.value) == "self._inside_java_lambda"]
        restores = [s for s in sets if saves and src(s.value) in [src(x.targets[0]) for x in saves]]
        news = [s for s in sets if s not in restores]
        ok = bool(saves) and bool(restores) and bool(news)
        assigned = {t.id for n in iter_own_nodes(m.node) if isinstance(n, (ast.Assign, ast.AugAssign))
                    for t in (n.targets if isinstance(n, ast.Assign) else [n.target]) if isinstance(t, ast.Name)}
        for nw in news:
            # every path from the set to the exit passes a restore ...
            plain = not g.path_exists_avoiding(g.node(nw), g.exit, [g.node(r) for r in restores])
            # ... or set and restore sit under the same test of names that are never assigned (repeated guard idiom)
            gn = _g(nw)
            paired = bool(gn) and any(_g(r) == gn for r in restores) and \
                not ({x.id for t, _p in flat_guards(nw) for x in ast.walk(t) if isinstance(x, ast.Name)} & assigned)
            ok = ok and (plain or paired)
            ok = ok and any(g.dominates(g.node(sv), g.node(nw)) or (_g(sv) == gn and sv.lineno < nw.lineno) for sv in saves)
        obs.append(Ob("C05-R3", "flag-restored:%s" % name, _w(m), ok,
                      "%s sets self._inside_java_lambda: the previous value must be saved before and restored on every "
                      "path to the exit" % name))
    return obs


def r4_register_before_body(repo):
    obs = []
    # gen_func_decl
    f = _m(repo, "gen_func_decl")
    g = cfg_of(f.node)
    reg = [c for c in calls_in(f.node) if call_name(c) == "_add_node_to_parent" and src(c.args[1]) == "func"]
    body = [c for c in calls_in(f.node) if call_name(c) == "_gen_func_body"]
    pvars = [c for c in calls_in(f.node) if call_name(c) == "add_var" and "self.namespace" == src(c.args[0])]
    ok = len(reg) == 1 and len(body) == 1 and g.dominates(g.node(reg[0]), g.node(body[0])) and \
        bool(pvars) and all(c.lineno < body[0].lineno for c in pvars)
    obs.append(Ob("C05-R4", "gen_func_decl:function-and-parameters-registered-before-body", _w(f), ok,
                  "the function (in its parent namespace) and its parameters must be in the context before the body is generated"))
    # gen_lambda
    f = _m(repo, "gen_lambda")
    g = cfg_of(f.node)
    reg = [c for c in calls_in(f.node) if call_name(c) == "add_lambda"]
    body = [c for c in calls_in(f.node) if call_name(c) == "_gen_func_body"]
    pvars = [c for c in calls_in(f.node) if call_name(c) == "add_var"]
    ok = len(reg) == 1 and len(body) == 1 and g.dominates(g.node(reg[0]), g.node(body[0])) and bool(pvars) and \
        all(c.lineno < body[0].lineno for c in pvars)
    obs.append(Ob("C05-R4", "gen_lambda:lambda-and-parameters-registered-before-body", _w(f), ok,
                  "add_lambda and the parameters' add_var must precede _gen_func_body"))
    # generate_main_func
    f = _m(repo, "generate_main_func")
    g = cfg_of(f.node)
    reg = [c for c in calls_in(f.node) if call_name(c) == "_add_node_to_parent"]
    body = [c for c in calls_in(f.node) if call_name(c) == "generate_expr"]
    ok = len(reg) == 1 and len(body) == 1 and g.dominates(g.node(reg[0]), g.node(body[0]))
    blk = [c for c in calls_in(f.node) if call_name(c) == "Block"]
    ok = ok and len(blk) == 1 and "decls" in src(blk[0].args[0]) and src(blk[0].args[0]).strip().endswith("[expr]")
    obs.append(Ob("C05-R4", "generate_main_func:registered-before-body;declarations-precede-result", _w(f), ok,
                  "main is registered before its body is generated and the body lists the namespace's declarations before the result expression"))
    # _gen_func_body lists declarations before the expression
    f = _m(repo, "_gen_func_body")
    blk = [c for c in calls_in(f.node) if call_name(c) == "Block"]
    def _blk_ok(b):
        t = src(b.args[0]).replace(" ", "")
        if t == "[expr]":
            # no local declarations exist on this path
            return any((pol and "notvar_decls" in s_.replace(" ", "")) or (not pol and s_ == "var_decls") for s_, pol in _g(b))
        return t.endswith("+[expr]") and t.startswith("decls")
    ok = bool(blk) and all(_blk_ok(b) for b in blk)
    obs.append(Ob("C05-R4", "_gen_func_body:declarations-precede-result", _w(f), ok,
                  "function bodies must be Block(<declarations of the namespace> + [expr]) so that every local is declared before use"))
    # gen_class_decl
    f = _m(repo, "gen_class_decl")
    g = cfg_of(f.node)
    reg = [c for c in calls_in(f.node) if call_name(c) == "_add_node_to_parent" and src(c.args[1]) == "cls"]
    bl_add = [c for c in calls_in(f.node) if call_name(c) == "add" and src(c.func.value) == "self._blacklisted_classes"]
    bl_rm = [c for c in calls_in(f.node) if call_name(c) in ("remove", "discard") and
             src(c.func.value) == "self._blacklisted_classes"]
    members = [c for c in calls_in(f.node) if call_name(c) in ("gen_class_fields", "gen_class_functions", "_select_superclass")]
    ok = len(reg) == 1 and len(bl_add) == 1 and len(bl_rm) == 1 and len(members) >= 3 and \
        all(g.dominates(g.node(reg[0]), g.node(m_)) and g.dominates(g.node(bl_add[0]), g.node(m_)) for m_ in members) and \
        all(g.postdominates(g.node(bl_rm[0]), g.node(m_)) for m_ in members) and \
        src(bl_add[0].args[0]) == src(bl_rm[0].args[0])
    obs.append(Ob("C05-R4", "gen_class_decl:registered-and-blacklisted-around-member-generation", _w(f), ok,
                  "the class is registered and blacklisted before its superclass/fields/functions are generated and the "
                  "blacklist entry is removed on every path afterwards"))
    return obs


NAME_SOURCES = ("gen_identifier", "caps", "word")


def r5_identifier_provenance(repo):
    obs = []
    m = repo.module("src.generators.generator")
    decl_ctors = {"VariableDeclaration": 0, "FunctionDeclaration": 0, "ClassDeclaration": 0, "FieldDeclaration": 0,
                  "ParameterDeclaration": 0, "TypeParameter": 0, "Lambda": 0}
    sites = []
    for fn in repo.functions.values():
        if fn.module is not m:
            continue
        for c in calls_in(fn.node):
            n = call_name(c)
            if n in decl_ctors and src(c.func) in ("ast." + n, "tp." + n, n):
                sites.append((fn, c, n))
    for fn, c, n in sites:
        name_arg = c.args[0] if c.args else kwarg(c, "name")
        ok, why = False, "no name argument"
        if name_arg is not None:
            if isinstance(name_arg, ast.Constant) and name_arg.value == "main":
                ok, why = True, "the literal main"
            else:
                root = fn
                while root.outer is not None:
                    root = root.outer
                prov = Prov(root.node if is_within(c, root.node) else fn.node, passthrough={"str", "format"})
                srcs = prov.sources(name_arg, at=c)
                calls = [s for s in srcs if isinstance(s, ast.Call)]
                texts = [src(s) for s in srcs if isinstance(s, ast.AST)]
                pool = [s for s in calls if call_name(s) in NAME_SOURCES]
                copied = [t for t in texts if re.search(r"\.(name|func)$", t) or t.endswith(".name")]
                lam = [t for t in texts if "'lambda_'" in t or "int_stream" in t]
                params = [s for s in srcs if isinstance(s, tuple) and s and s[0] == "param"]
                if pool:
                    ok, why = True, "from the identifier pool: %s" % sorted({call_name(s) for s in pool})
                elif copied:
                    ok, why = True, "copied from an existing declaration (%s)" % copied[0]
                elif lam:
                    # the counter is one monotone stream for the whole program: bound once, in __init__, to
                    # iter(range(..)) / itertools.count(..) - a number computed from what a scope already holds repeats
                    # as soon as two scopes hold equally many lambdas
                    gcls = repo.cls(GEN)
                    binds = [(m_.name, n_) for m_ in (gcls.methods.values() if gcls is not None else [])
                             for n_ in iter_own_nodes(m_.node)
                             if isinstance(n_, ast.Assign) and any(src(t_) == "self.int_stream" for t_ in n_.targets)]
                    mono = len(binds) == 1 and binds[0][0] == "__init__" and \
                        re.match(r"^(iter\(range\([\w, ]*\)\)|(itertools\.)?count\([\w, ]*\))$", src(binds[0][1].value)) is not None
                    ok, why = mono, ("lambda shadow name (lambda_<counter>)" if mono else
                                     "lambda shadow names are numbered by %s: not a single monotone stream bound in __init__, "
                                     "so two lambdas can get the same name" % [src(b[1].value)[:50] for b in binds])
                elif params:
                    ok, why = True, "name supplied by the caller through parameter `%s`" % params[0][1]
                else:
                    why = "name derives from %s" % texts[:5]
        obs.append(Ob("C05-R5", "%s@%s#%d" % (n, fn.name, [x[1] for x in sites if x[0] is fn].index(c)), _w(fn, c), ok, why))
    if len(sites) < 10:
        raise AnalysisError("declaration construction sites: %d" % len(sites), rule="C05-R5")
    # type parameter names: the list of taken names must record exactly what caps() drew
    f = _m(repo, "gen_type_params")
    caps = [c for c in calls_in(f.node) if call_name(c) == "caps"]
    okc = len(caps) == 1 and kwarg(caps[0], "blacklist", 1) is not None
    if okc:
        bl = src(kwarg(caps[0], "blacklist", 1))
        apps = [c for c in calls_in(f.node) if call_name(c) == "append" and src(c.func.value) == bl]
        okc = len(apps) == 1 and isinstance(apps[0].args[0], ast.Name)
        if okc:
            d = cfg_of(f.node).defs_reaching(apps[0].args[0].id, apps[0])
            okc = len(d) == 1 and d[0][1] is caps[0] and not flat_guards(apps[0], stop=[a for a in ancestors(apps[0]) if isinstance(a, ast.For)][0])
    obs.append(Ob("C05-R5", "gen_type_params:taken-names-record-the-drawn-letter", _w(f), okc,
                  "the name appended to the blacklist that caps() consults must be the raw name caps() returned (before any "
                  "prefix such as F_ is added), unconditionally: otherwise two type parameters of one function can get the same name"))
    # parameters named by callers: the callers pass pool names or copies
    gi = repo.fn("src.generators.utils.gen_identifier")
    calls = [c for c in calls_in(gi.node) if "random.word" in src(c.func)]
    body = " ".join(src(gi.node).split())
    ok = len(calls) == 1 and not any(call_name(c) in ("join", "replace", "format") for c in calls_in(gi.node))
    allowed = {"lower", "capitalize", "word", "upper", "AssertionError"}
    extra = sorted({call_name(c) for c in calls_in(gi.node)} - allowed)
    obs.append(Ob("C05-R5", "gen_identifier:only-changes-letter-case-of-a-pool-word", _w(gi), ok and not extra,
                  "gen_identifier must return a pool word, at most lower-cased / capitalised (other calls: %s)" % extra))
    return obs


def r6_pool_discipline(repo):
    obs = []
    w = repo.method("src.utils.RandomUtils", "word", inherited=False)
    rm = [c for c in calls_in(w.node) if call_name(c) == "remove" and src(c.func.value) == "self.WORDS"]
    ret = w.node.body[-1]
    ok = len(rm) == 1 and isinstance(ret, ast.Return) and src(ret.value) == src(rm[0].args[0]) and not flat_guards(rm[0])
    obs.append(Ob("C05-R6", "RandomUtils.word:removes-what-it-returns", _w(w), ok,
                  "word() must remove the word it returns from WORDS (identifiers are unique until the pool is reset)"))
    r = repo.method("src.utils.RandomUtils", "remove_reserved_words", inherited=False)
    st = {src(n.targets[0]): n for n in iter_own_nodes(r.node) if isinstance(n, ast.Assign)}
    ok = all(k in st and isinstance(st[k].value, ast.BinOp) and isinstance(st[k].value.op, ast.Sub) and
             src(st[k].value.left) == k and src(st[k].value.right) == "reserved_words"
             for k in ("self.INITIAL_WORDS", "self.WORDS"))
    rw = st.get("reserved_words")
    ok = ok and rw is not None and isinstance(rw.value, ast.Call) and call_name(rw.value) == "get_reserved_words" and \
        src(rw.value.args[1]) == r.params[1]
    obs.append(Ob("C05-R6", "remove_reserved_words:both-pools", _w(r), ok,
                  "reserved words must be subtracted from INITIAL_WORDS and from WORDS (otherwise reset_word_pool resurrects them)"))
    rs = repo.method("src.utils.RandomUtils", "reset_word_pool", inherited=False)
    ok = len(rs.node.body) == 1 and " ".join(src(rs.node.body[0]).split()) == "self.WORDS = set(self.INITIAL_WORDS)"
    obs.append(Ob("C05-R6", "reset_word_pool:restores-from-INITIAL_WORDS", _w(rs), ok,
                  "reset_word_pool must restore WORDS from INITIAL_WORDS (a copy)"))
    m = repo.module("src.args")
    calls = [n for n in m.tree.body if isinstance(n, ast.Expr) and isinstance(n.value, ast.Call) and
             call_name(n.value) == "remove_reserved_words"]
    ok = len(calls) == 1 and src(calls[0].value.args[0]) == "args.language"
    obs.append(Ob("C05-R6", "args.py:removes-reserved-words-of-the-target-language", "src/args.py", ok,
                  "src/args.py must call random.remove_reserved_words(args.language) at import"))
    g = repo.fn("src.utils.get_reserved_words")
    ok = "'{}_keywords'.format(language)" in " ".join(src(g.node).split()) and \
        any(call_name(c) == "path2set" for c in calls_in(g.node))
    obs.append(Ob("C05-R6", "get_reserved_words:<language>_keywords-file", _w(g), ok,
                  "reserved words are read from resources/<language>_keywords (absent file = empty set)"))
    return obs


def r7_reserved_data(repo):
    obs = []
    words = repo.resource("words")
    if not words:
        raise AnalysisError("src/resources/words missing or empty", rule="C05-R7", anchor="src/resources/words")
    wset = {w.strip() for w in words if w.strip()}
    bad_shape = sorted(w for w in wset if not re.fullmatch(r"[a-z]+", w))[:5]
    obs.append(Ob("C05-R7", "words:lowercase-letters-only", "src/resources/words", not bad_shape,
                  "%d words; words that are not [a-z]+: %s" % (len(wset), bad_shape)))
    for lang in ("java", "kotlin", "groovy", "scala"):
        kw = repo.resource(lang + "_keywords")
        kws = {k.strip() for k in (kw or []) if k.strip()}
        leak = sorted((wset - kws) & set(HARD[lang]))
        obs.append(Ob("C05-R7", "reserved:%s" % lang, "src/resources/%s_keywords" % lang, not leak,
                      "hard keywords of %s that are in the word pool and not removed by %s_keywords (%s): %s"
                      % (lang, lang, "file present, %d entries" % len(kws) if kw is not None else "file absent", leak),
                      {"pool": len(wset), "keywords_file": len(kws), "hard": len(HARD[lang])}))
    return obs


def r8_type_variables_in_scope(repo):
    obs = []
    f = _m(repo, "_gen_matching_func")
    st = [n for n in iter_own_nodes(f.node) if isinstance(n, ast.Assign) and src(n.targets[0]) == "self.namespace" and
          isinstance(n.value, ast.IfExp)]
    ok, msg = len(st) == 1, "namespace choice for the generated function not found"
    if ok:
        v = st[0].value
        disj = [" ".join(src(x).split()) for x in (v.test.values if isinstance(v.test, ast.BoolOp) and
                                                      isinstance(v.test.op, ast.Or) else [v.test])]
        ok = src(v.body) == "self.namespace" and "GLOBAL_NAMESPACE" in src(v.orelse) and \
            "etype.has_type_variables()" in disj
        msg = ("a function generated to return `etype` may be put into the global namespace only if etype has no type "
               "variables (also nested ones, e.g. Box<T>): the current namespace must be kept under "
               "`... or etype.has_type_variables()`; condition: %s" % disj)
    obs.append(Ob("C05-R8", "_gen_matching_func:callee-stays-where-its-type-variables-are-declared", _w(f), ok, msg))
    f = _m(repo, "_gen_matching_class")
    c = [x for x in calls_in(f.node) if call_name(x) == "_create_type_params_from_etype"]
    ok = len(c) == 1 and ("etype.has_type_variables()", True) in _g(c[0]) and src(c[0].args[0]) == "etype"
    sub = [x for x in calls_in(f.node) if call_name(x) == "substitute_type" and src(x.args[0]) == "etype"]
    ok = ok and len(sub) == 1 and ("etype.has_type_variables()", True) in _g(sub[0])
    obs.append(Ob("C05-R8", "_gen_matching_class:fresh-type-parameters-for-types-with-type-variables", _w(f), ok,
                  "a class generated for a type with type variables must get its own type parameters "
                  "(_create_type_params_from_etype) and use the substituted type"))
    # removing a type parameter from scope: every remaining bound must be rewritten *recursively* (the removed
    # parameter may occur nested, `V : Foo<U>`), with the map that records the removed parameters
    gen = repo.module("src.generators.generator")
    sites = [(g, c) for g in repo.functions.values() if g.module is gen for c in calls_in(g.node)
             if call_name(c) == "remove_type" and isinstance(c.func, ast.Attribute) and "context" in src(c.func.value)]
    for g, c in sites:
        loop = next((a for a in ancestors(c) if isinstance(a, ast.For)), None)
        maps = []
        if loop is not None:
            maps = [src(n.targets[0].value) for n in ast.walk(loop) if isinstance(n, ast.Assign) and
                    isinstance(n.targets[0], ast.Subscript) and src(n.targets[0].slice) == src(loop.target)]
        stores = [n for n in iter_own_nodes(g.node) if isinstance(n, ast.Assign) and
                  isinstance(n.targets[0], ast.Attribute) and n.targets[0].attr == "bound" and
                  loop is not None and n.lineno > loop.end_lineno]
        ok, why = False, "no bound rewrite after the removal loop"
        for n in stores:
            v = n.value
            obj = src(n.targets[0].value)
            rec = isinstance(v, ast.Call) and call_name(v) in ("substitute_type", "substitute_type_args") and \
                len(v.args) >= 2 and src(v.args[0]) == obj + ".bound" and src(v.args[1]) in maps
            gs = [(" ".join(src(t).split()), pol) for t, pol in flat_guards(n)]
            only_truthiness = all((t == obj + ".bound" and pol) or (t == obj + ".bound is None" and not pol) for t, pol in gs)
            lp = next((a for a in ancestors(n) if isinstance(a, ast.For)), None)
            if rec and only_truthiness and lp is not None and src(lp.target) == obj:
                ok, why = True, "`%s` for every remaining parameter" % " ".join(src(n).split())
                break
            why = "rewrite `%s` (guards %s) is not an unconditional recursive substitution with the removal map %s" % (
                " ".join(src(n).split()), gs, maps)
        obs.append(Ob("C05-R8", "%s:bounds-rewritten-recursively-after-remove_type" % g.name, _w(g, c), ok,
                      "after type parameters are removed from scope, each remaining parameter's bound must go through "
                      "substitute_type(<bound>, <removal map>) - a removed parameter may occur nested inside a bound: " + why))
    # an overriding method gets fresh type parameters whose bounds are the overridden ones with the superclass's type
    # arguments substituted: the substituted bound is installed whatever the substitution changed
    f = _m(repo, "_gen_type_params_from_existing")
    bst = [n for n in iter_own_nodes(f.node) if isinstance(n, ast.Assign) and isinstance(n.targets[0], ast.Attribute) and
           n.targets[0].attr == "bound"]
    okb = len(bst) >= 1
    whyb = []
    for n in bst:
        obj = src(n.targets[0].value)
        gs = [(" ".join(src(t).split()), pol) for t, pol in flat_guards(n)]
        extra = [(t, pol) for t, pol in gs if not ((t == obj + ".bound is None" and not pol) or (t == obj + ".bound" and pol))
                 and ("bound" in t or obj in t)]
        prov = Prov(f.node)
        subst = any(isinstance(l, ast.Call) and call_name(l) == "substitute_type" for l in prov.sources(n.value, at=n))
        if extra or not subst:
            okb = False
            whyb.append("`%s` under %s, substituted=%s" % (" ".join(src(n).split()), extra, subst))
    obs.append(Ob("C05-R8", "_gen_type_params_from_existing:substituted-bound-installed-unconditionally", _w(f), okb,
                  "the bound of a type parameter copied from the overridden method must be replaced by its substituted form "
                  "whenever it has a bound (not only when some comparison of old and new holds): %s" % whyb))
    obs.append(Ob("C05-R8", "remove_type-sites>=1", "src/generators/generator.py", len(sites) >= 1,
                  "%d call sites of context.remove_type in the generator" % len(sites)))
    return obs


def _all_locals_comp(f, expr, at):
    """-> (ok, description): expr denotes `[d for d in <namespace declarations> if not isinstance(d, ParameterDeclaration)]`
    - every declaration registered in the current namespace except the parameters, in registration order."""
    g = cfg_of(f.node)
    e, hops = expr, 0
    while isinstance(e, ast.Name) and hops < 4:
        defs = g.defs_reaching(e.id, at)
        if len(defs) != 1 or not isinstance(defs[0][1], ast.AST):
            return False, "`%s` has %d definitions here" % (e.id, len(defs))
        at = g.stmt(defs[0][0])
        e = defs[0][1]
        hops += 1
    if not isinstance(e, ast.ListComp) or len(e.generators) != 1:
        return False, "not a single-generator list comprehension: %s" % src(e)[:70]
    gen = e.generators[0]
    if src(e.elt) != src(gen.target):
        return False, "elements are transformed: %s" % src(e.elt)
    flt = [" ".join(src(i).split()) for i in gen.ifs]
    if flt != ["not isinstance(%s, ast.ParameterDeclaration)" % src(gen.target)]:
        return False, "filter %s keeps or drops other kinds than parameters" % flt
    it, hops = gen.iter, 0
    while isinstance(it, ast.Name) and hops < 4:
        defs = g.defs_reaching(it.id, at)
        if len(defs) != 1 or not isinstance(defs[0][1], ast.AST):
            return False, "`%s` has %d definitions here" % (it.id, len(defs))
        at = g.stmt(defs[0][0])
        it = defs[0][1]
        hops += 1
    if isinstance(it, ast.Call) and src(it.func) == "list" and len(it.args) == 1:
        it = it.args[0]
    txt = " ".join(src(it).split())
    if txt != "self.context.get_declarations(self.namespace, True).values()":
        return False, "iterates %s" % txt[:70]
    return True, "all non-parameter declarations of the namespace, in order"


def r9_local_declarations(repo):
    """A function body declares every local that was registered while it was generated, before the expressions that
    may use it, in registration order (a nested function may use an earlier local): the list of declarations of a body
    is the namespace's declaration table minus the parameters, unsorted and unfiltered."""
    obs = []
    f = _m(repo, "_gen_func_body")
    # (a) the expression-bodied form is chosen only if there is no local declaration at all: the statement that can
    # make the bare expression the body sits under "no locals" (whatever the layout of the if / else)
    gens = [n for n in iter_own_nodes(f.node) if isinstance(n, ast.Assign) and isinstance(n.value, ast.Call) and
            call_name(n.value) == "generate_expr" and isinstance(n.targets[0], ast.Name)]
    ename = gens[0].targets[0].id if gens else "expr"
    sites = [n for n in iter_own_nodes(f.node) if isinstance(n, (ast.Assign, ast.Return)) and n.value is not None and (
        (isinstance(n.value, ast.Name) and n.value.id == ename and not (isinstance(n, ast.Assign) and n in gens)) or
        (isinstance(n.value, ast.IfExp) and any(isinstance(x, ast.Name) and x.id == ename for x in (n.value.body, n.value.orelse))))]
    ok, why = bool(sites), "no statement that makes the bare expression the body"
    for st_ in sites:
        negs = [t for t, p in flat_guards(st_) if not p and isinstance(t, ast.Name)]
        ok_, why = (False, "the expression-body site at line %d is not guarded by `not <locals>`" % st_.lineno)
        for nme in negs:
            ok_, why = _all_locals_comp(f, nme, st_)
            if ok_:
                break
        ok = ok and ok_
    obs.append(Ob("C05-R9", "_gen_func_body:expression-body-only-without-locals", _w(f), ok,
                  "an expression-bodied function cannot declare anything, so it may be chosen only when the namespace "
                  "holds no declaration besides the parameters: " + why))
    # (b) the block lists the declarations first
    blocks = [c for c in calls_in(f.node) if src(c.func) == "ast.Block" and c.args and isinstance(c.args[0], ast.BinOp)]
    ok = len(blocks) == 1 and src(blocks[0].args[0]).replace(" ", "").startswith("decls+")
    obs.append(Ob("C05-R9", "_gen_func_body:declarations-before-expressions", _w(f), ok,
                  "the block must be Block(decls + exprs + [expr]); found %s" % [src(b.args[0]) for b in blocks]))
    # (c) _gen_side_effects returns every local, in registration order
    f2 = _m(repo, "_gen_side_effects")
    rets = [n for n in iter_own_nodes(f2.node) if isinstance(n, ast.Return)]
    ok, why = False, "expected one `return exprs, decls`"
    if len(rets) == 1 and isinstance(rets[0].value, ast.Tuple) and len(rets[0].value.elts) == 2:
        ok, why = _all_locals_comp(f2, rets[0].value.elts[1], rets[0])
    obs.append(Ob("C05-R9", "_gen_side_effects:returns-every-local-in-registration-order", _w(f2), ok,
                  "the declarations of a body are the namespace's declarations minus the parameters, in the order they "
                  "were registered: " + why))
    return obs


def r10_fold(repo):
    """the generator decides with has_type_variables() whether a type may leave the scope of the enclosing type parameters"""
    return kernel.has_type_variables_fold(repo, "C05-R10")


def r11_inherited_signatures(repo):
    """an inherited signature talks about the superclass's type variables; they are out of scope in the subclass unless
    every member that comes up the chain is substituted with the arguments the subclass gives its superclass"""
    from .c01 import r9_inherited_members
    return r9_inherited_members(repo, rid="C05-R11")


def rules():
    return [
        RuleSpec("C05-R1", "only non-final variables / fields are assignment targets", 6, r1_non_final_targets),
        RuleSpec("C05-R2", "only concrete classes are instantiated", 5, r2_concrete_classes),
        RuleSpec("C05-R3", "Java lambda capture: every reader of the variables in scope (sibling rule)", 9, r3_java_lambda_capture),
        RuleSpec("C05-R4", "declarations registered before their bodies are generated", 5, r4_register_before_body),
        RuleSpec("C05-R5", "provenance of declaration names", 11, r5_identifier_provenance),
        RuleSpec("C05-R6", "identifier pool discipline", 5, r6_pool_discipline),
        RuleSpec("C05-R7", "reserved words of the four target languages vs. the resource files", 5, r7_reserved_data),
        RuleSpec("C05-R9", "a body declares every registered local, first and in registration order", 3, r9_local_declarations),
        RuleSpec("C05-R8", "generated callees stay in the scope of their type variables; removed type parameters are substituted away", 4, r8_type_variables_in_scope),
        RuleSpec("C05-R10", "has_type_variables is the structural fold (types with free variables are kept inside their scope)", 7, r10_fold),
        RuleSpec("C05-R11", "inherited members are substituted copies (superclass type variables do not leak)", 9, r11_inherited_signatures),
    ]


# -- variants -----------------------------------------------------------------------------

def _v_final_fields(tree):
    f = V.find_def(tree, "Generator._get_assignable_vars")
    iff = V.one([n for n in ast.walk(f) if isinstance(n, ast.If) and ast.unparse(n.test) == "not field.is_final"])
    iff.test = V.parse_expr("True")


def _v_getattr_default(tree):
    f = V.find_def(tree, "Generator._get_assignable_vars")
    c = V.one([n for n in ast.walk(f) if V.is_call_named(n, "getattr") and "is_final" in ast.unparse(n)])
    c.args[2] = ast.Constant(value=False)


def _v_drop_regular(tree):
    f = V.find_def(tree, "Generator._get_subclass")
    iff = V.one([n for n in ast.walk(f) if isinstance(n, ast.If) and "REGULAR" in ast.unparse(n.test)])
    V.remove_stmt(tree, iff)


def _v_new_any_class(tree):
    f = V.find_def(tree, "Generator.gen_new")
    st = V.one([n for n in f.body if isinstance(n, ast.Assign) and ast.unparse(n.targets[0]) == "class_decl"
                and "_get_subclass" in ast.unparse(n.value)])
    st.value = V.parse_expr("self._get_class(etype)[0]")


def _v_drop_lambda_test(tree):
    f = V.find_def(tree, "Generator._get_matching_objects")
    iff = V.one([n for n in ast.walk(f) if isinstance(n, ast.If) and ast.unparse(n.test) == "self._inside_java_lambda"])
    V.remove_stmt(tree, iff)


def _v_flag_not_restored(tree):
    f = V.find_def(tree, "Generator.gen_lambda")
    st = [n for n in f.body if isinstance(n, ast.Assign) and ast.unparse(n.targets[0]) == "self._inside_java_lambda"
          and "prev" in ast.unparse(n.value)]
    V.remove_stmt(tree, V.one(st))


def _v_body_before_register(tree):
    f = V.find_def(tree, "Generator.gen_func_decl")
    reg = V.one([n for n in f.body if isinstance(n, ast.Expr) and V.is_call_named(n.value, "_add_node_to_parent")
                 and "func" in ast.unparse(n.value.args[1])])
    f.body.remove(reg)
    idx = [i for i, n in enumerate(f.body) if isinstance(n, ast.Assign) and ast.unparse(n.targets[0]) == "func.body"][0]
    f.body.insert(idx + 1, reg)


def _v_blacklist_leak(tree):
    f = V.find_def(tree, "Generator.gen_class_decl")
    st = V.one([n for n in f.body if isinstance(n, ast.Expr) and V.is_call_named(n.value, "remove")
                and "_blacklisted_classes" in ast.unparse(n)])
    new = ast.If(test=V.parse_expr("super_cls_info"), body=[st], orelse=[])
    V.replace_node(tree, st, new)


def _v_literal_name(tree):
    f = V.find_def(tree, "Generator.gen_variable_decl")
    c = V.one([n for n in ast.walk(f) if V.is_call_named(n, "VariableDeclaration")])
    c.args[0] = ast.Constant(value="tmp")


def _v_reserved_only_words(tree):
    f = V.find_def(tree, "RandomUtils.remove_reserved_words")
    st = V.one([n for n in f.body if isinstance(n, ast.Assign) and ast.unparse(n.targets[0]) == "self.INITIAL_WORDS"])
    V.remove_stmt(tree, st)


def _v_word_keeps(tree):
    f = V.find_def(tree, "RandomUtils.word")
    st = V.one([n for n in f.body if isinstance(n, ast.Expr) and V.is_call_named(n.value, "remove")])
    V.remove_stmt(tree, st)


def _v_del_def(text):
    lines = text.splitlines()
    if "given" not in lines:
        raise V.SkipVariant("`given` not in scala_keywords")
    return "\n".join(l for l in lines if l != "given") + "\n"


def _v_global_callee(tree):
    f = V.find_def(tree, "Generator._gen_matching_func")
    x = V.one([n for n in ast.walk(f) if isinstance(n, ast.IfExp) and "GLOBAL_NAMESPACE" in ast.unparse(n.orelse)])
    x.test = V.parse_expr("ut.random.bool() or etype.is_type_var()")


def _v_reset_from_class_attr(tree):
    f = V.find_def(tree, "RandomUtils.reset_word_pool")
    f.body[0].value = V.parse_expr("set(RandomUtils.INITIAL_WORDS)")


def _v_taken_names_prefixed(tree):
    f = V.find_def(tree, "Generator.gen_type_params")
    lp = V.one([n for n in f.body if isinstance(n, ast.For)])
    st = V.one([n for n in lp.body if isinstance(n, ast.Expr) and V.is_call_named(n.value, "append")
                and "type_param_names" in ast.unparse(n)])
    iff = V.one([n for n in lp.body if isinstance(n, ast.If) and ast.unparse(n.test) == "for_function"])
    lp.body.remove(st)
    lp.body.insert(lp.body.index(iff) + 1, st)


def _t_rename(tree):
    f = V.find_def(tree, "Generator._get_assignable_vars")
    V.rename_local(f, "variables", "targets")


def variants():
    g = "src/generators/generator.py"
    return [
        V.Variant("final fields become assignment targets", g, _v_final_fields, {"C05-R1"}),
        V.Variant("getattr default flipped (objects without is_final count as mutable)", g, _v_getattr_default, {"C05-R1"}),
        V.Variant("abstract classes / interfaces instantiable", g, _v_drop_regular, {"C05-R2"}),
        V.Variant("gen_new takes any class of the type", g, _v_new_any_class, {"C05-R2"}),
        V.Variant("_get_matching_objects ignores the Java lambda flag", g, _v_drop_lambda_test, {"C05-R3"}),
        V.Variant("gen_lambda does not restore the flag", g, _v_flag_not_restored, {"C05-R3"}),
        V.Variant("function body generated before the function is registered", g, _v_body_before_register, {"C05-R4"}),
        V.Variant("class stays blacklisted on one path", g, _v_blacklist_leak, {"C05-R4"}),
        V.Variant("variable named by a literal", g, _v_literal_name, {"C05-R5"}),
        V.Variant("reserved words removed from WORDS only", "src/utils.py", _v_reserved_only_words, {"C05-R6"}),
        V.Variant("word() keeps the word in the pool", "src/utils.py", _v_word_keeps, {"C05-R6"}),
        V.Variant("`given` deleted from scala_keywords", "src/resources/scala_keywords", _v_del_def, {"C05-R7"}),
        V.Variant("callee for Box<T> may be generated in the global namespace", g, _v_global_callee, {"C05-R8"}),
        V.Variant("reset_word_pool restores the unfiltered class-level pool", "src/utils.py", _v_reset_from_class_attr, {"C05-R6"}),
        V.Variant("taken type-parameter names recorded with the F_ prefix", g, _v_taken_names_prefixed, {"C05-R5"}),
        V.Variant("twin: rename the candidate list", g, _t_rename, None, twin=True),
        V.Variant("twin: whole tree reformatted by ast.unparse", None, None, None, twin=True),
    ]
