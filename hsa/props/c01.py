"""C01 - generated programs are well-typed (structural part: the generator's typing obligations)."""
import ast

from ..repo import AnalysisError
from ..report import Ob, RuleSpec
from ..astutil import (src, flat_guards, guards, calls_in, call_name, kwarg, const_value,
                       iter_own_nodes, ancestors, is_within)
from ..cfg import cfg_of, Prov
from .. import variants as V

PROPERTY = "C01"
TITLE = "Generated programs are well-typed (the pass oracle)"
DECIDES = ("Decided: the generator's typing obligations at the sites where a type decision is taken - which way round "
           "every compatibility test in the generator is asked (the candidate is the receiver, the expected type the "
           "argument; the two reduce folds keep the supertype / the tightest bound), that every candidate handed to "
           "random.choice by the selection routines passed a compatibility test against the expected type, that the type "
           "used to generate a sub-expression is the type recorded in the node, that member types are substituted with "
           "the receiver's / superclass's type arguments before they are used, that wildcard sinks get a bottom value, "
           "that inheritance obligations are discharged (no final superclass, every inherited abstract function "
           "implemented in a regular class, overrides copy name / parameters / substituted return type), and that an "
           "expected type is only ever narrowed with find_subtypes (include_self) under the caller's subtype flag. Also: a bottom constant is never forced for a primitive type; type parameters re-purposed for an existing type's variables get that variable's bound on every path; at most one vararg per parameter list (latched store); nothing leaves between computing the inherited abstract functions and implementing them; an overriding field is exactly as final as the overridden one; the built-in types declare only supertypes of their language's lattice.")
NOT_DECIDED = ("that a whole generated program is well-typed: that also depends on the values computed by the type "
               "relation, the searches and unification (C06-C10), which no rule here establishes.")

GEN = "src.generators.generator.Generator"
EXPECTED = ("etype", "expr_type", "initial_type")


def _w(f, node=None):
    return "%s:%d" % (f.module.relpath, (node or f.node).lineno)


def _g(node, stop=None):
    return [(src(t), p) for t, p in flat_guards(node, stop)]


def _m(repo, name):
    return repo.method(GEN, name, inherited=False)


def _gen_functions(repo):
    m = repo.module("src.generators.generator")
    return [f for f in repo.functions.values() if f.module is m]


def _top(f):
    while f.outer is not None:
        f = f.outer
    return f


def _loop_fold(c):
    """c is the test of `if [not] c: ACC = X` directly inside `for X in ...:` -> (ACC, X, value kept when c holds)"""
    p = c._parent
    neg = False
    if isinstance(p, ast.UnaryOp) and isinstance(p.op, ast.Not):
        neg, p = True, p._parent
    if not (isinstance(p, ast.If) and not p.orelse and len(p.body) == 1 and isinstance(p.body[0], ast.Assign) and
            isinstance(p.body[0].targets[0], ast.Name) and isinstance(p.body[0].value, ast.Name)):
        return None
    loop = p._parent
    if not (isinstance(loop, ast.For) and isinstance(loop.target, ast.Name) and p in loop.body):
        return None
    acc, x = p.body[0].targets[0].id, loop.target.id
    if p.body[0].value.id != x:
        return None
    return acc, x, (acc if neg else x)


def r1_direction(repo):
    obs = []
    sites = []
    for f in _gen_functions(repo):
        for c in [n for n in ast.walk(f.node) if isinstance(n, ast.Call)]:
            if call_name(c) in ("is_subtype", "is_assignable") and isinstance(c.func, ast.Attribute) and \
                    repo.enclosing_function(c) is f:
                sites.append((f, c))
    for f, c in sites:
        top = _top(f)
        exp = [p for p in top.params if p in EXPECTED]
        recv, arg = c.func.value, c.args[0]
        lam = None
        for a in ancestors(c):
            if isinstance(a, ast.Lambda):
                lam = a
                break
        key = "%s:%s" % (top.name, " ".join(src(c).split()))
        # reduce folds
        red = None
        for a in ancestors(c):
            if isinstance(a, ast.Call) and call_name(a) == "reduce":
                red = a
                break
        if red is not None and lam is not None and isinstance(lam.body, ast.IfExp):
            acc, x = [p.arg for p in lam.args.args][:2]
            body = lam.body
            # which argument is kept when the test holds
            r, a_ = src(recv), src(arg)
            keeps_on_true = src(body.body)
            if top.name == "gen_conditional":
                # upper bound: keep the supertype: acc if x.is_subtype(acc) else x
                ok = call_name(c) == "is_subtype" and ((r == x and a_ == acc and keeps_on_true == acc) or
                                                       (r == acc and a_ == x and keeps_on_true == x))
                msg = "the conditional's type must be an upper bound of the branch types: keep the supertype in the fold; found `%s`" % src(lam)
            elif top.name == "_create_type_params_from_etype":
                t_ = x
                ok = call_name(c) == "is_subtype" and ((r == t_ and a_ == acc and keeps_on_true == t_) or
                                                       (r == acc and a_ == t_ and keeps_on_true == acc))
                msg = "the bound of the created type parameter must be the tightest of the collected bounds: keep the subtype; found `%s`" % src(lam)
            else:
                raise AnalysisError("unreviewed reduce fold over is_subtype in %s" % top.qualname, rule="C01-R1",
                                    anchor=top.qualname)
            obs.append(Ob("C01-R1", key, _w(f, c), ok, msg))
            continue
        # the same fold written as a loop: `acc = init; for x in [...]: if [not] x.is_subtype(acc): acc = x`
        lf = _loop_fold(c)
        if lf is not None and top.name == "gen_conditional":
            acc, x, keeps_on_true = lf
            r, a_ = src(recv), src(arg)
            ok = call_name(c) == "is_subtype" and ((r == x and a_ == acc and keeps_on_true == acc) or
                                                   (r == acc and a_ == x and keeps_on_true == x))
            obs.append(Ob("C01-R1", key, _w(f, c), ok,
                          "the conditional's type must be an upper bound of the branch types: keep the supertype in the fold "
                          "(loop form: accumulator `%s`, element `%s`, kept when the test holds: `%s`)" % (acc, x, keeps_on_true)))
            continue
        # bind lambda parameters through the call `fun(v, etype)`
        binding = {}
        if lam is not None and isinstance(lam._parent, ast.Assign) and isinstance(lam._parent.targets[0], ast.Name):
            fname = lam._parent.targets[0].id
            for call in calls_in(top.node):
                if isinstance(call.func, ast.Name) and call.func.id == fname:
                    for p, a in zip([x.arg for x in lam.args.args], call.args):
                        binding.setdefault(p, set()).add(src(a))
        def roots(e):
            names = {n.id for n in ast.walk(e) if isinstance(n, ast.Name)}
            out = set()
            for n in names:
                out |= binding.get(n, {n})
            return out
        r_roots, a_roots = roots(recv), roots(arg)
        recv_is_expected = any(x in EXPECTED for x in r_roots)
        arg_is_expected = any(x in EXPECTED for x in a_roots)
        if not exp and not recv_is_expected and not arg_is_expected:
            obs.append(Ob("C01-R1", key, _w(f, c), True, "no expected type involved (candidate-vs-candidate test)"))
            continue
        ok = arg_is_expected and not recv_is_expected
        obs.append(Ob("C01-R1", key, _w(f, c), ok,
                      "assignability is 'found <= expected': the candidate (%s) must be the receiver and the expected type "
                      "(%s) the argument; here receiver roots %s, argument roots %s"
                      % ("variable / member / return type", "/".join(exp) or "etype", sorted(r_roots), sorted(a_roots))))
    if len(sites) < 8:
        raise AnalysisError("only %d compatibility tests found in the generator" % len(sites), rule="C01-R1")
    return obs


def r2_filtered_choice(repo):
    obs = []
    # (method, list that reaches random.choice / is returned, expected-type parameter)
    f = _m(repo, "gen_variable")
    ok = False
    ch = [c for c in calls_in(f.node) if call_name(c) == "choice"]
    if len(ch) == 1 and "variables" in src(ch[0].args[0]):
        # every definition of the candidate list that reaches the draw is the list filtered by the compatibility test
        defs = cfg_of(f.node).defs_reaching("variables", ch[0])
        ok = bool(defs)
        for _d, lc, _k in defs:
            if not (isinstance(lc, ast.ListComp) and len(lc.generators) == 1 and len(lc.generators[0].ifs) == 1 and
                    src(lc.elt) == src(lc.generators[0].target)):
                ok = False
                continue
            v = src(lc.generators[0].target)
            flt = " ".join(src(lc.generators[0].ifs[0]).split())
            # the test is the compatibility test of the variable's type against etype: through the local lambda `fun`
            # (whose direction C01-R1 checks) or written out
            if flt not in ("fun(%s, etype)" % v, "%s.get_type().is_assignable(etype)" % v, "%s.get_type() == etype" % v,
                           "etype == %s.get_type()" % v):
                ok = False
    obs.append(Ob("C01-R2", "gen_variable:candidates-filtered-by-the-compatibility-test", _w(f), ok,
                  "the variable is chosen from [v for v in variables if fun(v, etype)]"))
    f = _m(repo, "_gen_func_call_ref")
    apps = [c for c in calls_in(f.node) if call_name(c) == "append" and src(c.func.value) == "refs"]

    def _prefiltered(a):
        # elements of a list that a matching routine already filtered by etype
        for lp in [x for x in ancestors(a) if isinstance(x, ast.For)]:
            if isinstance(lp.iter, ast.Name):
                d = cfg_of(f.node).defs_reaching(lp.iter.id, lp)
                if d and all(isinstance(x[1], ast.Call) and call_name(x[1]).startswith("_get_matching_") and
                             x[1].args and src(x[1].args[0]) == "etype" for x in d):
                    return True
        return False
    direct = [a for a in apps if not _prefiltered(a)]
    ok = len(direct) == 1 and any(pol and "ret_type.is_assignable(etype)" in s and "ret_type == etype" in s
                                  for s, pol in _g(direct[0]))
    obs.append(Ob("C01-R2", "_gen_func_call_ref:references-filtered-by-return-type", _w(f), ok,
                  "a function-typed variable is a candidate only if its return type is assignable to / equals etype"))
    f = _m(repo, "_get_subclass")
    apps = [c for c in calls_in(f.node) if call_name(c) == "append" and src(c.func.value) == "subclasses"]
    ok = len(apps) == 2 and all(any(pol and "etype" in s and ("is_subtype(etype)" in s or "== t_con" in s or "== etype" in s)
                                    for s, pol in _g(a)) for a in apps)
    obs.append(Ob("C01-R2", "_get_subclass:classes-filtered-by-the-expected-type", _w(f), ok,
                  "a class is a candidate only if its type equals the expected (constructor) type or is a subtype of it"))
    f = _m(repo, "_get_vars_of_function_types")
    apps = [c for c in calls_in(f.node) if call_name(c) == "append"]
    def _filtered(a):
        if any("etype" in s_ for s_, pol in _g(a)):
            return True
        # elements of a list that a matching routine already filtered by etype
        for lp in [x for x in ancestors(a) if isinstance(x, ast.For)]:
            if isinstance(lp.iter, ast.Name):
                d = cfg_of(f.node).defs_reaching(lp.iter.id, lp)
                if d and all(isinstance(x[1], ast.Call) and call_name(x[1]).startswith("_get_matching_") and
                             x[1].args and src(x[1].args[0]) == "etype" for x in d):
                    return True
        return False
    ok = bool(apps) and all(_filtered(a) for a in apps)
    obs.append(Ob("C01-R2", "_get_vars_of_function_types:filtered-by-the-signature", _w(f), ok,
                  "function-typed variables are candidates only under a test that involves the expected signature; guards: %s"
                  % [_g(a) for a in apps][:2]))
    for name in ("_get_matching_objects", "_get_matching_function_declarations", "_get_matching_class_decls"):
        f = _m(repo, name)
        apps = [c for c in calls_in(f.node) if call_name(c) == "append"]
        tests = [c for c in calls_in(f.node) if call_name(c) in ("_is_sigtype_compatible", "_is_signature_compatible")]
        good = bool(apps) and bool(tests)
        why = []
        for a in apps:
            gs = flat_guards(a)
            # a compatibility outcome must control the append: `is_comb` / `is_compatible` local bound from the test
            controlled = False
            for t, pol in gs:
                names = {n.id for n in ast.walk(t) if isinstance(n, ast.Name)}
                for nm in names:
                    defs = cfg_of(f.node).defs_reaching(nm, a)
                    for d, v, k in defs:
                        vv = v[1] if isinstance(v, tuple) else v
                        if isinstance(vv, ast.Call) and call_name(vv) in ("_is_sigtype_compatible", "_is_signature_compatible"):
                            controlled = controlled or (pol is False and isinstance(t, ast.UnaryOp)) or pol is True or \
                                (pol is False and src(t).startswith("not "))
                if isinstance(t, ast.Call) and call_name(t) in ("_is_sigtype_compatible", "_is_signature_compatible") and pol:
                    controlled = True
            # `if not is_comb: continue` gives guard (is_comb, True) after flattening
            if not controlled:
                good = False
                why.append("append at line %d is not controlled by the compatibility test; guards %s" % (a.lineno, _g(a)))
        for t in tests:
            args = [src(x) for x in t.args] + [src(k.value) for k in t.keywords]
            if "etype" not in args:
                good = False
                why.append("compatibility test at line %d does not receive etype" % t.lineno)
        obs.append(Ob("C01-R2", "%s:candidates-controlled-by-the-signature-test" % name, _w(f), good,
                      "; ".join(why) or "%d candidate insertions, each under a positive _is_sig*_compatible(…, etype, …)" % len(apps)))
    f = _m(repo, "_is_sigtype_compatible")
    rets = [n for n in iter_own_nodes(f.node) if isinstance(n, ast.Return)]
    vals = sorted(" ".join(src(r.value).split()) for r in rets)
    ok = any(v == "attr_type.is_assignable(etype)" for v in vals) and any(v == "attr_type == etype" for v in vals)
    obs.append(Ob("C01-R2", "_is_sigtype_compatible:is_assignable-or-equality-against-etype", _w(f), ok,
                  "the basic compatibility test must be attr_type.is_assignable(etype) (subtype mode) or attr_type == etype; returns: %s" % vals))
    return obs


def r3_node_type_consistency(repo):
    obs = []
    f = _m(repo, "gen_variable_decl")
    ge = [c for c in calls_in(f.node) if call_name(c) == "generate_expr"]
    vd = [c for c in calls_in(f.node) if call_name(c) == "VariableDeclaration"]
    ok = len(ge) == 1 and len(vd) == 1
    if ok:
        t = src(ge[0].args[0])
        inf = kwarg(vd[0], "inferred_type", 4)
        vt = kwarg(vd[0], "var_type", 3)
        prov = Prov(f.node, passthrough={"get_bound_rec"})
        vt_srcs = {src(s) for s in prov.sources(vt, at=vd[0]) if isinstance(s, (ast.Name,)) or isinstance(s, tuple)}
        g = cfg_of(f.node)
        same_def = g.defs_reaching(t, ge[0]) == g.defs_reaching(t, vd[0])
        vt_ok = isinstance(vt, ast.Name) and all(
            isinstance(d[1], ast.IfExp) and src(d[1].orelse) == t and "get_bound_rec" in src(d[1].body) and
            src(d[1].test) == "%s.is_wildcard()" % t for d in g.defs_reaching(vt.id, vd[0]))
        ok = src(inf) == t and same_def and vt_ok
    obs.append(Ob("C01-R3", "gen_variable_decl:initializer-type=recorded-type", _w(f), ok,
                  "the initializer must be generated for the very type stored as inferred_type (declared type = that type "
                  "or its bound for a wildcard)"))
    f = _m(repo, "gen_assignment")
    asg = [c for c in calls_in(f.node) if call_name(c) == "Assignment"]
    good = len(asg) == 2
    for a in asg:
        ge = a.args[1]
        good = good and isinstance(ge, ast.Call) and call_name(ge) == "generate_expr" and \
            src(ge.args[0]) in ("var_decl.get_type()", "variable.get_type()") and \
            src(a.args[0]) == src(ge.args[0]).split(".")[0] + ".name"
    obs.append(Ob("C01-R3", "gen_assignment:value-type=target-type", _w(f), good,
                  "the assigned expression must be generated for the type of the very variable / field that is assigned"))
    f = _m(repo, "gen_conditional")
    con = [c for c in calls_in(f.node) if call_name(c) == "Conditional"]
    ok = len(con) == 1
    if ok:
        g = cfg_of(f.node)
        prov = Prov(f.node)
        te, fe, ct = con[0].args[1], con[0].args[2], con[0].args[3]

        def gen_type(name_expr):
            defs = g.defs_reaching(name_expr.id, con[0])
            return [src(d[1].args[0]) for d in defs if isinstance(d[1], ast.Call) and call_name(d[1]) == "generate_expr"]
        tt, ft = gen_type(te), gen_type(fe)
        cdefs = g.defs_reaching(ct.id, con[0])
        red = [d[1] for d in cdefs if isinstance(d[1], ast.Call) and call_name(d[1]) == "reduce"] + \
            [d[1][1] for d in cdefs if isinstance(d[1], tuple) and isinstance(d[1][1], ast.AST)]
        red_ok = any(isinstance(r, ast.Call) and call_name(r) == "reduce" and tt and ft and
                     tt[0] in src(r.args[1]) and ft[0] in src(r.args[1]) for r in red)
        if not red_ok and tt and ft:
            # loop form of the fold: the node type derives from both branch types and from nothing generated afresh
            accs = {ct.id} | {d[1].id for d in cdefs if isinstance(d[1], ast.Name)}
            for lp_ in [n for n in iter_own_nodes(f.node) if isinstance(n, ast.For)]:
                elts = {src(e) for e in lp_.iter.elts} if isinstance(lp_.iter, (ast.List, ast.Tuple)) else set()
                folds = [_loop_fold(c) for c in calls_in(lp_) if call_name(c) == "is_subtype"]
                if {tt[0], ft[0]} <= elts and any(fd is not None and fd[0] in accs for fd in folds):
                    red_ok = True
        sub_false = all(const_value(kwarg(c, "subtype", 2)) is False
                        for c in calls_in(f.node) if call_name(c) == "generate_expr" and
                        src(c.args[0]) in (tt + ft))
        ok = bool(tt) and bool(ft) and red_ok and sub_false
    obs.append(Ob("C01-R3", "gen_conditional:node-type-is-the-upper-bound-of-the-branch-types", _w(f), ok,
                  "branches are generated exactly (subtype=False) for true_type / false_type and the node type is the "
                  "reduce over those two types"))
    f = _m(repo, "gen_func_decl")
    body = [c for c in calls_in(f.node) if call_name(c) == "_gen_func_body"]
    fd = [c for c in calls_in(f.node) if call_name(c) == "FunctionDeclaration"]
    ok = len(body) == 1 and len(fd) == 1 and src(body[0].args[0]) == src(fd[0].args[2]) and \
        cfg_of(f.node).defs_reaching(src(body[0].args[0]), body[0]) == cfg_of(f.node).defs_reaching(src(fd[0].args[2]), fd[0])
    obs.append(Ob("C01-R3", "gen_func_decl:body-type=declared-return-type", _w(f), ok,
                  "the body must be generated for the return type stored in the declaration"))
    f = _m(repo, "gen_lambda")
    body = [c for c in calls_in(f.node) if call_name(c) == "_gen_func_body"]
    lm = [c for c in calls_in(f.node) if call_name(c) == "Lambda" and src(c.func) == "ast.Lambda"]
    sig = [n for n in iter_own_nodes(f.node) if isinstance(n, ast.Assign) and src(n.targets[0]) == "signature"]
    ok = len(body) == 1 and len(lm) == 1 and len(sig) == 1 and src(body[0].args[0]) == src(lm[0].args[2]) and \
        src(lm[0].args[2]) in src(sig[0].value) and "param_types" in src(sig[0].value) and src(lm[0].args[4]) == "signature"
    obs.append(Ob("C01-R3", "gen_lambda:body-type=return-type=signature-result", _w(f), ok,
                  "lambda body, recorded return type and the last argument of its function signature must be the same type"))
    f = _m(repo, "_gen_func_body")
    ge = [c for c in calls_in(f.node) if call_name(c) == "generate_expr" and src(c.args[0]) == "expr_type"]
    d = [n for n in iter_own_nodes(f.node) if isinstance(n, ast.Assign) and src(n.targets[0]) == "expr_type"]
    ok = len(ge) == 1 and len(d) == 1 and isinstance(d[0].value, ast.IfExp) and src(d[0].value.orelse) == f.params[1] and \
        "get_void_type()" in src(d[0].value.test)
    obs.append(Ob("C01-R3", "_gen_func_body:result-expression-has-the-return-type", _w(f), ok,
                  "the result expression is generated for ret_type (any type only when the function returns void)"))
    f = _m(repo, "generate_expr")
    vd = [c for c in calls_in(f.node) if call_name(c) == "gen_variable_decl"]
    gen = [n for n in iter_own_nodes(f.node) if isinstance(n, ast.Assign) and src(n.targets[0]) == "expr" and
           isinstance(n.value, ast.Call) and "generators" in src(n.value)]
    ok = len(vd) == 1 and len(gen) == 1 and src(vd[0].args[0]) == src(gen[0].value.args[0]) and \
        src(kwarg(vd[0], "expr", 2)) == "expr"
    obs.append(Ob("C01-R3", "generate_expr:temporary-variable-typed-with-the-generated-type", _w(f), ok,
                  "when the expression is put into a fresh variable, the variable gets the type the expression was generated for"))
    return obs


def r4_substitute_members(repo):
    obs = []
    plan = [("_select_superclass", "class_decl.fields", "type_var_map"),
            ("gen_new", "class_decl.fields", "type_param_map"),
            ("_gen_func_call", "func.params", "params_map"),
            ("gen_class_fields", "chosen_fields", "super_cls_info.type_var_map")]
    for name, it, mp in plan:
        f = _m(repo, name)
        loops = [n for n in iter_own_nodes(f.node) if isinstance(n, ast.For) and src(n.iter) == it]
        ok, msg = len(loops) == 1, "loop over %s not found" % it
        if ok:
            lp = loops[0]
            v = src(lp.target)
            gens = [c for c in calls_in(lp) if call_name(c) in ("generate_expr", "gen_field_decl")]
            g = cfg_of(f.node)
            bad = []
            for c in gens:
                a0 = c.args[0]
                # every value the type expression may take derives from the substituted member type (an element of its
                # type arguments, the bound of a projection of it: still the substituted type's own components)
                leaves = [x for x in Prov(f.node, passthrough={"get_bound_rec", "box_type"}).sources(a0, c)
                          if not isinstance(x, (ast.Attribute, ast.Subscript, ast.Constant)) and
                          not (isinstance(x, ast.Call) and call_name(x) in ("get_bound_rec", "box_type"))]
                good = bool(leaves) and all(isinstance(d, ast.Call) and call_name(d) == "substitute_type" and
                                            len(d.args) >= 2 and src(d.args[0]) == "%s.get_type()" % v and
                                            src(d.args[1]) == mp for d in leaves)
                if not good:
                    bad.append("line %d: `%s`" % (c.lineno, src(c)[:60]))
            ok = bool(gens) and not bad
            msg = ("member types must be substituted with %s before they are used: tp.substitute_type(%s.get_type(), %s); "
                   "offending: %s" % (mp, v, mp, bad))
        obs.append(Ob("C01-R4", "%s:member-types-substituted" % name, _w(f), ok, msg))
    f = _m(repo, "_gen_func_from_existing")
    subs = [c for c in calls_in(f.node) if call_name(c) == "substitute_type"]
    ok = len(subs) >= 4 and any("p.get_type()" in src(c) for c in subs) and any("ret_type" in src(c.args[0]) for c in subs)
    obs.append(Ob("C01-R4", "_gen_func_from_existing:parameter-and-return-types-substituted", _w(f), ok,
                  "an override's parameter types and return type must be the overridden ones substituted with the superclass's type arguments"))
    return obs


def _gen_bottom_ok(f, call, type_expr):
    gb = kwarg(call, "gen_bottom", 4 if call_name(call) == "generate_expr" else None)
    if gb is None:
        return False, "no gen_bottom= argument"
    t = src(type_expr)
    if isinstance(type_expr, ast.Subscript):      # vararg element type: the flag is computed on the array type
        t = src(type_expr.value).rsplit(".type_args", 1)[0]
    ds = [(gb, call)]
    if isinstance(gb, ast.Name):
        g = cfg_of(f.node)
        defs = g.defs_reaching(gb.id, call)
        if not defs or any(v is None for _d, v, _k in defs):
            return False, "gen_bottom has no visible definition"
        ds = [(v, g.stmt(d_)) for d_, v, _k in defs]
    # the type may reach the call through locals (`elem = t.type_args[0]; if elem.is_wildcard(): elem = elem.get_bound_rec()`):
    # the flag may be computed on any name of that chain; a definition made where the type is being unwrapped from a
    # projection (under `<name>.is_wildcard()`) has already answered the first question
    names = {t}
    for s_ in Prov(f.node, passthrough={"get_bound_rec", "box_type"}).sources(type_expr, call):
        if isinstance(s_, ast.AST):
            names |= {x.id for x in ast.walk(s_) if isinstance(x, ast.Name)}
    names |= {x.id for x in ast.walk(type_expr) if isinstance(x, ast.Name)}
    shown = []
    ok = True
    for d, st in ds:
        s = " ".join(src(d).split())
        shown.append(s[:70])
        has = any("%s.has_wildcards()" % n in s for n in names)
        wild = any("%s.is_wildcard()" % n in s for n in names) or \
            any(pol is True and any(" ".join(src(c_).split()) == "%s.is_wildcard()" % n for n in names)
                for c_, pol in flat_guards(st, f.node))
        ok = ok and has and wild
    return ok, "gen_bottom = %s must test both is_wildcard() and has_wildcards() of the type (names %s)" % (
        shown, sorted(names)[:6])


def r5_wildcard_sinks(repo):
    obs = []
    f = _m(repo, "gen_assignment")
    c = [x for x in calls_in(f.node) if call_name(x) == "generate_expr" and src(x.args[0]) == "variable.get_type()"]
    ok, msg = (False, "assignment value generation not found") if len(c) != 1 else _gen_bottom_ok(f, c[0], c[0].args[0])
    obs.append(Ob("C01-R5", "gen_assignment:bottom-for-wildcard-targets", _w(f), ok, msg))
    f = _m(repo, "_gen_func_call")
    pv = Prov(f.node, passthrough={"get_bound_rec", "box_type"})
    cs = [x for x in calls_in(f.node) if call_name(x) == "generate_expr" and
          ("expr_type" in src(x.args[0]) or any(isinstance(s_, ast.AST) and "expr_type" in src(s_)
                                                for s_ in pv.sources(x.args[0], x)))]
    for i, c_ in enumerate(cs):
        ok, msg = _gen_bottom_ok(f, c_, c_.args[0])
        obs.append(Ob("C01-R5", "_gen_func_call:argument#%d:bottom-for-wildcard-parameters" % i, _w(f, c_), ok, msg))
    if len(cs) < 2:
        raise AnalysisError("_gen_func_call: argument generation sites", rule="C01-R5", anchor=f.qualname)
    f = _m(repo, "_gen_func_call_ref")
    c = [x for x in calls_in(f.node) if call_name(x) == "generate_expr" and src(x.args[0]) == "param_type"]
    ok, msg = (False, "argument generation not found") if len(c) != 1 else _gen_bottom_ok(f, c[0], c[0].args[0])
    obs.append(Ob("C01-R5", "_gen_func_call_ref:bottom-for-wildcard-parameters", _w(f), ok, msg))
    return obs


def r11_no_bottom_for_primitives(repo, RID="C01-R11"):
    """`null` / TODO() is not a value of a primitive type: wherever a bottom constant is *forced* by something other than
    the type being a wildcard sink or the class under construction itself, the condition excludes primitive types"""
    obs = []
    gen = repo.cls(GEN)
    for name, f in sorted(gen.methods.items()):
        g = None
        for c in calls_in(f.node):
            if call_name(c) != "generate_expr":
                continue
            gb = kwarg(c, "gen_bottom", 4)
            if gb is None or const_value(gb, 1) is False:
                continue
            defs = [gb]
            if isinstance(gb, ast.Name):
                if gb.id in f.params:
                    continue                                    # forwarded from the caller, judged there
                g = g or cfg_of(f.node)
                ds = g.defs_reaching(gb.id, c)
                if not ds or any(v is None for _d, v, _k in ds):
                    raise AnalysisError("gen_bottom of %s has no visible definition" % f.qualname, rule=RID,
                                        anchor=f.qualname)
                defs = [v for _d, v, _k in ds]
            bad = []
            for d in defs:
                disj = d.values if isinstance(d, ast.BoolOp) and isinstance(d.op, ast.Or) else [d]
                for x in disj:
                    t = " ".join(src(x).split())
                    if ".is_wildcard()" in t or ".has_wildcards()" in t:
                        continue
                    if isinstance(x, ast.Compare) and len(x.ops) == 1 and isinstance(x.ops[0], ast.Eq) and \
                            t.count(".name") == 2:
                        continue                                # the class under construction: never a primitive
                    conj = x.values if isinstance(x, ast.BoolOp) and isinstance(x.op, ast.And) else [x]
                    if any(isinstance(k, ast.UnaryOp) and isinstance(k.op, ast.Not) and
                           " ".join(src(k.operand).split()).endswith(".is_primitive()") for k in conj):
                        continue
                    if const_value(x, 1) is False:
                        continue
                    bad.append(t[:80])
            obs.append(Ob(RID, "%s:%s:bottom-never-forced-for-a-primitive-type" % (name, " ".join(src(c.args[0]).split())[:40]),
                          _w(f, c), not bad,
                          "gen_bottom may be true through %s: a bottom constant (null / TODO()) would be generated for a "
                          "primitive type; every alternative must test the wildcard sink, the class under construction, "
                          "or `not <type>.is_primitive()`" % bad))
    return obs


def r12_repurposed_type_params(repo):
    """_create_type_params_from_etype builds the type parameters of a fresh class that stands for an existing type with
    type variables: each parameter drawn with gen_type_params (random bound, random variance) takes the place of one of
    those variables and must get *that variable's* bound and no variance on every path before it is registered -
    otherwise the receiver type Fresh<T> instantiates a parameter with a bound T does not satisfy"""
    obs = []
    f = _m(repo, "_create_type_params_from_etype")
    g = cfg_of(f.node)
    regs = [n for n in iter_own_nodes(f.node) if isinstance(n, ast.Assign) and isinstance(n.targets[0], ast.Subscript)
            and isinstance(n.value, ast.Name)]
    rets = [n for n in iter_own_nodes(f.node) if isinstance(n, ast.Return) and isinstance(n.value, ast.Tuple) and
            len(n.value.elts) == 3 and isinstance(n.value.elts[1], ast.Dict)]
    sites = []
    for n in regs:                                  # type_var_map[type_var] = type_param
        sites.append((n, n.value.id, "map-entry"))
    for n in rets:                                  # return type_params, {etype: type_params[0]}, True
        sites.append((n, src(n.value.elts[1].values[0]), "single-variable"))
    if not sites:
        raise AnalysisError("no registration of a re-purposed type parameter found", rule="C01-R12", anchor=f.qualname)
    for reg, pname, kind in sites:
        base = pname.split("[")[0]
        defs = [d for d in g.defs_reaching(base, reg)]
        if not defs:
            raise AnalysisError("no definition of %s" % base, rule="C01-R12", anchor=f.qualname)
        for attr, want in (("bound", None), ("variance", "tp.Invariant")):
            stores = [n for n in iter_own_nodes(f.node) if isinstance(n, ast.Assign) and
                      src(n.targets[0]) == "%s.%s" % (pname, attr)]
            avoid = [g.node(x) for x in stores]
            okv = all(want is None or src(x.value) == want for x in stores)
            escapes = []
            for d_node, _v, _k in defs:
                if g.path_exists_avoiding(d_node, g.node(reg), avoid):
                    escapes.append(g.stmt(d_node).lineno)
            obs.append(Ob("C01-R12", "%s:%s:%s-set-on-every-path" % (kind, pname, attr), _w(f, reg),
                          bool(stores) and not escapes and okv,
                          "a path from the choice of `%s` (line %s) reaches its registration without a store to `%s.%s`: the "
                          "parameter keeps what gen_type_params drew at random" % (pname, escapes or "-", pname, attr)))
    return obs


def r13_single_vararg(repo):
    """a parameter list has at most one vararg: wherever a loop over the parameters turns one into a vararg, the store is
    latched (guarded by `not <flag>` and followed by `<flag> = True` in the same branch)"""
    obs = []
    gen = repo.cls(GEN)
    for name, f in sorted(gen.methods.items()):
        for st in iter_own_nodes(f.node):
            if not (isinstance(st, ast.Assign) and isinstance(st.targets[0], ast.Attribute) and
                    st.targets[0].attr == "vararg" and const_value(st.value) is True):
                continue
            loops = [a for a in ancestors(st) if isinstance(a, (ast.For, ast.While))]
            if not loops:
                continue
            gs = [(src(t), p) for t, p in flat_guards(st, stop=loops[0])]
            # a latch: the branch is entered only while <flag> is falsy / None, and the branch itself binds <flag>
            # (`not found` ... `found = True`, or `index is None` ... `index = i`)
            flags = [t for t, p in gs if not p and t.isidentifier()] + \
                [t[:-len(" is None")] for t, p in gs if p and t.endswith(" is None") and t[:-len(" is None")].isidentifier()]
            blk = getattr(st, "_parent", None)
            sets = [n for n in getattr(blk, "body", []) if isinstance(n, ast.Assign) and src(n.targets[0]) in flags and
                    const_value(n.value, 1) not in (None, False, 0)] if isinstance(blk, ast.If) else []
            obs.append(Ob("C01-R13", "%s:vararg-latched" % name, _w(f, st), bool(sets),
                          "`%s` inside a loop over the parameters under %s: nothing prevents a second vararg (expected a "
                          "`not <flag>` guard whose branch sets the flag)" % (src(st), [("" if p else "not ") + t for t, p in gs])))
    return obs


def r6_inheritance(repo):
    obs = []
    f = _m(repo, "_select_superclass")
    inner = f.nested.get("is_cls_candidate")
    ok = inner is not None
    if ok:
        body = " ".join(src(inner.node).split())
        ok = "not cls.is_final" in body and "cls.name == current_cls" in body and "self._blacklisted_classes" in body
        last = inner.node.body[-1]
        ok = ok and isinstance(last, ast.Return) and isinstance(last.value, ast.BoolOp) and \
            isinstance(last.value.op, ast.And) and src(last.value.values[0]) == "not cls.is_final"
        excl = {}
        for st in inner.node.body:
            if isinstance(st, ast.If) and len(st.body) == 1 and isinstance(st.body[0], ast.Return) and \
                    const_value(st.body[0].value, 1) is False and not st.orelse:
                excl[" ".join(src(st.test).split())] = True
        ok = ok and "cls.name == current_cls" in excl and "cls.name in self._blacklisted_classes" in excl
    comp = [n for n in iter_own_nodes(f.node) if isinstance(n, ast.ListComp) and "is_cls_candidate" in src(n)]
    ok = ok and len(comp) == 1 and [src(i) for i in comp[0].generators[0].ifs] == ["is_cls_candidate(c)"]
    ch = [c for c in calls_in(f.node) if call_name(c) == "choice"]
    ok = ok and len(ch) == 1 and src(ch[0].args[0]) == "class_decls"
    obs.append(Ob("C01-R6", "_select_superclass:no-final-no-self-no-class-under-construction", _w(f), ok,
                  "superclass candidates must exclude final classes, the class itself and blacklisted (unfinished) classes"))
    f = _m(repo, "gen_class_functions")
    loops = [n for n in iter_own_nodes(f.node) if isinstance(n, ast.For) and src(n.iter) == "abstract_funcs"]
    ok = len(loops) == 1
    if ok:
        lp = loops[0]
        apps = [c for c in calls_in(lp) if call_name(c) == "append" and isinstance(c.args[0], ast.Call) and
                call_name(c.args[0]) == "_gen_func_from_existing"]
        ok = len(apps) == 1 and not flat_guards(apps[0], stop=lp) and \
            not any(isinstance(n, (ast.Continue, ast.Break)) for n in iter_own_nodes(lp)) and \
            src(apps[0].args[0].args[0]) == src(lp.target)
        gs = _g(lp)
        ok = ok and ("curr_cls.is_regular()", True) in gs
        d = cfg_of(f.node).defs_reaching("abstract_funcs", lp)
        ok = ok and any(isinstance(x[1], ast.Call) and call_name(x[1]) == "get_abstract_functions" for x in d)
        # nothing leaves between the computation of the abstract functions and the loop that implements them (a budget
        # test that returns early leaves a regular class with unimplemented abstract functions)
        g = cfg_of(f.node)
        dstm = [g.stmt(x[0]) for x in d if isinstance(x[1], ast.Call) and call_name(x[1]) == "get_abstract_functions"]
        if ok and dstm:
            ds = dstm[0]
            same = {(src(t), p) for t, p in flat_guards(ds)} == {(src(t), p) for t, p in flat_guards(lp)}
            blk = None
            par = getattr(ds, "_parent", None)
            for fld in ("body", "orelse", "finalbody"):
                b = getattr(par, fld, None)
                if isinstance(b, list) and ds in b and lp in b:
                    blk = b
            between = blk[blk.index(ds) + 1:blk.index(lp)] if blk is not None else None
            leaves = between is None or any(isinstance(n, (ast.Return, ast.Raise, ast.Continue, ast.Break))
                                            for st in between for n in ast.walk(st))
            ok = same and not leaves
    obs.append(Ob("C01-R6", "gen_class_functions:every-inherited-abstract-function-implemented", _w(f), ok,
                  "in a regular class every element of get_abstract_functions(...) must reach _gen_func_from_existing (no filter, no continue)"))
    samp = [c for c in calls_in(f.node) if call_name(c) == "sample"]
    ok = len(samp) == 1
    if ok:
        prov = Prov(f.node)
        srcs = [s for s in prov.sources(samp[0].args[0], at=samp[0]) if isinstance(s, ast.Call)]
        ok = any(call_name(s) == "get_overridable_functions" for s in srcs)
    obs.append(Ob("C01-R6", "gen_class_functions:overrides-sampled-from-overridable-functions", _w(f), ok,
                  "overridden functions must be sampled from get_overridable_functions()"))
    f = _m(repo, "_gen_func_from_existing")
    call = [c for c in calls_in(f.node) if call_name(c) == "gen_func_decl"]
    ok = len(call) == 1
    if ok:
        c = call[0]
        ok = src(kwarg(c, "func_name", 3)) == "func.name" and src(kwarg(c, "params", 4)) == "params" and \
            src(kwarg(c, "etype", 0)) == "ret_type"
        pd = cfg_of(f.node).defs_reaching("params", c)
        ok = ok and any(isinstance(d[1], ast.Call) and call_name(d[1]) == "deepcopy" and
                        src(d[1].args[0]) == "func.params" for d in pd)
        ov = [n for n in iter_own_nodes(f.node) if isinstance(n, ast.Assign) and src(n.targets[0]).endswith(".override")]
        ok = ok and len(ov) == 1 and const_value(ov[0].value) is True and not flat_guards(ov[0])
    obs.append(Ob("C01-R6", "_gen_func_from_existing:override-keeps-name-parameters-return-type", _w(f), ok,
                  "an override is generated with the overridden name, deep-copied parameters, the substituted return type, and override = True"))
    f = _m(repo, "gen_class_fields")
    st = {src(n.targets[0]): n for n in iter_own_nodes(f.node) if isinstance(n, ast.Assign) and
          src(n.targets[0]).startswith("new_f.")}
    ok = src(st.get("new_f.name").value) == "f.name" if "new_f.name" in st else False
    ok = ok and "new_f.override" in st and const_value(st["new_f.override"].value) is True
    # the overriding field is exactly as final as the field it overrides (a `val` cannot become assignable, a `var` stays so)
    ok = ok and "new_f.is_final" in st and src(st["new_f.is_final"].value) == "f.is_final"
    samp = [c for c in calls_in(f.node) if call_name(c) == "sample"]
    ok = ok and len(samp) == 1 and src(samp[0].args[0]) == "overridable_fields"
    obs.append(Ob("C01-R6", "gen_class_fields:overridden-fields-keep-name-and-come-from-overridable-fields", _w(f), ok,
                  "overriding fields are sampled from get_overridable_fields(), keep the name and are marked override"))
    return obs


def r7_narrowing(repo):
    obs = []
    f = _m(repo, "generate_expr")
    fs = [c for c in calls_in(f.node) if call_name(c) in ("find_subtypes", "find_supertypes")]
    ok = len(fs) == 1 and call_name(fs[0]) == "find_subtypes" and src(fs[0].args[0]) == "expr_type" and \
        const_value(kwarg(fs[0], "include_self", 2)) is True and const_value(kwarg(fs[0], "concrete_only", 4)) is True
    if ok:
        gs = _g(fs[0])
        flag = [s for s, pol in gs if pol]
        d = cfg_of(f.node).defs_reaching(flag[0], fs[0]) if len(flag) == 1 else []
        cond = " ".join(src(d[0][1]).split()) if len(d) == 1 else ""
        ok = "subtype" in cond and "get_void_type()" in cond and "expr_type" in cond and " and " in cond and " or " not in cond
    obs.append(Ob("C01-R7", "generate_expr:narrowing-only-to-subtypes-under-the-subtype-flag", _w(f), ok,
                  "the expected type may be replaced only by an element of find_subtypes(expr_type, include_self=True, "
                  "concrete_only=True), only when the caller allowed subtypes and the type is not void"))
    f = _m(repo, "gen_conditional")
    fs = [c for c in calls_in(f.node) if call_name(c) in ("find_subtypes", "find_supertypes")]
    ok = len(fs) == 1 and call_name(fs[0]) == "find_subtypes" and src(fs[0].args[0]) == "etype" and \
        const_value(kwarg(fs[0], "include_self", 2)) is True and ("subtype", True) in _g(fs[0])
    obs.append(Ob("C01-R7", "gen_conditional:branch-types-are-subtypes-under-the-subtype-flag", _w(f), ok,
                  "branch types are drawn from find_subtypes(etype, include_self=True) only under `subtype`; otherwise etype itself"))
    f = _m(repo, "gen_is_expr")
    fs = [c for c in calls_in(f.node) if call_name(c) in ("find_subtypes", "find_supertypes")]
    ok = len(fs) >= 1 and all(call_name(c) == "find_subtypes" for c in fs)
    obs.append(Ob("C01-R7", "gen_is_expr:smart-cast-targets-are-subtypes", _w(f), ok,
                  "the types tested by `is` must come from find_subtypes (a smart cast narrows)"))
    # exact-type positions pass subtype=False
    f = _m(repo, "gen_new")
    ge = [c for c in calls_in(f.node) if call_name(c) == "generate_expr" and "expr_type" in src(c.args[0])]
    ok = len(ge) == 1 and const_value(kwarg(ge[0], "subtype", 2)) is False
    obs.append(Ob("C01-R7", "gen_new:constructor-arguments-exact", _w(f), ok,
                  "constructor arguments are generated with subtype=False (type arguments of the created object are fixed by them)"))
    return obs


def r8_call_assembly(repo):
    """A call node is assembled from the very declaration / maps the arguments were generated for."""
    obs = []
    f = _m(repo, "_gen_func_call")
    fc = [c for c in calls_in(f.node) if call_name(c) == "FunctionCall"]
    ok = len(fc) == 1
    if ok:
        c = fc[0]
        ta = kwarg(c, "type_args", 3)
        g = cfg_of(f.node)
        d = g.defs_reaching(ta.id, c) if isinstance(ta, ast.Name) else []
        shape = len(d) == 1 and isinstance(d[0][1], ast.IfExp) and isinstance(d[0][1].orelse, ast.ListComp) and \
            src(d[0][1].test) == "not func.is_parameterized()" and isinstance(d[0][1].body, ast.List) and not d[0][1].body.elts
        if shape:
            lc = d[0][1].orelse
            shape = src(lc.generators[0].iter) == "func.type_parameters" and not lc.generators[0].ifs and \
                src(lc.elt) == "func_type_map[%s]" % src(lc.generators[0].target)
        ok = shape and src(c.args[0]) == "func.name" and src(c.args[1]) == "args" and src(c.args[2]) == "receiver"
        # func, receiver, maps all come from the one selected candidate
        sel = g.defs_reaching("rand_func", c) if ok else []
        names = {"func": "attr_decl", "receiver": "receiver_expr", "params_map": "receiver_inst", "func_type_map": "attr_inst"}
        for nm, attr in names.items():
            dd = g.defs_reaching(nm, c)
            ok = ok and len(dd) == 1 and src(dd[0][1]).endswith("." + attr) and \
                src(dd[0][1]).split(".")[0] == src(c.args[0]).split(".")[0].replace("func", src(dd[0][1]).split(".")[0])
    obs.append(Ob("C01-R8", "_gen_func_call:node-assembled-from-the-selected-candidate", _w(f), ok,
                  "name, receiver, the substitution map used for the arguments and the explicit type arguments (one per type "
                  "parameter of the callee, taken from its type-variable map) must all come from the one selected candidate"))
    upd = [c for c in calls_in(f.node) if call_name(c) == "update" and src(c.func.value) == "params_map"]
    loops = [n for n in iter_own_nodes(f.node) if isinstance(n, ast.For) and src(n.iter) == "func.params"]
    ok = len(upd) == 1 and len(loops) == 1 and upd[0].lineno < loops[0].lineno and "func_type_map" in src(upd[0].args[0])
    obs.append(Ob("C01-R8", "_gen_func_call:method-type-arguments-merged-before-parameter-types-are-substituted", _w(f), ok,
                  "the callee's own type-variable assignments must be merged into the substitution map before argument types are computed"))
    f = _m(repo, "gen_new")
    nw = [c for c in calls_in(f.node) if call_name(c) == "New" and src(c.args[0]) == "new_type"]
    ok = len(nw) == 1 and src(nw[0].args[1]) == "args"
    if ok:
        g = cfg_of(f.node)
        d = g.defs_reaching("new_type", nw[0])
        texts = sorted(src(x[1]) for x in d if isinstance(x[1], ast.AST))
        ok = texts == ["class_decl.get_type()", "new_type.new(etype.type_args)"]
        tm = [n for n in iter_own_nodes(f.node) if isinstance(n, ast.Assign) and src(n.targets[0]) == "type_param_map"]
        ok = ok and len(tm) == 1 and "etype.type_args[i]" in src(tm[0].value) and "class_decl.type_parameters" in src(tm[0].value)
    obs.append(Ob("C01-R8", "gen_new:created-type-uses-the-type-arguments-the-fields-were-substituted-with", _w(f), ok,
                  "constructor arguments are generated for field types substituted with etype.type_args, and the created "
                  "type is class_decl's constructor instantiated with the same etype.type_args"))
    return obs


TYPE_ATTRS = {"param_type", "field_type", "ret_type", "inferred_type", "type_parameters", "params", "bound"}


def r9_inherited_members(repo, rid="C01-R9"):
    """Members seen through a subclass are copies of the declared ones with only their types substituted."""
    obs = []
    for name in ("get_callable_functions", "get_abstract_functions", "get_all_fields"):
        f = repo.method("src.ir.ast.ClassDeclaration", name, inherited=False)
        g = cfg_of(f.node)
        fresh = {}
        for n in iter_own_nodes(f.node):
            if isinstance(n, ast.Assign) and isinstance(n.targets[0], ast.Name) and isinstance(n.value, ast.Call):
                cn = call_name(n.value)
                if cn == "deepcopy":
                    fresh[n.targets[0].id] = ("deepcopy", n)
                elif cn in ("ParameterDeclaration", "FunctionDeclaration", "FieldDeclaration"):
                    fresh[n.targets[0].id] = ("rebuilt", n)
        rebuilt = [k for k, v in fresh.items() if v[0] == "rebuilt"]
        stores = [n for n in iter_own_nodes(f.node) if isinstance(n, ast.Assign) and isinstance(n.targets[0], ast.Attribute)
                  and isinstance(n.targets[0].value, ast.Name) and n.targets[0].value.id in fresh]
        other = sorted({n.targets[0].attr for n in stores} - TYPE_ATTRS)
        ctor_calls = [c for c in calls_in(f.node) if call_name(c) in ("ParameterDeclaration", "FunctionDeclaration", "FieldDeclaration")]
        # a copied function carries its type twice (ret_type: what is printed, inferred_type: what get_type() answers):
        # substituting one of them only leaves the other one talking about the superclass's type variables
        half = []
        for v in fresh:
            attrs = {n.targets[0].attr for n in stores if n.targets[0].value.id == v}
            if len(attrs & {"ret_type", "inferred_type"}) == 1:
                half.append("%s.%s only" % (v, sorted(attrs & {"ret_type", "inferred_type"})[0]))
        obs.append(Ob(rid, "%s:declared-and-inferred-type-substituted-together" % name, _w(f), not half,
                      "ret_type and inferred_type of a copied function must be written together: %s" % half))
        # what comes out of the recursion into the superclass enters the result only as its substituted copy
        rec = [c for c in calls_in(f.node) if call_name(c) == name]
        prov = Prov(f.node)
        inherited = {}
        for n in iter_own_nodes(f.node):
            gens = [(n.target, n.iter)] if isinstance(n, ast.For) else \
                [(g_.target, g_.iter) for g_ in n.generators] if isinstance(n, (ast.ListComp, ast.SetComp, ast.GeneratorExp,
                                                                               ast.DictComp)) else []
            for tgt, it in gens:
                if any(any(s_ is c for c in rec) for s_ in prov.sources(it)):
                    for x in ast.walk(tgt):
                        if isinstance(x, ast.Name):
                            inherited[x.id] = n
        raw = []
        for c in calls_in(f.node):
            if not (isinstance(c.func, ast.Attribute) and c.func.attr in ("add", "append", "update", "extend", "insert")):
                continue
            for a in c.args:
                elts = [a.elt] if isinstance(a, (ast.ListComp, ast.SetComp, ast.GeneratorExp)) else [a]
                for e_ in elts:
                    if isinstance(e_, ast.Name) and e_.id in inherited and e_.id not in fresh:
                        raw.append(" ".join(src(c).split())[:70])
                    elif isinstance(a, ast.Name) and any(any(s_ is k for k in rec) for s_ in prov.sources(a)):
                        raw.append(" ".join(src(c).split())[:70])
        for r_ in [n for n in iter_own_nodes(f.node) if isinstance(n, ast.Return) and n.value is not None]:
            if any(s_ is k for k in rec for s_ in prov.sources(r_.value) if isinstance(s_, ast.AST)) and \
                    isinstance(r_.value, (ast.Name, ast.Call)) and not any(
                        isinstance(x, ast.Name) and x.id in fresh for x in ast.walk(r_.value)):
                if isinstance(r_.value, ast.Call) or r_.value.id not in [src(c.func.value) for c in calls_in(f.node)
                                                                        if isinstance(c.func, ast.Attribute)]:
                    raw.append(" ".join(src(r_).split())[:70])
        obs.append(Ob(rid, "%s:inherited-members-enter-only-as-substituted-copies" % name, _w(f), bool(rec) and not raw,
                      "what the superclass's %s() returns must be copied and substituted before it joins the result "
                      "(%d recursive call(s)); raw members added / returned: %s" % (name, len(rec), sorted(set(raw))[:4])))
        ok = bool(fresh) and not rebuilt and not other and not ctor_calls
        obs.append(Ob(rid, "%s:members-are-deep-copies-with-substituted-types" % name, _w(f), ok,
                      "inherited members must be deepcopy(<member>) with only type attributes reassigned (%s); rebuilding a "
                      "declaration by hand drops attributes such as vararg / default / override: rebuilt %s, constructor calls %s, "
                      "other attributes written %s" % (sorted(TYPE_ATTRS), rebuilt, [src(c)[:40] for c in ctor_calls], other)))
    return obs


# the subtype lattice of the target languages' built-in types (direct or indirect supertypes a built-in may declare);
# source: Kotlin spec 'Built-in types', Scala 3 reference 'Unified types' (numeric types, Char, Boolean, Unit are AnyVal,
# not AnyRef and not java.lang.Number), JLS 4.2 / java.lang (wrapper classes extend Number or Object)
_NUM = ("IntegerType", "ShortType", "LongType", "ByteType", "FloatType", "DoubleType")
BUILTIN_LATTICE = {
    "kotlin": dict({"AnyType": set(), "NothingType": set(), "UnitType": {"AnyType"}, "NumberType": {"AnyType"},
                    "CharType": {"AnyType"}, "StringType": {"AnyType"}, "BooleanType": {"AnyType"},
                    "ArrayType": {"AnyType"}, "SpecializedArrayType": {"AnyType"}, "FunctionType": {"AnyType"}},
                   **{n: {"NumberType", "AnyType"} for n in _NUM}),
    "scala": dict({"AnyType": set(), "NothingType": set(), "AnyRefType": {"AnyType"}, "UnitType": {"AnyType"},
                   "NumberType": {"AnyRefType", "AnyType"}, "CharType": {"AnyType"}, "BooleanType": {"AnyType"},
                   "StringType": {"AnyRefType", "AnyType"}, "ArrayType": {"AnyRefType", "AnyType"},
                   "SeqType": {"AnyRefType", "AnyType"}, "FunctionType": {"AnyRefType", "AnyType"},
                   "TupleType": {"AnyRefType", "AnyType"}},
                  **{n: {"AnyType"} for n in _NUM}),
    "java": dict({"ObjectType": set(), "VoidType": {"ObjectType"}, "NumberType": {"ObjectType"},
                  "CharType": {"ObjectType"}, "StringType": {"ObjectType"}, "BooleanType": {"ObjectType"},
                  "ArrayType": {"ObjectType"}, "FunctionType": {"ObjectType"}},
                 **{n: {"NumberType", "ObjectType"} for n in _NUM}),
    "groovy": dict({"ObjectType": set(), "VoidType": {"ObjectType"}, "NumberType": {"ObjectType"},
                    "CharType": {"ObjectType"}, "StringType": {"ObjectType"}, "BooleanType": {"ObjectType"},
                    "ArrayType": {"ObjectType"}, "FunctionType": {"ObjectType"}},
                   **{n: {"NumberType", "ObjectType"} for n in _NUM + ("BigIntegerType", "BigDecimalType")}),
}


def r10_builtin_lattice(repo):
    """The generator takes `Int <: Number` from these tables when it draws a subtype for an expected type; the target
    compiler takes it from the language.  Every supertype a built-in declares must be one of its supertypes in the
    language (a missing one only loses diversity, an extra one makes the compiler reject a program the tool calls
    well-typed)."""
    obs = []
    for lang, table in sorted(BUILTIN_LATTICE.items()):
        mod = repo.module("src.ir.%s_types" % lang)
        n = 0
        for c in sorted([c for c in repo.classes.values() if c.module is mod], key=lambda c: c.node.lineno):
            if c.name.endswith(("Factory", "Builtin")):
                continue
            decl = []
            from ..irwrites import _ctor_helper
            # a constructor body split into a private helper (`self._init_supertypes()`, possibly inherited): what the
            # helper declares belongs to the classes whose constructors call it, not to the class that defines it
            own = [m for m in c.methods.values() if not _ctor_helper(m)]
            for m in list(own):
                if m.name != "__init__":
                    continue
                for k in calls_in(m.node):
                    if isinstance(k.func, ast.Attribute) and isinstance(k.func.value, ast.Name) and k.func.value.id == "self":
                        h = c.lookup(k.func.attr)
                        if h is not None and _ctor_helper(h) and h not in own:
                            own.append(h)
            for m in own:
                for k in calls_in(m.node):
                    if isinstance(k.func, ast.Attribute) and k.func.attr in ("append", "extend", "insert") and \
                            "supertypes" in src(k.func.value):
                        for a in k.args:
                            for x in ast.walk(a):
                                if isinstance(x, ast.Call):
                                    decl.append(call_name(x))
                for st in iter_own_nodes(m.node):
                    if isinstance(st, ast.Assign) and any(src(t).endswith(".supertypes") for t in st.targets):
                        decl += [call_name(x) for x in ast.walk(st.value) if isinstance(x, ast.Call)]
            if c.name not in table:
                obs.append(Ob("C01-R10", "%s:%s:not-in-the-language-table" % (lang, c.name), _w(c), True,
                              "built-in %s is not in the checker's table of %s: its supertypes %s are not judged"
                              % (c.name, lang, decl), {"judged": False}))
                continue
            n += 1
            extra = sorted(set(decl) - table[c.name] - {"list", "copy", "set", "tuple", "frozenset"})
            obs.append(Ob("C01-R10", "%s:%s:supertypes-within-the-language" % (lang, c.name), _w(c), not extra,
                          "%s %s declares the supertypes %s; in %s it is a subtype of %s only - not of %s"
                          % (lang, c.name, sorted(set(decl)), lang, sorted(table[c.name]) or "nothing", extra)))
        obs.append(Ob("C01-R10", "%s:built-ins-judged>=12" % lang, mod.relpath, n >= 12, "%d built-ins judged" % n))
    return obs


def rules():
    return [
        RuleSpec("C01-R1", "direction of every compatibility test in the generator", 8, r1_direction),
        RuleSpec("C01-R2", "selection routines choose only from candidates that passed the test", 8, r2_filtered_choice),
        RuleSpec("C01-R3", "type used to generate a sub-expression = type recorded in the node", 7, r3_node_type_consistency),
        RuleSpec("C01-R4", "member types substituted before use", 5, r4_substitute_members),
        RuleSpec("C01-R5", "wildcard sinks get a bottom value", 4, r5_wildcard_sinks),
        RuleSpec("C01-R6", "inheritance obligations", 5, r6_inheritance),
        RuleSpec("C01-R7", "expected types are only narrowed, under the subtype flag", 4, r7_narrowing),
        RuleSpec("C01-R8", "call / constructor nodes assembled from the selected candidate", 3, r8_call_assembly),
        RuleSpec("C01-R9", "inherited members are deep copies with substituted types", 9, r9_inherited_members),
        RuleSpec("C01-R10", "declared supertypes of the built-in types lie within the target language's lattice", 60, r10_builtin_lattice),
        RuleSpec("C01-R11", "a bottom constant is never forced for a primitive type", 5, r11_no_bottom_for_primitives),
        RuleSpec("C01-R13", "at most one vararg parameter per parameter list (latched store)", 1, r13_single_vararg),
        RuleSpec("C01-R12", "type parameters of a class built for an existing type take that type's bounds, on every path", 4,
                 r12_repurposed_type_params),
    ]


# -- variants --------------------------------------------------------------------------

def _v_swap_lambda(tree):
    f = V.find_def(tree, "Generator.gen_variable")
    lam = V.one([n for n in ast.walk(f) if isinstance(n, ast.Lambda) and "is_assignable" in ast.unparse(n)])
    lam.body = V.parse_expr("t.is_assignable(v.get_type())")


def _v_swap_ref(tree):
    f = V.find_def(tree, "Generator._gen_func_call_ref")
    c = V.one([n for n in ast.walk(f) if V.is_call_named(n, "is_assignable")])
    c.func.value, c.args[0] = c.args[0], c.func.value


def _v_conditional_subtype(tree):
    f = V.find_def(tree, "Generator.gen_conditional")
    lam = V.one([n for n in ast.walk(f) if isinstance(n, ast.Lambda)])
    lam.body = V.parse_expr("x if x.is_subtype(acc) else acc")


def _v_drop_filter(tree):
    f = V.find_def(tree, "Generator.gen_variable")
    st = V.one([n for n in f.body if isinstance(n, ast.Assign) and isinstance(n.value, ast.ListComp)])
    st.value.generators[0].ifs = []


def _v_matching_unfiltered(tree):
    f = V.find_def(tree, "Generator._get_matching_function_declarations")
    iffs = [n for n in ast.walk(f) if isinstance(n, ast.If) and isinstance(n.test, ast.UnaryOp) and
            any(isinstance(x, ast.Continue) for x in n.body)]
    cands = [n for n in iffs if "is_comb" in ast.unparse(n.test) or "compatible" in ast.unparse(n.test)]
    V.remove_stmt(tree, V.one(cands))


def _v_other_type(tree):
    f = V.find_def(tree, "Generator.gen_variable_decl")
    c = V.one([n for n in ast.walk(f) if V.is_call_named(n, "generate_expr")])
    c.args[0] = V.parse_expr("self.select_type()")


def _v_unsubstituted(tree):
    f = V.find_def(tree, "Generator.gen_new")
    st = V.one([n for n in ast.walk(f) if isinstance(n, ast.Assign) and ast.unparse(n.targets[0]) == "expr_type"
                and "substitute_type" in ast.unparse(n.value)])
    st.value = V.parse_expr("field.get_type()")


def _v_no_bottom(tree):
    f = V.find_def(tree, "Generator._gen_func_call")
    c = V.one([n for n in ast.walk(f) if V.is_call_named(n, "generate_expr") and
               any(k.arg == "gen_bottom" for k in n.keywords) and "type_args" not in ast.unparse(n.args[0])])
    c.keywords = [k for k in c.keywords if k.arg != "gen_bottom"]


def _v_half_bottom(tree):
    f = V.find_def(tree, "Generator.gen_assignment")
    st = V.one([n for n in f.body if isinstance(n, ast.Assign) and ast.unparse(n.targets[0]) == "gen_bottom"])
    st.value = V.parse_expr("variable.get_type().is_wildcard()")


def _v_final_super(tree):
    f = V.find_def(tree, "Generator._select_superclass.is_cls_candidate")
    r = f.body[-1]
    r.value = V.parse_expr("cls.is_interface() if only_interfaces else True")


def _v_blacklisted_super(tree):
    f = V.find_def(tree, "Generator._select_superclass.is_cls_candidate")
    iff = V.one([n for n in f.body if isinstance(n, ast.If) and "_blacklisted_classes" in ast.unparse(n.test)])
    f.body.remove(iff)


def _v_skip_abstract(tree):
    f = V.find_def(tree, "Generator.gen_class_functions")
    lp = V.one([n for n in ast.walk(f) if isinstance(n, ast.For) and ast.unparse(n.iter) == "abstract_funcs"])
    lp.body.insert(0, V.parse_stmts("if f.is_parameterized():\n    continue")[0])


def _v_supertypes(tree):
    f = V.find_def(tree, "Generator.generate_expr")
    c = V.one([n for n in ast.walk(f) if V.is_call_named(n, "find_subtypes")])
    c.func.attr = "find_supertypes"


def _v_narrow_always(tree):
    f = V.find_def(tree, "Generator.generate_expr")
    st = V.one([n for n in f.body if isinstance(n, ast.Assign) and ast.unparse(n.targets[0]) == "find_subtype"])
    st.value = V.parse_expr("expr_type and expr_type != self.bt_factory.get_void_type() and ut.random.bool()")


def _v_type_args_reversed(tree):
    f = V.find_def(tree, "Generator._gen_func_call")
    lc = V.one([n for n in ast.walk(f) if isinstance(n, ast.ListComp) and "func_type_map[" in ast.unparse(n)])
    lc.generators[0].iter = V.parse_expr("reversed(func.type_parameters)")


def _v_new_other_args(tree):
    f = V.find_def(tree, "Generator.gen_new")
    st = V.one([n for n in ast.walk(f) if isinstance(n, ast.Assign) and ast.unparse(n.targets[0]) == "new_type"
                and ".new(" in ast.unparse(n.value)])
    st.value = V.parse_expr("tu.instantiate_type_constructor(new_type, self.get_types())[0]")


def _v_rebuilt_param(tree):
    f = V.find_def(tree, "ClassDeclaration.get_callable_functions")
    st = V.one([n for n in ast.walk(f) if isinstance(n, ast.Assign) and ast.unparse(n.targets[0]) == "new_p"])
    st.value = V.parse_expr("ParameterDeclaration(p.name, p.get_type(), default=p.default)")


def _t_rename(tree):
    f = V.find_def(tree, "Generator._gen_func_call")
    V.rename_local(f, "rand_func", "picked")
    V.rename_local(f, "arg", "argument")


def _v_bottom_for_primitives(tree):
    f = V.find_def(tree, "Generator.gen_new")
    xs = [n for n in ast.walk(f) if isinstance(n, ast.BoolOp) and isinstance(n.op, ast.And) and
          any(ast.unparse(v) == "not expr_type.is_primitive()" for v in n.values)]
    if not xs:
        raise V.SkipVariant("depth cut-off of gen_new")
    x = xs[0]
    keep = [v for v in x.values if ast.unparse(v) != "not expr_type.is_primitive()"]
    V.replace_node(tree, x, keep[0] if len(keep) == 1 else ast.BoolOp(op=ast.And(), values=keep))


def variants():
    g = "src/generators/generator.py"
    return [
        V.Variant("gen_variable asks expected.is_assignable(candidate)", g, _v_swap_lambda, {"C01-R1"}),
        V.Variant("gen_new: depth cut-off forces a bottom constant also for primitive fields", g, _v_bottom_for_primitives, {"C01-R11"}),
        V.Variant("_gen_func_call_ref asks etype.is_assignable(ret_type)", g, _v_swap_ref, {"C01-R1"}),
        V.Variant("conditional type folds to the subtype", g, _v_conditional_subtype, {"C01-R1"}),
        V.Variant("gen_variable drops the compatibility filter", g, _v_drop_filter, {"C01-R2"}),
        V.Variant("matching functions not filtered by the signature test", g, _v_matching_unfiltered, {"C01-R2"}),
        V.Variant("initializer generated for another type", g, _v_other_type, {"C01-R3"}),
        V.Variant("constructor arguments use unsubstituted field types", g, _v_unsubstituted, {"C01-R4"}),
        V.Variant("call arguments without gen_bottom", g, _v_no_bottom, {"C01-R5"}),
        V.Variant("assignment bottom flag ignores nested wildcards", g, _v_half_bottom, {"C01-R5"}),
        V.Variant("final classes can be extended", g, _v_final_super, {"C01-R6"}),
        V.Variant("a class under construction can be extended", g, _v_blacklisted_super, {"C01-R6"}),
        V.Variant("parameterized abstract functions not implemented", g, _v_skip_abstract, {"C01-R6"}),
        V.Variant("expected type widened with find_supertypes", g, _v_supertypes, {"C01-R7"}),
        V.Variant("narrowing ignores the caller's subtype flag", g, _v_narrow_always, {"C01-R7"}),
        V.Variant("explicit type arguments listed in reverse order", g, _v_type_args_reversed, {"C01-R8"}),
        V.Variant("created object re-instantiated with fresh type arguments", g, _v_new_other_args, {"C01-R8"}),
        V.Variant("inherited parameters rebuilt by hand (vararg flag lost)", "src/ir/ast.py", _v_rebuilt_param, {"C01-R9"}),
        V.Variant("twin: rename locals in _gen_func_call", g, _t_rename, None, twin=True),
        V.Variant("twin: whole tree reformatted by ast.unparse", None, None, None, twin=True),
    ]
