"""C07 - instantiating a generic class substitutes everywhere and mutates nothing."""
import ast

from ..repo import AnalysisError
from ..report import Ob, RuleSpec
from ..astutil import (src, flat_guards, calls_in, call_name, kwarg, const_value,
                       iter_own_nodes, ancestors, is_within)
from ..cfg import cfg_of, Prov
from ..effects import Effects
from .. import variants as V
from .. import kernel

PROPERTY = "C07"
TITLE = "Instantiating a generic class substitutes everywhere and mutates nothing"
DECIDES = ("Decided: (a) substitution visits every recursive position of the type grammar (type arguments, wildcard "
           "bounds, bounds of type variables that stay, parameterized supertypes of a type constructor): the value placed "
           "at each position of the rebuilt object flows from a recursive substitution call or a type_map lookup, every "
           "list element is visited; (b) the substitution / instantiation family never writes into its inputs (effect "
           "summaries over the call-graph closure, fresh-root classification); (c) constructors copy the mutable things "
           "they are given; (d) TypeConstructor.new reinstalls only `supertypes`, on the new object's constructor copy; "
           "(e) every ParameterizedType construction site wraps a constructor that went through perform_type_substitution "
           "or a function type constructor with ground supertypes. Also: the input of a substitution is handed back unchanged only where it cannot contain a variable of the map; inside src/ir/types.py only ParameterizedType.__init__ binds type_args; TypeConstructor.new rewrites the supertypes with the arguments as given.")
NOT_DECIDED = "equality of the result with an independent substitution (value level)."

T = "src.ir.types"
TU = "src.ir.type_utils"
FAMILY = [T + ".TypeConstructor.new", T + ".perform_type_substitution", T + ".substitute_type_args",
          T + "._get_type_substitution", T + ".substitute_type", T + ".ParameterizedType.__init__",
          T + ".ParameterizedType.to_variance_free", T + ".ParameterizedType.to_type_variable_free",
          T + "._to_type_variable_free", TU + ".instantiate_type_constructor",
          TU + ".instantiate_parameterized_function", TU + "._compute_type_variable_assignments"]
ALLOWED_OUT_PARAMS = {
    (TU + "._compute_type_variable_assignments", "variance_choices"):
        "documented out-parameter: the caller-owned variance_choices dict is narrowed in place",
    (TU + ".instantiate_type_constructor", "variance_choices"):
        "passes the caller-owned variance_choices dict on to _compute_type_variable_assignments (same out-parameter)",
}
RECURSIVE = {"_get_type_substitution", "substitute_type_args", "substitute_type"}


def _w(f, node=None):
    return "%s:%d" % (f.module.relpath, (node or f.node).lineno)


def _ctor_calls(f, name):
    return [c for c in calls_in(f.node) if call_name(c) == name and
            (isinstance(c.func, ast.Name) or (isinstance(c.func, ast.Attribute)))]


def _from_recursion(f, expr):
    """expr derives (def-use) from a recursive substitution call or a type_map lookup; returns (ok, leaves)"""
    prov = Prov(f.node)
    srcs = prov.sources(expr)
    calls = [s for s in srcs if isinstance(s, ast.Call)]
    good = [c for c in calls if call_name(c) in RECURSIVE or
            (call_name(c) == "get" and src(c.func.value) == "type_map")]
    return bool(good), [src(s) for s in srcs if isinstance(s, ast.AST)][:6]


def _list_built_by(f, name_node):
    """A local list: returns (appends, loop) where every append is inside one loop"""
    nm = name_node.id
    apps = [c for c in calls_in(f.node) if call_name(c) == "append" and src(c.func.value) == nm]
    return apps


def r1_positions(repo):
    obs = []
    g = repo.fn(T + "._get_type_substitution")
    e = g.params[0]
    # (1) parameterized: delegated to substitute_type_args with the same map and cond
    rets = [n for n in iter_own_nodes(g.node) if isinstance(n, ast.Return)]
    pr = [r for r in rets if isinstance(r.value, ast.Call) and call_name(r.value) == "substitute_type_args"]
    ok = len(pr) == 1 and [src(a) for a in pr[0].value.args[:2]] == [e, g.params[1]] and \
        ("%s.is_parameterized()" % e, True) in [(src(t), p) for t, p in flat_guards(pr[0])]
    obs.append(Ob("C07-R1", "position:ParameterizedType->substitute_type_args", _w(g), ok,
                  "a parameterized type must be rebuilt by substitute_type_args(etype, type_map, cond)"))
    # (2) type_args[*]
    f = repo.fn(T + ".substitute_type_args")
    pc = _ctor_calls(f, "ParameterizedType")
    ok, msg = False, "no ParameterizedType(...) construction in substitute_type_args"
    if len(pc) == 1 and len(pc[0].args) >= 2 and isinstance(pc[0].args[1], ast.Name):
        lst = pc[0].args[1]
        apps = _list_built_by(f, lst)
        loops = [a for a in ancestors(apps[0]) if isinstance(a, ast.For)] if apps else []
        good = len(apps) == 1 and bool(loops) and src(loops[0].iter) == "%s.type_args" % f.params[0] and \
            not flat_guards(apps[0], stop=loops[0]) and \
            not any(isinstance(n, (ast.Break, ast.Continue, ast.Return)) for n in iter_own_nodes(loops[0]))
        rec = False
        if good:
            a = apps[0].args[0]
            rec = isinstance(a, ast.Call) and call_name(a) in RECURSIVE and \
                src(a.args[0]) == src(loops[0].target) and src(a.args[1]) == f.params[1]
        ok = good and rec
        msg = ("every element of etype.type_args (unsliced, no break/continue) must be replaced by "
               "_get_type_substitution(t_arg, type_map, ...) and the rebuilt type must use that list: "
               "loop_ok=%s recursive=%s" % (good, rec))
    obs.append(Ob("C07-R1", "position:ParameterizedType.type_args[*]", _w(f), ok, msg))
    # constructor of the rebuilt type is substituted with the new arguments
    ok, msg = False, "type constructor of the rebuilt type not substituted"
    if len(pc) == 1:
        prov = Prov(f.node)
        cs = [s for s in prov.sources(pc[0].args[0]) if isinstance(s, ast.Call)]
        p = [c for c in cs if call_name(c) == "perform_type_substitution"]
        if len(p) == 1 and src(p[0].args[0]) == "%s.t_constructor" % f.params[0]:
            mp = prov.sources(p[0].args[1])
            dc = [s for s in mp if isinstance(s, ast.DictComp)]
            ok = len(dc) == 1 and src(dc[0].generators[0].iter) == \
                "enumerate(%s.t_constructor.type_parameters)" % f.params[0] and \
                src(dc[0].value).startswith(src(pc[0].args[1]) + "[")
            msg = "perform_type_substitution(etype.t_constructor, {tp: new_type_args[i]}) expected; map=%s" % (
                src(dc[0]) if dc else None)
    obs.append(Ob("C07-R1", "position:ParameterizedType.t_constructor(supertypes)", _w(f), ok, msg))
    # (3) wildcard bound
    wc = _ctor_calls(g, "WildCardType")
    ok, msg = False, "no WildCardType(...) rebuild in _get_type_substitution"
    if len(wc) == 1:
        c = wc[0]
        b = c.args[0] if c.args else kwarg(c, "bound")
        okb, leaves = _from_recursion(g, b)
        prov = Prov(g.node)
        rc = [s for s in prov.sources(b) if isinstance(s, ast.Call) and call_name(s) in RECURSIVE]
        arg_ok = any(src(s.args[0]) == "%s.bound" % e and src(s.args[1]) == g.params[1] for s in rc)
        v = kwarg(c, "variance", 1)
        gs = [(src(t), p) for t, p in flat_guards(c)]
        ok = okb and arg_ok and v is not None and src(v) == "%s.variance" % e and \
            ("%s.is_wildcard()" % e, True) in gs
        msg = ("a wildcard must be rebuilt as WildCardType(<substituted bound>, variance=etype.variance): "
               "bound derives from %s" % leaves)
    obs.append(Ob("C07-R1", "position:WildCardType.bound", _w(g), ok, msg))
    # (4) type variable that stays: its bound
    tc = _ctor_calls(g, "TypeParameter")
    ok, msg = False, "no TypeParameter(...) rebuild in _get_type_substitution"
    if len(tc) == 1:
        c = tc[0]
        b = c.args[2] if len(c.args) > 2 else kwarg(c, "bound")
        okb, leaves = _from_recursion(g, b)
        prov = Prov(g.node)
        rc = [s for s in prov.sources(b) if isinstance(s, ast.Call) and call_name(s) in RECURSIVE]
        arg_ok = any(src(s.args[0]) == "%s.bound" % e and src(s.args[1]) == g.params[1] for s in rc)
        ok = okb and arg_ok and [src(a) for a in c.args[:2]] == ["%s.name" % e, "%s.variance" % e]
        msg = "a type variable that stays must be rebuilt with its bound substituted: bound derives from %s" % leaves
    obs.append(Ob("C07-R1", "position:TypeParameter.bound", _w(g), ok, msg))
    # (5) lookup result returned
    look = [n for n in iter_own_nodes(g.node) if isinstance(n, ast.Assign) and isinstance(n.value, ast.Call) and
            call_name(n.value) == "get" and src(n.value.func.value) == g.params[1] and src(n.value.args[0]) == e]
    ok = False
    if len(look) == 1:
        nm = look[0].targets[0].id
        back = [r for r in rets if r.value is not None and src(r.value) == nm]
        # the looked-up type is what is returned whenever the lookup succeeded (and the condition lets it through)
        ok = len(back) == 1 and ("%s is None" % nm, False) in [(src(t), p) for t, p in flat_guards(back[0])]
    obs.append(Ob("C07-R1", "position:type-variable-lookup", _w(g), ok,
                  "a type variable bound by the map must be replaced by type_map.get(etype): that value is returned when the lookup succeeded"))
    # ... and the key of that lookup is the type as it was given: a variable rebuilt with a substituted bound is a
    # different key (TypeParameter equality includes the bound) and misses its own entry
    okk, kd = False, "no lookup"
    if len(look) == 1:
        defs = cfg_of(g.node).defs_reaching(e, look[0])
        okk = all(k == "param" for _d, _v, k in defs) and bool(defs)
        kd = "definitions of `%s` reaching the lookup: %s" % (e, [k if k == "param" else src(v)[:60] for _d, v, k in defs])
    obs.append(Ob("C07-R1", "position:type-variable-lookup-key-is-the-input", _w(g), okk,
                  "type_map must be consulted with the type variable as given, before anything is rebuilt; " + kd))
    # (5b) the input is handed back unchanged only where nothing below it can be substituted: never on a path on
    # which it is known to be a projection with a bound, a parameterized type or a bounded type variable - unless
    # that path also established that it has no type variables
    for r in rets:
        if r.value is None or src(r.value) != e:
            continue
        gs = [(src(t), p) for t, p in flat_guards(r)]
        pos = {t for t, p in gs if p}
        neg = {t for t, p in gs if not p}
        ground = any(t in ("%s.has_type_variables()" % e, "%s.bound.has_type_variables()" % e) for t in neg)
        kinds = []
        if "%s.is_wildcard()" % e in pos and "%s.bound is None" % e in neg:
            kinds.append("a projection with a bound")
        if "%s.is_parameterized()" % e in pos:
            kinds.append("a parameterized type")
        if "%s.is_type_var()" % e in pos and "%s.bound is None" % e in neg:
            kinds.append("a bounded type variable")
        obs.append(Ob("C07-R1", "position:input-returned-unchanged-only-without-components@%d" % len(
            [o for o in obs if o.key.startswith("position:input-returned")]), "%s:%d" % (g.module.relpath, r.lineno),
            ground or not kinds,
            "`return %s` on a path where `%s` is %s (guards %s): its components may still mention variables of the map"
            % (e, e, " / ".join(kinds) or "-", [("" if p else "not ") + t for t, p in gs])))
    # (6) TypeConstructor.supertypes[*]
    f = repo.fn(T + ".perform_type_substitution")
    e2 = f.params[0]
    st = [n for n in iter_own_nodes(f.node) if isinstance(n, ast.Assign) and
          isinstance(n.targets[0], ast.Attribute) and n.targets[0].attr == "supertypes"]
    ok, msg = False, "supertypes of the constructor copy not installed"
    if len(st) == 1 and isinstance(st[0].value, ast.Name):
        apps = _list_built_by(f, st[0].value)
        loops = [a for a in ancestors(apps[0]) if isinstance(a, ast.For)] if apps else []
        lp_ok = bool(loops) and all(is_within(a, loops[0]) for a in apps) and \
            src(loops[0].iter) == "%s.supertypes" % e2 and \
            not any(isinstance(n, (ast.Break, ast.Continue, ast.Return)) for n in iter_own_nodes(loops[0]))
        sub = [a for a in apps if isinstance(a.args[0], ast.Call) and call_name(a.args[0]) in RECURSIVE and
               src(a.args[0].args[0]) == src(loops[0].target) and src(a.args[0].args[1]) == f.params[1]] if loops else []
        sub_ok = len(sub) == 1 and ("%s.is_parameterized()" % src(loops[0].target), True) in \
            [(src(t), p) for t, p in flat_guards(sub[0])]
        # the supertypes are rewritten under the default condition (the one TypeConstructor.new uses): forwarding the
        # caller's condition makes substitute_type build supertypes that instantiation never builds
        sub_ok = sub_ok and len(sub[0].args[0].args) == 2 and not sub[0].args[0].keywords
        other = [a for a in apps if a not in sub]
        pass_ok = all(src(a.args[0]) == src(loops[0].target) and
                      ("%s.is_parameterized()" % src(loops[0].target), False) in
                      [(src(t), p) for t, p in flat_guards(a)] for a in other) if loops else False
        # exactly one append per iteration
        g_ = cfg_of(f.node)
        one = bool(loops) and not g_.path_exists_avoiding(g_.node(loops[0].body[0]), g_.node(loops[0]),
                                                          [g_.node(a) for a in apps]) if loops else False
        # the list is installed on a deep copy of the constructor (whatever the copy is called) and that copy is returned
        root = src(st[0].targets[0].value)
        rdefs = g_.defs_reaching(root, st[0]) if isinstance(st[0].targets[0].value, ast.Name) else []
        root_ok = bool(rdefs) and all(isinstance(d[1], ast.Call) and call_name(d[1]) == "deepcopy" and d[1].args and
                                      src(d[1].args[0]) == e2 for d in rdefs)
        ret = f.node.body[-1]
        ok = lp_ok and sub_ok and pass_ok and one and root_ok and isinstance(ret, ast.Return) and src(ret.value) == root
        msg = ("every supertype of the constructor (unsliced) is visited, parameterized ones are rebuilt with "
               "substitute_type_args(t, type_map) - two arguments, default condition -, the list is installed on the deep copy that is returned: "
               "loop=%s substituted=%s others-passed=%s one-per-iteration=%s installed-on-copy=%s"
               % (lp_ok, sub_ok, pass_ok, one, root_ok))
    obs.append(Ob("C07-R1", "position:TypeConstructor.supertypes[*]", _w(f), ok, msg))
    # (7) TypeConstructor.new builds the map over all parameters and uses the substituted constructor
    f = repo.method(T + ".TypeConstructor", "new", inherited=False)
    prov = Prov(f.node)
    pc = _ctor_calls(f, "ParameterizedType")
    ok, msg = False, "TypeConstructor.new shape not recognised"
    if len(pc) == 1:
        cs = [s for s in prov.sources(pc[0].args[0]) if isinstance(s, ast.Call) and
              call_name(s) == "perform_type_substitution"]
        if len(cs) == 1 and src(cs[0].args[0]) == "self":
            dc = [s for s in prov.sources(cs[0].args[1]) if isinstance(s, ast.DictComp)]
            ok = len(dc) == 1 and src(dc[0].generators[0].iter) == "enumerate(self.type_parameters)" and \
                src(dc[0].value).startswith(f.params[1] + "[") and src(pc[0].args[1]) == f.params[1]
            rets = [n for n in iter_own_nodes(f.node) if isinstance(n, ast.Return)]
            ok = ok and len(rets) == 1 and any(s is pc[0] for s in prov.sources(rets[0].value))
            msg = "new(type_args): map {tp: type_args[i]} over all type parameters, perform_type_substitution(self, map), ParameterizedType(result, type_args) returned"
    obs.append(Ob("C07-R1", "position:TypeConstructor.new-map", _w(f), ok, msg))
    # (8) instance supertypes come from the substituted constructor
    f = repo.method(T + ".ParameterizedType", "__init__", inherited=False)
    st = [n for n in iter_own_nodes(f.node) if isinstance(n, ast.Assign) and src(n.targets[0]) == "self.supertypes"]
    ok = len(st) >= 1 and "self.t_constructor.supertypes" in src(st[-1].value)
    obs.append(Ob("C07-R1", "position:ParameterizedType.supertypes<-constructor", _w(f), ok,
                  "the instantiated type's supertypes must be taken from its (substituted) constructor; found %s"
                  % [src(s) for s in st]))
    return obs


def r2_no_input_mutation(repo):
    obs = []
    E = Effects(repo)
    fam = [repo.fn(q) for q in FAMILY]
    fns, _edges = E.closure(fam)
    summ = E.summarize(fns)
    for f in fam:
        effs = summ[f.qualname]
        bad = []
        n_fresh = 0
        for e in effs:
            tags = set(e.tags)
            off = []
            for t in tags:
                if t.startswith("param:"):
                    p = t[6:]
                    if (f.qualname, p) in ALLOWED_OUT_PARAMS and e.kind == "sub-store":
                        continue
                    off.append(t)
                elif t.startswith("global:") or t.startswith("closure:"):
                    off.append(t)
                elif t == "self" and f.name != "__init__":
                    off.append(t)
                elif t == "freshfield" and not e.via:
                    # write into a field of an object this function built itself
                    if f.qualname.endswith("TypeConstructor.new") and e.attr == "supertypes" and \
                            e.path[-1:] == ("t_constructor",):
                        continue   # R4 decides this one
                    off.append(t + " (field of a freshly built object may alias an input)")
            if off:
                bad.append("%s [%s]" % (e.describe(), ", ".join(off)))
            else:
                n_fresh += 1
        obs.append(Ob("C07-R2", "no-input-write:" + f.qualname, _w(f), not bad,
                      "writes that can reach an input or shared object:\n" + "\n".join(bad[:6]) if bad else
                      "%d effects (incl. callees), all on fresh roots" % len(effs),
                      {"effects": len(effs), "closure": len(fns)}))
    obs.append(Ob("C07-R2", "closure-size", "src/ir", len(fns) >= 30,
                  "call-graph closure of the substitution family has %d functions (resolved calls %d, unresolved %d)"
                  % (len(fns), E.resolved, E.unresolved)))
    return obs


def r3_copies(repo):
    obs = []
    f = repo.method(T + ".ParameterizedType", "__init__", inherited=False)
    want = {"self.t_constructor": ("deepcopy", f.params[1]), "self.type_args": ("list", f.params[2])}
    for tgt, (fn, arg) in want.items():
        st = [n for n in iter_own_nodes(f.node) if isinstance(n, ast.Assign) and src(n.targets[0]) == tgt]
        ok = len(st) == 1 and isinstance(st[0].value, ast.Call) and call_name(st[0].value) == fn and \
            src(st[0].value.args[0]) == arg
        obs.append(Ob("C07-R3", "ParameterizedType.__init__:%s=%s(%s)" % (tgt, fn, arg), _w(f), ok,
                      "%s must be %s(%s); found %s" % (tgt, fn, arg, [src(s.value) for s in st])))
    st = [n for n in iter_own_nodes(f.node) if isinstance(n, ast.Assign) and src(n.targets[0]) == "self.supertypes"]
    ok = bool(st) and isinstance(st[-1].value, ast.Call) and call_name(st[-1].value) in ("copy", "list") and \
        src(st[-1].value.args[0]) == "self.t_constructor.supertypes"
    obs.append(Ob("C07-R3", "ParameterizedType.__init__:supertypes-list-copied", _w(f), ok,
                  "the instance supertypes list must be a copy of the constructor's list; found %s" % [src(s.value) for s in st]))
    f = repo.method(T + ".TypeConstructor", "__init__", inherited=False)
    st = [n for n in iter_own_nodes(f.node) if isinstance(n, ast.Assign) and src(n.targets[0]) == "self.type_parameters"]
    ok = len(st) == 1 and isinstance(st[0].value, ast.Call) and call_name(st[0].value) == "list" and \
        src(st[0].value.args[0]) == f.params[2]
    obs.append(Ob("C07-R3", "TypeConstructor.__init__:type_parameters-copied", _w(f), ok,
                  "self.type_parameters must be list(type_parameters); found %s" % [src(s.value) for s in st]))
    return obs


def r4_constructor_untouched(repo):
    f = repo.method(T + ".TypeConstructor", "new", inherited=False)
    E = Effects(repo)
    effs = [e for e in E.local(f)]
    stores = [e for e in effs if e.kind in ("attr-store", "aug-store", "del", "sub-store", "mutcall")]
    ok, msg = False, "stores in TypeConstructor.new: %s" % [e.text() for e in stores]
    if len(stores) == 1:
        e = stores[0]
        st = e.node
        prov = Prov(f.node)
        srcs = [src(s) for s in prov.sources(st.value) if isinstance(s, ast.AST)]
        root_defs = cfg_of(f.node).defs_reaching(e.root, st)
        built_here = len(root_defs) == 1 and isinstance(root_defs[0][1], ast.Call) and \
            call_name(root_defs[0][1]) == "ParameterizedType"
        # the saved value is read before the substitution call
        saved = [n for n in iter_own_nodes(f.node) if isinstance(n, ast.Assign) and src(n.value) == "self.supertypes"]
        sub = [c for c in calls_in(f.node) if call_name(c) == "perform_type_substitution"]
        order = bool(saved) and bool(sub) and saved[0].lineno < sub[0].lineno
        ok = e.attr == "supertypes" and e.path == ("t_constructor",) and "self.supertypes" in srcs and \
            built_here and order
        msg = ("the only store must be <new object>.t_constructor.supertypes = <self.supertypes saved before the "
               "substitution>: attr=%s path=%s value-from=%s built-here=%s" % (e.attr, e.path, srcs, built_here))
    obs = [Ob("C07-R4", "TypeConstructor.new:reinstalls-only-supertypes-on-the-copy", _w(f), ok, msg)]
    # the map the supertypes are rewritten with sends parameter i to argument i *as given* (a projection stays a
    # projection: Foo<out String> has the supertype Mid<out String>, not Mid<String>)
    targs = f.params[1] if len(f.params) > 1 else "type_args"
    maps = [n for n in iter_own_nodes(f.node) if isinstance(n, ast.DictComp)]
    ok2, msg2 = False, "no `{tp: %s[i] for i, tp in enumerate(self.type_parameters)}` in TypeConstructor.new" % targs
    if len(maps) == 1:
        m = maps[0]
        g0 = m.generators[0]
        tv = [x.id for x in ast.walk(g0.target) if isinstance(x, ast.Name)]
        ok2 = len(m.generators) == 1 and not g0.ifs and src(g0.iter) == "enumerate(self.type_parameters)" and \
            len(tv) == 2 and src(m.key) == tv[1] and src(m.value) == "%s[%s]" % (targs, tv[0])
        msg2 = "`%s`; expected parameter i -> %s[i], nothing else" % (src(m)[:90], targs)
        sub = [c for c in calls_in(f.node) if call_name(c) == "perform_type_substitution"]
        holder = [n for n in iter_own_nodes(f.node) if isinstance(n, ast.Assign) and n.value is m]
        ok2 = ok2 and len(sub) == 1 and len(sub[0].args) >= 2 and \
            (sub[0].args[1] is m or (holder and src(sub[0].args[1]) == src(holder[0].targets[0])))
    obs.append(Ob("C07-R4", "TypeConstructor.new:supertypes-rewritten-with-the-arguments-as-given", _w(f), ok2, msg2))
    return obs


def r9_type_args_fixed(repo):
    """inside the type representation (src/ir/types.py: conversions, substitution, instantiation) the type arguments of a
    parameterized type are bound by its constructor only: the instance's supertypes are derived from them there, so
    re-binding `.type_args` on an existing (or copied) object leaves supertypes that mention the old arguments.  (Outside
    that module two writers exist and are not judged here: the overwriting mutation's element store, C04-R1, and
    find_sam_fun_signature on a function type it has just built - function types have no supertypes to rewrite.)"""
    obs = []
    n_init = 0
    for qual, f in sorted(repo.functions.items()):
        if f.module.name != T:
            continue            # the type representation itself (conversions, substitution, instantiation)
        for n in iter_own_nodes(f.node):
            if not isinstance(n, (ast.Assign, ast.AugAssign)):
                continue
            for t in (n.targets if isinstance(n, ast.Assign) else [n.target]):
                for x in ast.walk(t):
                    if isinstance(x, ast.Attribute) and x.attr == "type_args" and isinstance(x.ctx, ast.Store):
                        in_init = f.name == "__init__" and src(x.value) == "self" and f.cls is not None and \
                            any(c.qualname == T + ".ParameterizedType" for c in f.cls.mro())
                        n_init += 1 if in_init else 0
                        obs.append(Ob("C07-R9", "%s:%s" % (qual.split(".", 2)[-1], src(t)[:40]), _w(f, n), in_init,
                                      "`%s` re-binds the type arguments of an existing type; only ParameterizedType.__init__ "
                                      "may bind them (the instance's supertypes are derived from them there)" % src(n)[:70]))
    if not n_init:
        raise AnalysisError("ParameterizedType.__init__ does not bind self.type_args", rule="C07-R9", anchor=T + ".ParameterizedType")
    return obs


def r5_who_may_construct(repo):
    """ParameterizedType(con, args) copies `con.supertypes` as they are: it substitutes nothing.  So a construction site
    is an instantiation only if its constructor argument comes out of perform_type_substitution (supertypes already
    rewritten with the same arguments), or is a built-in function type constructor (no supertypes to rewrite)."""
    obs = []
    PT = repo.cls(T + ".ParameterizedType")
    subs = sorted(c.qualname for c in repo.classes.values() if PT in c.mro() and c is not PT)
    obs.append(Ob("C07-R5", "ParameterizedType:no-subclass", "src/ir/types.py", not subs,
                  "subclasses of ParameterizedType would need their own construction rule: %s" % subs))
    fts = [c for c in repo.classes.values() if c.name == "FunctionType"]
    for ft in sorted(fts, key=lambda c: c.qualname):
        ft_init = ft.methods.get("__init__")
        ft_ok, detail = False, "no own __init__"
        if ft_init is not None:
            sup_calls = [c for c in calls_in(ft_init.node) if call_name(c) == "__init__"]
            apps = [c for c in calls_in(ft_init.node) if call_name(c) in ("append", "extend", "insert") and
                    "supertypes" in src(c.func.value)]
            stores = [n for n in iter_own_nodes(ft_init.node) if isinstance(n, ast.Assign) and
                      any("supertypes" in src(t) for t in n.targets)]
            ground = all(len(c.args) == 1 and isinstance(c.args[0], ast.Call) and not c.args[0].args and
                         not c.args[0].keywords and call_name(c) == "append" for c in apps)
            ft_ok = len(sup_calls) == 1 and len(sup_calls[0].args) == 2 and not sup_calls[0].keywords and \
                ground and not stores
            detail = "super().__init__(%s); supertypes added: %s" % (
                ", ".join(src(a) for c in sup_calls for a in c.args), [src(c.args[0]) for c in apps if c.args])
        obs.append(Ob("C07-R5", "%s:supertypes-mention-no-type-parameter" % ft.qualname, _w(ft_init) if ft_init else ft.module.relpath,
                      ft_ok, "function type constructors are exempt from supertype substitution because their supertypes "
                      "are ground classifiers: " + detail))
    obs.append(Ob("C07-R5", "FunctionType-classes>=5", "src/ir", len(fts) >= 5, "%d classes named FunctionType" % len(fts)))
    n_sub = 0
    for f in repo.functions.values():
        for c in calls_in(f.node):
            if not hasattr(c, "_module"):
                continue
            try:
                tgt = repo.resolve_name_expr(c.func, c._module, f)
            except Exception:
                tgt = None
            if tgt is not PT:
                continue
            a = kwarg(c, "t_constructor", 0)
            how, ok = "?", False
            if a is not None:
                leaves = Prov(f.node).sources(a)
                kinds = set()
                for l in leaves:
                    if isinstance(l, ast.Call) and call_name(l) == "perform_type_substitution":
                        kinds.add("substituted")
                    elif isinstance(l, ast.Call) and call_name(l) == "get_function_type":
                        kinds.add("function-type")
                    elif isinstance(l, tuple) and l[0] == "param" and _annotated(f, l[1]) == "FunctionType":
                        kinds.add("function-type")
                    else:
                        kinds.add("other:%s" % (src(l) if isinstance(l, ast.AST) else (l,)))
                ok = bool(kinds) and kinds <= {"substituted", "function-type"}
                how = ",".join(sorted(kinds))
                n_sub += "substituted" in kinds
            obs.append(Ob("C07-R5", "construct:%s:%s" % (f.qualname, " ".join(src(c).split())[:80]), _w(f, c), ok,
                          "constructor argument `%s` is %s; a ParameterizedType built around a constructor whose "
                          "supertypes were not substituted with these arguments keeps type variables in its supertypes"
                          % (src(a) if a is not None else "-", how)))
    obs.append(Ob("C07-R5", "substituting-construction-sites>=2", "src/ir/types.py", n_sub >= 2,
                  "TypeConstructor.new and substitute_type_args construct from a substituted constructor (%d found)" % n_sub))
    return obs


def r6_has_type_variables(repo):
    return kernel.has_type_variables_fold(repo, "C07-R6")


def r7_constructors_store_verbatim(repo):
    return kernel.constructors_verbatim(repo, "C07-R7")


def _annotated(f, pname):
    a = f.node.args
    for x in a.posonlyargs + a.args + a.kwonlyargs:
        if x.arg == pname and x.annotation is not None:
            return src(x.annotation).split(".")[-1]
    return None


def r8_kinds(repo):
    """substitution is a case analysis by kind predicates"""
    return kernel.kind_table(repo, "C07-R8")


def rules():
    return [
        RuleSpec("C07-R1", "substitution visits every recursive position", 9, r1_positions),
        RuleSpec("C07-R2", "substitution/instantiation family writes into no input (effect summaries)", 13, r2_no_input_mutation),
        RuleSpec("C07-R3", "constructors copy the mutable things they are given", 4, r3_copies),
        RuleSpec("C07-R4", "TypeConstructor.new leaves the generic class untouched", 1, r4_constructor_untouched),
        RuleSpec("C07-R5", "who may construct a ParameterizedType, and around which constructor", 9, r5_who_may_construct),
        RuleSpec("C07-R6", "has_type_variables (the condition of every substitution) is the structural fold", 7,
                 r6_has_type_variables),
        RuleSpec("C07-R7", "type constructors store their arguments as given", 10, r7_constructors_store_verbatim),
        RuleSpec("C07-R8", "each class of the type representation answers exactly its own kind predicate", 28, r8_kinds),
        RuleSpec("C07-R9", "type arguments are bound only by ParameterizedType.__init__", 1, r9_type_args_fixed),
    ]


# -- variants ---------------------------------------------------------------------

def _v_wild_passthrough(tree):
    f = V.find_def(tree, "_get_type_substitution")
    c = V.one([n for n in ast.walk(f) if V.is_call_named(n, "WildCardType")])
    c.args[0] = V.parse_expr("etype.bound")


def _v_tparam_bound_passthrough(tree):
    f = V.find_def(tree, "_get_type_substitution")
    c = V.one([n for n in ast.walk(f) if V.is_call_named(n, "TypeParameter")])
    c.args[2] = V.parse_expr("etype.bound")


def _v_skip_first_arg(tree):
    f = V.find_def(tree, "substitute_type_args")
    lp = V.one([n for n in ast.walk(f) if isinstance(n, ast.For)])
    lp.iter = V.parse_expr("etype.type_args[1:]")
    V.insert_before(tree, lp, V.parse_stmts("type_args.append(etype.type_args[0])"))


def _v_supertypes_before_copy(tree):
    f = V.find_def(tree, "perform_type_substitution")
    dc = V.one([n for n in f.body if isinstance(n, ast.Assign) and "deepcopy" in ast.unparse(n.value)])
    V.insert_before(tree, dc, V.parse_stmts("etype.supertypes = supertypes"))


def _v_no_list_copy(tree):
    f = V.find_def(tree, "ParameterizedType.__init__")
    st = V.one([n for n in f.body if isinstance(n, ast.Assign) and ast.unparse(n.targets[0]) == "self.type_args"])
    st.value = V.parse_expr("type_args")


def _v_no_deepcopy(tree):
    f = V.find_def(tree, "ParameterizedType.__init__")
    st = V.one([n for n in f.body if isinstance(n, ast.Assign) and ast.unparse(n.targets[0]) == "self.t_constructor"])
    st.value = V.parse_expr("t_constructor")


def _v_new_writes_self(tree):
    f = V.find_def(tree, "TypeConstructor.new")
    r = V.one([n for n in f.body if isinstance(n, ast.Return)])
    V.insert_before(tree, r, V.parse_stmts("self.supertypes = type_con.supertypes"))


def _v_variance_free_inplace(tree):
    f = V.find_def(tree, "ParameterizedType.to_variance_free")
    r = V.one([n for n in f.body if isinstance(n, ast.Return)])
    V.insert_before(tree, r, V.parse_stmts("self.type_args[:] = type_args"))


def _v_compute_writes_param_bound(tree):
    f = V.find_def(tree, "_compute_type_variable_assignments")
    lp = V.one([n for n in f.body if isinstance(n, ast.For)])
    lp.body.insert(0, V.parse_stmts("if t_param.bound is not None and t_param.bound.has_type_variables():\n    t_param.bound = tp.substitute_type(t_param.bound, type_var_map)")[0])


def _v_supertype_break(tree):
    f = V.find_def(tree, "perform_type_substitution")
    lp = V.one([n for n in f.body if isinstance(n, ast.For) and "supertypes" in ast.unparse(n.iter)])
    lp.iter = V.parse_expr("etype.supertypes[:1]")


def _t_rename(tree):
    f = V.find_def(tree, "perform_type_substitution")
    V.rename_local(f, "supertypes", "new_supers")
    V.rename_local(f, "type_params", "params2")


def _v_wild_htv_nonnull(tree):
    f = V.find_def(tree, "WildCardType.has_type_variables")
    r = V.one([n for n in ast.walk(f) if isinstance(n, ast.Return)])
    r.value = V.parse_expr("self.bound is not None")


def _v_ptype_htv_first(tree):
    f = V.find_def(tree, "ParameterizedType.has_type_variables")
    r = V.one([n for n in ast.walk(f) if isinstance(n, ast.Return)])
    r.value = V.parse_expr("self.type_args[0].has_type_variables()")


def _v_tparam_ctor_normalises(tree):
    f = V.find_def(tree, "TypeParameter.__init__")
    st = V.one([n for n in ast.walk(f) if isinstance(n, ast.Assign) and ast.unparse(n.targets[0]) == "self.bound"])
    st.value = V.parse_expr("bound.get_bound_rec() if bound is not None and bound.is_wildcard() else bound")


def _v_constructor_kind(tree):
    f = V.find_def(tree, "TypeConstructor.is_type_constructor")
    r = V.one([n for n in ast.walk(f) if isinstance(n, ast.Return)])
    r.value = V.parse_expr("bool(self.type_parameters) and False")


def variants():
    t = "src/ir/types.py"
    return [
        V.Variant("a projection 'has type variables' whenever it has a bound", t, _v_wild_htv_nonnull, {"C07-R6"}),
        V.Variant("a parameterized type looks at its first argument only", t, _v_ptype_htv_first, {"C07-R6"}),
        V.Variant("TypeParameter's constructor unwraps a projected bound", t, _v_tparam_ctor_normalises, {"C07-R7"}),
        V.Variant("TypeConstructor no longer answers is_type_constructor", t, _v_constructor_kind, {"C07-R8"}),
        V.Variant("wildcard bound passed through unsubstituted", t, _v_wild_passthrough, {"C07-R1"}),
        V.Variant("type-variable bound passed through", t, _v_tparam_bound_passthrough, {"C07-R1"}),
        V.Variant("first type argument not substituted", t, _v_skip_first_arg, {"C07-R1"}),
        V.Variant("only the first supertype substituted", t, _v_supertype_break, {"C07-R1"}),
        V.Variant("supertypes installed before the deepcopy (on the input)", t, _v_supertypes_before_copy, {"C07-R2"}),
        V.Variant("to_variance_free rewrites self.type_args in place", t, _v_variance_free_inplace, {"C07-R2"}),
        V.Variant("_compute_type_variable_assignments rewrites a parameter's bound", "src/ir/type_utils.py",
                  _v_compute_writes_param_bound, {"C07-R2"}),
        V.Variant("ParameterizedType keeps the caller's type_args list", t, _v_no_list_copy, {"C07-R3"}),
        V.Variant("ParameterizedType shares the constructor object", t, _v_no_deepcopy, {"C07-R3"}),
        V.Variant("TypeConstructor.new overwrites self.supertypes", t, _v_new_writes_self, {"C07-R2", "C07-R4"}),
        V.Variant("twin: rename locals in perform_type_substitution", t, _t_rename, None, twin=True),
        V.Variant("twin: whole tree reformatted by ast.unparse", None, None, None, twin=True),
    ]
