"""C08 - instantiation helpers pick type arguments within bounds and allowed variance."""
import ast
import re
import itertools

from ..repo import AnalysisError
from ..report import Ob, RuleSpec
from ..astutil import (src, flat_guards, calls_in, call_name, kwarg, const_value,
                       iter_own_nodes, ancestors, is_within)
from ..cfg import cfg_of, Prov
from .. import absint
from .. import variants as V
from .. import kernel

PROPERTY = "C08"
TITLE = "Instantiation helpers pick type arguments within bounds and allowed variance"
DECIDES = ("Decided: exactly one type argument and one map entry per type parameter on every path of the assignment "
           "loop; the complete variance decision table of _get_type_arg_variance by finite-domain evaluation of its "
           "AST over all abstract inputs; that the 'parameters after the current one' slice uses the index of the "
           "enumerate loop that binds the parameter; the single projection construction site; boxing/filtering of the "
           "candidate pool and every call site's only_regular flag; that bounded parameters draw from "
           "find_subtypes(substituted bound) and pre-assignments are kept; the PECS tables. Also: a type-argument list handed to .new() is built in declaration order, never from a map's values; a parameter that bounds an assigned parameter takes over that assignment whenever it has none of its own.")
NOT_DECIDED = ("that the chosen argument really is a subtype of the substituted bound (relies on the values computed "
               "by find_subtypes / is_subtype, C09/C06).")

TU = "src.ir.type_utils"
CTVA = TU + "._compute_type_variable_assignments"


def _w(f, node=None):
    return "%s:%d" % (f.module.relpath, (node or f.node).lineno)


def _main_loop(f):
    loops = [n for n in f.node.body if isinstance(n, ast.For)]
    if len(loops) != 1:
        raise AnalysisError("expected one top-level loop in %s" % f.qualname, anchor=f.qualname)
    lp = loops[0]
    if not (isinstance(lp.iter, ast.Call) and src(lp.iter.func) == "enumerate" and
            src(lp.iter.args[0]) == f.params[0] and isinstance(lp.target, ast.Tuple) and
            len(lp.target.elts) == 2):
        raise AnalysisError("main loop is not `for i, t_param in enumerate(type_parameters)`", anchor=f.qualname)
    return lp, lp.target.elts[0].id, lp.target.elts[1].id


def r1_exactly_one(repo):
    f = repo.fn(CTVA)
    lp, idx, tparam = _main_loop(f)
    obs = []
    apps = [c for c in calls_in(lp) if call_name(c) == "append" and src(c.func.value) == "t_args"]
    stores = [n for n in iter_own_nodes(lp) if isinstance(n, ast.Assign) and
              src(n.targets[0]) == "type_var_map[%s]" % tparam]
    direct = lambda n: _stmt(n) in lp.body
    ok = len(apps) == 1 and direct(apps[0])
    obs.append(Ob("C08-R1", "loop:one-append-per-parameter", _w(f, lp), ok,
                  "exactly one unconditional t_args.append(...) at the top level of the loop body; found %d (%s)"
                  % (len(apps), [a.lineno for a in apps])))
    ok2 = len(stores) == 1 and direct(stores[0])
    obs.append(Ob("C08-R1", "loop:one-map-entry-per-parameter", _w(f, lp), ok2,
                  "exactly one unconditional type_var_map[%s] = ... at the top level of the loop body; found %d"
                  % (tparam, len(stores))))
    same = ok and ok2 and src(apps[0].args[0]) == src(stores[0].value)
    obs.append(Ob("C08-R1", "loop:appended-value-is-mapped-value", _w(f, lp), same,
                  "the appended argument and the mapped argument must be the same value"))
    leaves = [n for n in iter_own_nodes(lp) if isinstance(n, (ast.Continue, ast.Break, ast.Return)) and
              not any(isinstance(a, (ast.For, ast.While)) and a is not lp and is_within(a, lp) for a in ancestors(n))]
    obs.append(Ob("C08-R1", "loop:no-continue-break-return", _w(f, lp), not leaves,
                  "the assignment loop may not skip or leave an iteration: %s" % [(type(n).__name__, n.lineno) for n in leaves]))
    ret = f.node.body[-1]
    obs.append(Ob("C08-R1", "returns-args-and-map", _w(f, ret),
                  isinstance(ret, ast.Return) and src(ret.value).replace(" ", "") in ("t_args,type_var_map", "(t_args,type_var_map)"),
                  "must return (t_args, type_var_map); found %s" % src(ret)))
    return obs


def _stmt(n):
    while not isinstance(n, ast.stmt):
        n = n._parent
    return n


VAR = {"inv": "INV", "cov": "COV", "contra": "CONTRA"}
VARIANCE_IN_BOUND = []


def variance_table(repo):
    """Evaluate _get_type_arg_variance over all abstract inputs -> list of (env, possible results)."""
    f = repo.fn(TU + "._get_type_arg_variance")
    tparam, choices, others = f.params[:3]
    # the in_bound definition: any(x.has_bound_of(t_param) for x in other_type_params).  When the function no longer
    # computes it (the caller passes a flag instead) the third parameter itself is the abstract boolean; C08-R2
    # reports that as a violated obligation (VARIANCE_IN_BOUND), C17 only needs the table.
    any_calls = [c for c in calls_in(f.node) if isinstance(c.func, ast.Name) and c.func.id == "any"]
    VARIANCE_IN_BOUND.clear()
    shaped = False
    if len(any_calls) == 1:
        g = any_calls[0].args[0] if any_calls[0].args else None
        shaped = (isinstance(g, ast.GeneratorExp) and isinstance(g.elt, ast.Call) and call_name(g.elt) == "has_bound_of"
                  and src(g.elt.args[0]) == tparam and src(g.elt.func.value) == src(g.generators[0].target)
                  and src(g.generators[0].iter) == others and not g.generators[0].ifs)
    VARIANCE_IN_BOUND.append((shaped, "in_bound must be any(p.has_bound_of(%s) for p in %s); found %s" % (
        tparam, others, [src(c) for c in any_calls] or "no any(...) - parameter `%s` is used as given" % others)))
    if len(any_calls) > 1:
        raise AnalysisError("more than one any(...) in _get_type_arg_variance", rule="C08-R2", anchor=f.qualname)
    rows = []
    for ch, inb, dsv, dsc, decl in itertools.product(
            [None, "absent", (False, False), (False, True), (True, False), (True, True)],
            [False, True], [False, True], [False, True], ["inv", "cov", "contra"]):
        env = {tparam: "TPARAM", choices: None if ch is None else "CHOICES", others: "OTHERS" if any_calls else inb}
        hooks = {
            (src(any_calls[0]) if any_calls else "<no any>"): inb,
            "cfg.dis.use_site_variance": dsv,
            "cfg.dis.use_site_contravariance": dsc,
            "tp.Invariant": "INV", "tp.Covariant": "COV", "tp.Contravariant": "CONTRA",
            "%s.is_invariant()" % tparam: decl == "inv",
            "%s.is_covariant()" % tparam: decl == "cov",
            "%s.is_contravariant()" % tparam: decl == "contra",
            "%s.get()" % choices: (lambda env, key, default=None, ch=ch: default if ch == "absent" else ch),
            "utils.random.choice()": (lambda env, lst: absint.Choice(lst)),
            "ut.random.choice()": (lambda env, lst: absint.Choice(lst)),
        }
        res = absint.run(f.node, env, hooks)
        poss = set(res.options) if isinstance(res, absint.Choice) else {res}
        rows.append(({"choices": ch, "in_bound": inb, "dis.use_site_variance": dsv,
                      "dis.use_site_contravariance": dsc, "declared": decl}, poss))
    return f, rows


def allowed(env):
    out = {"INV"}
    ch = env["choices"]
    if ch is None or env["in_bound"] or env["dis.use_site_variance"]:
        return out
    cov, contra = (True, True) if ch == "absent" else ch
    if cov and env["declared"] in ("inv", "cov"):
        out.add("COV")
    if contra and not env["dis.use_site_contravariance"] and env["declared"] in ("inv", "contra"):
        out.add("CONTRA")
    return out


def r2_variance_table(repo):
    f, rows = variance_table(repo)
    obs = []
    for okb, msgb in VARIANCE_IN_BOUND:
        obs.append(Ob("C08-R2", "in_bound:computed-from-the-other-parameters'-bounds", _w(f), okb, msgb))
    for env, poss in rows:
        al = allowed(env)
        key = "row:" + " ".join("%s=%s" % (k, v) for k, v in env.items())
        extra = poss - al
        ok = not extra and "INV" in poss and not (poss - {"INV", "COV", "CONTRA"})
        obs.append(Ob("C08-R2", key, _w(f), ok,
                      "possible results %s, allowed %s%s" % (sorted(poss), sorted(al),
                                                             "; invariant must always be possible" if "INV" not in poss else ""),
                      {"possible": sorted(map(str, poss)), "allowed": sorted(al)}))
    return obs


def r2b_later_params(repo):
    f = repo.fn(CTVA)
    lp, idx, tparam = _main_loop(f)
    cs = [c for c in calls_in(f.node) if call_name(c) == "_get_type_arg_variance"]
    if len(cs) != 1:
        raise AnalysisError("expected one call of _get_type_arg_variance", rule="C08-R2b", anchor=f.qualname)
    c = cs[0]
    obs = []
    ok = src(c.args[0]) == tparam and src(c.args[1]) == f.params[3]
    obs.append(Ob("C08-R2b", "variance-call:parameter-and-choices", _w(f, c), ok,
                  "_get_type_arg_variance(%s, %s, ...) expected; found %s" % (tparam, f.params[3], src(c)[:90])))
    sl = c.args[2]
    shape = isinstance(sl, ast.Subscript) and src(sl.value) == f.params[0] and isinstance(sl.slice, ast.Slice) and \
        sl.slice.lower is not None and isinstance(sl.slice.lower, ast.BinOp) and isinstance(sl.slice.lower.op, ast.Add) \
        and const_value(sl.slice.lower.right) == 1 and isinstance(sl.slice.lower.left, ast.Name)
    upper_ok = shape and (sl.slice.upper is None or _is_len_of(f, sl.slice.upper, f.params[0], c))
    obs.append(Ob("C08-R2b", "variance-call:slice-shape", _w(f, c), bool(shape and upper_ok),
                  "third argument must be %s[<index> + 1:] (up to the end); found %s" % (f.params[0], src(sl))))
    if shape:
        nm = sl.slice.lower.left
        g = cfg_of(f.node)
        defs = g.defs_reaching(nm.id, c)
        loop_node = g.node(lp)
        good = len(defs) == 1 and defs[0][0] == loop_node and nm.id == idx
        others = [(g.stmt(d).lineno, k) for d, _v, k in defs if d != loop_node]
        obs.append(Ob("C08-R2b", "variance-call:index-is-the-enumerate-index", _w(f, c), good,
                      "the index `%s` in the slice must have exactly one reaching definition, the "
                      "`for %s, %s in enumerate(%s)` loop; other definitions reaching the call: %s "
                      "(an inner loop or assignment rebinding it makes in_bound look at the wrong parameters)"
                      % (nm.id, idx, tparam, f.params[0], others)))
        tdefs = g.defs_reaching(tparam, c)
        obs.append(Ob("C08-R2b", "variance-call:parameter-not-rebound", _w(f, c),
                      len(tdefs) == 1 and tdefs[0][0] == loop_node,
                      "`%s` must not be rebound inside the loop body" % tparam))
    return obs


def _is_len_of(f, e, what, at):
    if isinstance(e, ast.Call) and src(e) == "len(%s)" % what:
        return True
    if isinstance(e, ast.Name):
        defs = cfg_of(f.node).defs_reaching(e.id, at)
        return len(defs) == 1 and isinstance(defs[0][1], ast.AST) and src(defs[0][1]) == "len(%s)" % what
    return False


def r3_wildcard_site(repo):
    f = repo.fn(CTVA)
    ws = [c for c in calls_in(f.node) if call_name(c) == "WildCardType"]
    obs = []
    ok, msg = len(ws) == 1, "expected exactly one WildCardType construction in %s, found %d" % (f.name, len(ws))
    if ok:
        w = ws[0]
        v = w.args[1] if len(w.args) > 1 else kwarg(w, "variance")
        defs = cfg_of(f.node).defs_reaching(v.id, w) if isinstance(v, ast.Name) else []
        from_fn = len(defs) == 1 and isinstance(defs[0][1], ast.Call) and call_name(defs[0][1]) == "_get_type_arg_variance"
        gs = [(src(t), p) for t, p in flat_guards(w)]
        guarded = ("%s.is_invariant()" % src(v), False) in gs and ("%s.is_wildcard()" % src(w.args[0]), False) in gs
        ok = from_fn and guarded
        msg = ("the projection's variance must be the result of _get_type_arg_variance (%s) and it must be skipped for "
               "an invariant result or an argument that already is a wildcard (guards %s)" % (from_fn, gs))
    obs.append(Ob("C08-R3", "projection-construction-site", _w(f), ok, msg))
    return obs


def g_dom(f, a, b):
    """statement a lies on the way to node b within one loop iteration: a precedes b in the same or an enclosing block"""
    sa = _stmt(a)
    return sa.lineno <= _stmt(b).lineno


def r4_pool(repo):
    obs = []
    callers = []
    for fn_ in repo.functions.values():
        for c in calls_in(fn_.node):
            if call_name(c) == "_compute_type_variable_assignments" and fn_.qualname != CTVA:
                callers.append((fn_, c))
    for f, cc in sorted(callers, key=lambda x: x[0].qualname):
        g = cfg_of(f.node)
        pool = cc.args[1] if len(cc.args) > 1 else kwarg(cc, "types")
        ok, why = False, "pool argument is not a local name"
        if isinstance(pool, ast.Name):
            defs = g.defs_reaching(pool.id, cc)
            ok = len(defs) == 1 and isinstance(defs[0][1], ast.Call) and call_name(defs[0][1]) == "_get_available_types"
            why = "the pool must have exactly one definition, a call of _get_available_types"
            if ok:
                ga = defs[0][1]
                prim = kwarg(ga, "primitives", 3)
                oreg = kwarg(ga, "only_regular", 2)
                ok = prim is not None and const_value(prim, 1) is False and oreg is not None and \
                    (const_value(oreg) is True or src(oreg) == "only_regular")
                why = ("_get_available_types(..., only_regular=%s, primitives=%s): primitives must be False (boxed pool) and "
                       "only_regular True" % (src(oreg) if oreg is not None else "default", src(prim) if prim is not None else "default True"))
        obs.append(Ob("C08-R4", "%s:pool-from-_get_available_types(primitives=False)" % f.name, _w(f, cc), ok,
                      "the candidate pool handed to _compute_type_variable_assignments: " + why))
    if len(callers) < 3:
        raise AnalysisError("callers of _compute_type_variable_assignments: %d" % len(callers), rule="C08-R4")
    for q, want_ftc, want_vc in ((TU + ".instantiate_type_constructor", True, "variance_choices"),
                                 (TU + ".instantiate_parameterized_function", False, "None")):
        f = repo.fn(q)
        cc = [c for c in calls_in(f.node) if call_name(c) == "_compute_type_variable_assignments"]
        ok = len(cc) == 1
        if ok:
            ftc = kwarg(cc[0], "for_type_constructor", 4)
            vc = kwarg(cc[0], "variance_choices", 3)
            ok = ftc is not None and const_value(ftc, None) is want_ftc and vc is not None and src(vc) == want_vc and \
                src(kwarg(cc[0], "type_var_map", 2)) == "type_var_map"
        obs.append(Ob("C08-R4", "%s:mode-flags" % f.name, _w(f), ok,
                      "%s must call _compute_type_variable_assignments(..., type_var_map=type_var_map, variance_choices=%s, "
                      "for_type_constructor=%s) explicitly (generic functions get no projections and `Nothing` for a "
                      "parameter bounded by a covariantly projected class variable)" % (f.name, want_vc, want_ftc)))
    f = repo.fn(TU + "._get_available_types")
    # judged on the path condition of the one statement that lets an element into the result (whatever the layout of
    # the skipping tests: `continue` guards, nested ifs, else branches)
    loops = [n for n in iter_own_nodes(f.node) if isinstance(n, ast.For) and
             not any(isinstance(a, (ast.For, ast.While)) for a in ancestors(n))]
    ok1 = ok2 = ok3 = ok4 = False
    if len(loops) == 1:
        lp = loops[0]
        v = src(lp.target)
        apps = [c for c in calls_in(lp) if call_name(c) == "append"]
        if len(apps) == 1:
            raw = [(" ".join(src(t).split()), p) for t, p in flat_guards(apps[0], stop=lp)]
            ok1 = ("isinstance(%s, tp.TypeConstructor)" % v, False) in raw
            nonreg = "isinstance(%s, ast.ClassDeclaration) and %s.class_type != ast.ClassDeclaration.REGULAR" % (v, v)
            ok2 = (nonreg, False) in raw or (
                ("isinstance(%s, ast.ClassDeclaration)" % v, False) in raw) or (
                ("%s.class_type == ast.ClassDeclaration.REGULAR" % v, True) in raw)
            # an unflattened negative compound that contains both conjuncts also counts
            ok2 = ok2 or any(not p and "isinstance(%s, ast.ClassDeclaration)" % v in t and "REGULAR" in t and " or " not in t
                             for t, p in raw)
            box = [n for n in iter_own_nodes(lp) if isinstance(n, ast.Assign) and src(n.targets[0]) == v and
                   src(n.value) == "%s.box_type()" % v]
            bg = [(src(t), p) for t, p in flat_guards(box[0], stop=lp)] if box else []
            own = [x for x in bg if x not in raw]        # what the boxing depends on beyond reaching the append
            ok3 = len(box) == 1 and (f.params[3], False) in bg and ("hasattr(%s, 'box_type')" % v, True) in bg and \
                sorted(own) == sorted([(f.params[3], False), ("hasattr(%s, 'box_type')" % v, True)]) and \
                g_dom(f, box[0], apps[0])
            rets = [n for n in iter_own_nodes(f.node) if isinstance(n, ast.Return) and n.value is not None and
                    src(n.value) == src(apps[0].func.value)]
            ok4 = src(apps[0].args[0]) == v and src(lp.iter) == f.params[1] and len(rets) == 1 and \
                cfg_of(f.node).dominates(cfg_of(f.node).node(lp), cfg_of(f.node).node(rets[0]))
    early = [n for n in f.node.body if isinstance(n, ast.If) and src(n.test) == "not %s" % f.params[2]]
    obs.append(Ob("C08-R4", "_get_available_types:drops-type-constructors", _w(f), ok1,
                  "bare type constructors must be skipped unconditionally"))
    obs.append(Ob("C08-R4", "_get_available_types:drops-non-regular-classes", _w(f), ok2,
                  "class declarations that are not REGULAR must be skipped"))
    obs.append(Ob("C08-R4", "_get_available_types:boxes-primitives", _w(f), ok3,
                  "with primitives=False anything with box_type must be replaced by its box"))
    obs.append(Ob("C08-R4", "_get_available_types:returns-filtered-list", _w(f), ok4,
                  "the filtered list (one append at the end of the loop body over `types`) must be returned"))
    # call sites: only_regular never False
    sites = []
    targets = {"instantiate_type_constructor": 2, "instantiate_parameterized_function": 2, "choose_type": 1}
    for fn in repo.functions.values():
        for c in calls_in(fn.node):
            n = call_name(c)
            if n in targets:
                tgt, _how = repo.resolve_call(c, fn)
                if any(t.qualname.startswith(TU + ".") for t in tgt):
                    sites.append((fn, c, n))
    for fn, c, n in sites:
        v = kwarg(c, "only_regular", targets[n])
        ok = v is None or const_value(v) is True or (isinstance(v, ast.Name) and v.id == "only_regular" and
                                                    "only_regular" in fn.params)
        obs.append(Ob("C08-R4", "call:%s:%s#%d" % (fn.qualname, n, [s[1] for s in sites if s[0] is fn].index(c)),
                      _w(fn, c), ok,
                      "only_regular must be left True (or forwarded); found %s" % (src(v) if v is not None else "default")))
    if len(sites) < 15:
        raise AnalysisError("only %d call sites of the instantiation helpers found" % len(sites), rule="C08-R4")
    # a chosen type constructor is instantiated before use
    f = repo.fn(CTVA)
    lp, idx, tparam = _main_loop(f)
    inst = [n for n in iter_own_nodes(lp) if isinstance(n, ast.Assign) and isinstance(n.value, ast.Call) and
            call_name(n.value) == "instantiate_type_constructor"]
    ok = False
    if len(inst) == 1 and isinstance(inst[0].targets[0], ast.Tuple):
        nm = src(inst[0].targets[0].elts[0])
        gs = [(src(t), p) for t, p in flat_guards(inst[0], stop=lp)]
        ok = gs == [("%s.is_type_constructor()" % nm, True)] and src(inst[0].value.args[0]) == nm and \
            _stmt(inst[0])._parent in lp.body
        app = [c for c in calls_in(lp) if call_name(c) == "append" and src(c.func.value) == "t_args"]
        if ok and app:
            prov = Prov(f.node)
            names = {s.id for s in ast.walk(app[0].args[0]) if isinstance(s, ast.Name)}
            srcs = prov.sources(app[0].args[0])
            ok = any(s is inst[0].value for s in srcs)
    obs.append(Ob("C08-R4", "chosen-type-constructor-is-instantiated", _w(f), ok,
                  "a chosen class that is a type constructor must be replaced by instantiate_type_constructor(...) "
                  "before it becomes the argument"))
    return obs


def r5_r6_pools(repo):
    f = repo.fn(CTVA)
    lp, idx, tparam = _main_loop(f)
    g = cfg_of(f.node)
    obs = list(r5b_take_over(repo))
    ch = [c for c in calls_in(lp) if call_name(c) == "choice"]
    if len(ch) != 1 or not isinstance(ch[0].args[0], ast.Name):
        raise AnalysisError("expected one random.choice(<pool>) in the loop", rule="C08-R5", anchor=f.qualname)
    pool = ch[0].args[0].id
    defs = g.defs_reaching(pool, ch[0])
    kinds = {}
    prov = Prov(f.node, passthrough={"to_variance_free", "enumerate", "list", "items", "values"})

    def sources(st, v):
        """leaves the pool defined at `st` is made from: its value, and - for a list that is filled afterwards - what is
        appended / stored into it before the draw"""
        leaves = list(prov.sources(v, at=st)) if isinstance(v, ast.AST) else []
        if isinstance(v, ast.AST):
            for n in iter_own_nodes(lp):
                if isinstance(n, ast.Call) and call_name(n) in ("append", "extend") and \
                        isinstance(n.func, ast.Attribute) and src(n.func.value) == pool and n.lineno >= st.lineno and \
                        n.lineno <= ch[0].lineno and any(dd[0] == g.node(st) for dd in g.defs_reaching(pool, n)):
                    leaves += prov.sources(n.args[0], at=n)
                if isinstance(n, ast.Assign) and isinstance(n.targets[0], ast.Subscript) and \
                        src(n.targets[0].value) == pool and n.lineno >= st.lineno and n.lineno <= ch[0].lineno and \
                        any(dd[0] == g.node(st) for dd in g.defs_reaching(pool, n)):
                    leaves += prov.sources(n.value, at=n)
        return leaves

    for d, v, k in defs:
        st = g.stmt(d)
        gs = [(src(t), p) for t, p in flat_guards(st, stop=lp)]
        s = src(v) if isinstance(v, ast.AST) else str(v)
        leaves = sources(st, v)
        # a pure filter `[t for t in X if ...]` is as good as X for the question where the pool comes from
        expanded = set()
        for _round in range(4):
            nxt, changed_ = [], False
            for x in leaves:
                if isinstance(x, ast.ListComp) and len(x.generators) == 1 and src(x.elt) == src(x.generators[0].target) \
                        and src(x.generators[0].iter) != f.params[1]:
                    if id(x) not in expanded:
                        expanded.add(id(x))
                        nxt += prov.sources(x.generators[0].iter, at=x)
                    changed_ = True
                else:
                    nxt.append(x)
            leaves = nxt
            if not changed_:
                break
        texts = [src(x) for x in leaves if isinstance(x, ast.AST)]
        fs = [x for x in leaves if isinstance(x, ast.Call) and call_name(x) == "find_subtypes"]
        if fs:
            kinds.setdefault("subtypes-of-bound", []).append((st, gs, fs[0]))
        elif any(x == "type_var_map.get(%s)" % tparam for x in texts):
            kinds.setdefault("pre-assignment", []).append((st, gs))
        elif any(x.startswith("type_var_map[%s.bound]" % tparam) for x in texts):
            kinds.setdefault("assignment-of-bound-variable", []).append((st, gs))
        elif any("type_var_map.items()" in x for x in texts):
            kinds.setdefault("assignment-of-dependent-variable", []).append((st, gs))
        elif ("param", f.params[1]) in leaves and all(
                isinstance(x, ast.ListComp) and src(x.generators[0].iter) == f.params[1] and src(x.elt) == src(x.generators[0].target)
                for x in leaves if isinstance(x, ast.AST)):
            kinds.setdefault("whole-pool", []).append((st, gs))
        elif isinstance(v, ast.List) and not v.elts and not leaves:
            kinds.setdefault("empty-init", []).append((st, gs))
        else:
            kinds.setdefault("unknown:" + s, []).append((st, gs))
    unknown = [k for k in kinds if k.startswith("unknown")]
    obs.append(Ob("C08-R5", "pool:every-definition-is-a-known-pool", _w(f, ch[0]), not unknown,
                  "definitions of the candidate list reaching random.choice: %s" % sorted(kinds)))
    # R6 pre-assignment
    pa = kinds.get("pre-assignment", [])
    obs.append(Ob("C08-R6", "pre-assignment-kept", _w(f), len(pa) == 1,
                  "when the caller assigned a type to the parameter (type_var_map.get(%s) truthy) the pool must be that "
                  "singleton" % tparam))
    # R5 subtypes of the (substituted) bound
    sb = kinds.get("subtypes-of-bound", [])
    ok, msg = False, "no find_subtypes(bound, ...) pool"
    if len(sb) == 1:
        st, gs, call = sb[0]
        b = call.args[0]
        bdefs = g.defs_reaching(b.id, st) if isinstance(b, ast.Name) else []
        shapes = set()
        for d, v, k in bdefs:
            dg = [(src(t), p) for t, p in flat_guards(g.stmt(d), stop=lp)]
            if isinstance(v, ast.Call) and call_name(v) == "substitute_type" and \
                    [src(a) for a in v.args] == ["%s.bound" % tparam, "type_var_map"] and \
                    ("%s.bound.has_type_variables()" % tparam, True) in dg:
                shapes.add("substituted")
            elif isinstance(v, ast.Attribute) and src(v) == "%s.bound" % tparam and \
                    ("%s.bound.has_type_variables()" % tparam, False) in dg:
                shapes.add("ground")
            else:
                shapes.add("other:" + (src(v) if isinstance(v, ast.AST) else str(v)))
        incl = const_value(kwarg(call, "include_self", 2)) is True
        pool_ok = src(call.args[1]) == f.params[1]
        guard_ok = ("%s.bound" % tparam, True) in gs and ("%s.bound.is_type_var()" % tparam, False) in gs
        ok = shapes == {"substituted", "ground"} and incl and pool_ok and guard_ok
        msg = ("bounded parameter: pool = find_subtypes(<bound substituted with the arguments chosen so far when it has "
               "type variables>, types, include_self=True): bound definitions %s include_self=%s guards=%s"
               % (sorted(shapes), incl, gs))
    obs.append(Ob("C08-R5", "bounded-parameter-draws-from-subtypes-of-substituted-bound", _w(f), ok, msg))
    vb = kinds.get("assignment-of-bound-variable", [])
    ok = len(vb) == 1 and ("%s.bound.is_type_var()" % tparam, False) not in vb[0][1] and \
        ("%s.bound" % tparam, True) in vb[0][1]
    obs.append(Ob("C08-R5", "variable-bound-draws-the-assignment-of-that-variable", _w(f), ok,
                  "a parameter bounded by another type variable must get that variable's assignment"))
    # update_type_var_bound_rec may re-assign the bounding variable only if that variable is one of the parameters being
    # instantiated here (it has an index); an assignment that came with the receiver (enclosing class) is not ours
    u = repo.fn(TU + ".update_type_var_bound_rec")
    gu_ = cfg_of(u.node)
    mp, ixs = u.params[4], u.params[3]
    wr = [n for n in iter_own_nodes(u.node) if isinstance(n, ast.Assign) and isinstance(n.targets[0], ast.Subscript) and
          src(n.targets[0].value) == mp]
    oku = bool(wr)
    for n in wr:
        key = src(n.targets[0].slice)
        guarded = any(p_ and " ".join(src(t_).split()) == "%s in %s" % (key, ixs) for t_, p_ in flat_guards(n))
        # ... or a lookup `indexes[key]` that raises KeyError for a foreign variable is evaluated before, in the same try
        looked = [x for x in iter_own_nodes(u.node) if isinstance(x, ast.Subscript) and src(x.value) == ixs and
                  src(x.slice) == key]
        dominated = any(gu_.dominates(gu_.node(_stmt(x)), gu_.node(n)) and _stmt(x) is not n and
                        any(isinstance(a, ast.Try) for a in ancestors(n)) and
                        [a for a in ancestors(n) if isinstance(a, ast.Try)][:1] ==
                        [a for a in ancestors(_stmt(x)) if isinstance(a, ast.Try)][:1] for x in looked)
        if not (guarded or dominated):
            oku = False
    obs.append(Ob("C08-R5", "update_type_var_bound_rec:only-own-parameters-are-reassigned", _w(u), oku,
                  "`%s[bound] = t` must happen only for a bound that is one of the parameters under instantiation "
                  "(`bound in %s`, or after `%s[bound]` was evaluated in the same try): the receiver's assignment of an "
                  "enclosing-class type variable must not be overwritten" % (mp, ixs, ixs)))
    wp = kinds.get("whole-pool", [])
    ok = len(wp) == 1 and ("%s.bound" % tparam, False) in wp[0][1]
    obs.append(Ob("C08-R5", "whole-pool-only-for-unbounded-parameters", _w(f), ok,
                  "the unrestricted pool may be used only when the parameter has no bound; guards %s"
                  % [w[1] for w in wp]))
    return obs


def r7_pecs(repo):
    f = repo.fn(TU + ".instantiate_type_constructor")
    obs = []
    tc = f.params[0]
    dcs = [n for n in iter_own_nodes(f.node) if isinstance(n, ast.Assign) and src(n.targets[0]) == "variance_choices"
           and isinstance(n.value, ast.DictComp)]
    pecs = [d for d in dcs if src(d.value.value).replace(" ", "") == "(False,True)"]
    ok = len(pecs) == 1 and src(pecs[0].value.generators[0].iter) == "%s.type_parameters[:-1]" % tc
    if ok:
        gs = [(src(t), p) for t, p in flat_guards(pecs[0])]
        ok = ("enable_pecs", True) in gs and ("%s.name.startswith('Function')" % tc, True) in gs
        ret = [n for n in iter_own_nodes(f.node) if isinstance(n, ast.Assign) and
               src(n.targets[0]) == "variance_choices[%s.type_parameters[-1]]" % tc]
        ok = ok and len(ret) == 1 and src(ret[0].value).replace(" ", "") == "(True,False)" and \
            ret[0].lineno > pecs[0].lineno and _stmt(ret[0])._parent is _stmt(pecs[0])._parent
    obs.append(Ob("C08-R7", "pecs:function-types", _w(f), ok,
                  "function types: parameters may only be contravariant (False, True), the result only covariant (True, False)"))
    dis = [d for d in dcs if src(d.value.value).replace(" ", "") == "(False,False)"]
    ok = len(dis) == 1 and src(dis[0].value.generators[0].iter) == "%s.type_parameters" % tc
    if ok:
        t = _stmt(dis[0])._parent
        # the switch wins whatever the PECS decision was: the block is not in the else-branch of the PECS test
        gsd = [(src(t_), p_) for t_, p_ in flat_guards(dis[0])]
        ok = isinstance(t, ast.If) and src(t.test).startswith("disable_variance or") and \
            dis[0].lineno > (pecs[0].lineno if pecs else 0) and not any("enable_pecs" in s_ for s_, _p in gsd)
        cc = [c for c in calls_in(f.node) if call_name(c) == "_compute_type_variable_assignments"]
        ok = ok and len(cc) == 1 and src(kwarg(cc[0], "variance_choices", 3)) == "variance_choices" and \
            cc[0].lineno > dis[0].lineno
    obs.append(Ob("C08-R7", "disable_variance-zeroes-all-choices", _w(f), ok,
                  "disable_variance must set (False, False) for every type parameter, after the PECS table, and the "
                  "table must be what _compute_type_variable_assignments receives"))
    return obs


def r6_preassigned_propagation(repo):
    """A type argument the caller pre-assigned to a parameter whose bound is another type parameter is propagated to
    that bound (update_type_var_bound_rec).  Evaluated over all abstract inputs (finite-domain evaluation of the block
    that contains the call): what is propagated is never an `in` projection, and whenever a projection was unwrapped or
    replaced the parameter's own variance choices are closed."""
    f = repo.fn(CTVA)
    lp, idx, tparam = _main_loop(f)
    calls = [c for c in calls_in(lp) if call_name(c) == "update_type_var_bound_rec"]
    obs = []
    if len(calls) != 1:
        raise AnalysisError("expected one update_type_var_bound_rec call in the main loop", rule="C08-R6", anchor=f.qualname)
    call = calls[0]
    blk = None
    for a in ancestors(call):
        if isinstance(a, ast.If) and "bound" in src(a.test) and "is_type_var" in src(a.test) and _stmt(call) in a.body:
            blk = a
            break
    if blk is None:
        raise AnalysisError("block `if <param>.bound and <param>.bound.is_type_var():` around the propagation not found",
                            rule="C08-R6", anchor=f.qualname)
    tname = src(call.args[1])
    ftc = "for_type_constructor"
    vc = f.params[3]
    fake = ast.FunctionDef(name="_blk", args=None, body=blk.body, decorator_list=[])
    n_rows = 0
    for kind, decl, choices, ftcv in itertools.product(["plain", "out", "in"], ["inv", "cov", "contra"],
                                                       [None, "dict"], [False, True]):
        B = absint.AObj("B", is_wildcard=lambda: False, is_covariant=lambda: False, is_contravariant=lambda: False,
                        is_invariant=lambda: True)
        t = B if kind == "plain" else absint.AObj(
            "in B" if kind == "in" else "out B", is_wildcard=lambda: True, bound=B,
            is_covariant=lambda k=kind: k == "out", is_contravariant=lambda k=kind: k == "in", is_invariant=lambda: False)
        P = absint.AObj("P", is_invariant=lambda d=decl: d == "inv", is_covariant=lambda d=decl: d == "cov",
                        is_contravariant=lambda d=decl: d == "contra")
        sent = []
        env = {tname: t, tparam: P, vc: None if choices is None else {}, ftc: ftcv,
               "t_args": "T_ARGS", "indexes": "INDEXES", "type_var_map": "MAP"}
        hooks = {"update_type_var_bound_rec()": (lambda env, *a: sent.append(a[1])),
                 "tp.Nothing": absint.AObj("Nothing", is_wildcard=lambda: False)}
        absint.run(fake, env, hooks)
        n_rows += 1
        key = "row:arg=%s declared=%s choices=%s for_type_constructor=%s" % (kind, decl, choices, ftcv)
        got = sent[0].name if len(sent) == 1 else "calls=%d" % len(sent)
        closed = (env[vc] or {}).get("P") if choices else None
        ok = len(sent) == 1 and got != "in B" and not (got == "out B" and decl == "contra")
        if choices and kind == "in":
            ok = ok and closed == (False, False)
        if choices and kind == "out" and decl == "contra":
            ok = ok and closed == (False, False)
        obs.append(Ob("C08-R6", key, _w(f, call), ok,
                      "propagated to the bounding parameter: %s; variance choices of the parameter afterwards: %s.  An "
                      "`in` projection (or an `out` projection of a contravariant parameter) must be unwrapped before it "
                      "is propagated, and the parameter's variance choices closed" % (got, closed),
                      {"propagated": got, "choices_after": str(closed)}))
    return obs


def r6b_bound_assignment(repo):
    """The mirror case: a parameter bounded by another type variable takes that variable's assignment
    (`a_types = [t_bound]`).  The statements between the lookup of the assignment and that store are evaluated over
    all abstract inputs: the parameter never takes an `in` projection, not an `out` projection when it is declared
    contravariant itself, `Nothing` instead of an `out` projection outside type-constructor instantiation, and its
    variance choices are closed whenever a projection was unwrapped."""
    f = repo.fn(CTVA)
    lp, idx, tparam = _main_loop(f)
    g = cfg_of(f.node)
    stores = [n for n in iter_own_nodes(lp) if isinstance(n, ast.Assign) and isinstance(n.targets[0], ast.Name) and
              isinstance(n.value, ast.List) and len(n.value.elts) == 1 and isinstance(n.value.elts[0], ast.Name) and
              any("type_var_map[%s.bound]" % tparam in src(d[1]) for d in g.defs_reaching(n.value.elts[0].id, n)
                  if isinstance(d[1], ast.AST))]
    if len(stores) != 1:
        raise AnalysisError("expected one `pool = [<assignment of the bounding variable>]` store", rule="C08-R6b",
                            anchor=f.qualname)
    st = stores[0]
    tb = st.value.elts[0].id
    blk = st._parent.body if st in getattr(st._parent, "body", []) else getattr(st._parent, "orelse", [])
    i_end = blk.index(st)
    # the statements after the lookup (a try / assert that produces the value) up to the store
    i0 = 0
    for i, s_ in enumerate(blk[:i_end]):
        if isinstance(s_, (ast.Try, ast.Assert)) or (isinstance(s_, ast.Assign) and "type_var_map[" in src(s_.value)):
            i0 = i + 1
    fake = ast.FunctionDef(name="_blk", args=None, body=blk[i0:i_end], decorator_list=[])
    vc, ftc = f.params[3], "for_type_constructor"
    obs = []
    for kind, decl, bdecl, choices, ftcv in itertools.product(
            ["plain", "out", "in"], ["inv", "cov", "contra"], ["inv", "cov", "contra"], [None, "dict"], [False, True]):
        B = absint.AObj("B", is_wildcard=lambda: False, is_covariant=lambda: False, is_contravariant=lambda: False,
                        is_invariant=lambda: True)
        t = B if kind == "plain" else absint.AObj(
            "in B" if kind == "in" else "out B", is_wildcard=lambda: True, bound=B,
            is_covariant=lambda k=kind: k == "out", is_contravariant=lambda k=kind: k == "in", is_invariant=lambda: False)
        PB = absint.AObj("PB", is_invariant=lambda d=bdecl: d == "inv", is_covariant=lambda d=bdecl: d == "cov",
                         is_contravariant=lambda d=bdecl: d == "contra", is_type_var=lambda: True)
        P = absint.AObj("P", is_invariant=lambda d=decl: d == "inv", is_covariant=lambda d=decl: d == "cov",
                        is_contravariant=lambda d=decl: d == "contra", bound=PB)
        env = {tb: t, tparam: P, vc: None if choices is None else {}, ftc: ftcv, "type_var_map": "MAP"}
        hooks = {"tp.Nothing": absint.AObj("Nothing", is_wildcard=lambda: False)}
        fin = {}
        try:
            absint.run(fake, env, hooks, final_env=fin)
        except AnalysisError as e:
            raise AnalysisError("bound-assignment block cannot be evaluated: %s" % e, rule="C08-R6b", anchor=f.qualname)
        got = fin[tb].name if isinstance(fin[tb], absint.AObj) else str(fin[tb])
        closed = (env[vc] or {}).get("P") if choices else None
        want = "B"
        if kind == "out" and decl != "contra":
            want = "out B" if ftcv else "Nothing"
        ok = got == want
        if choices and (kind == "in" or (kind == "out" and decl == "contra")):
            ok = ok and closed == (False, False)
        obs.append(Ob("C08-R6b", "row:assignment=%s declared=%s bound-declared=%s choices=%s for_type_constructor=%s"
                      % (kind, decl, bdecl, choices, ftcv), _w(f, st), ok,
                      "the parameter takes %s (expected %s); its variance choices afterwards: %s.  The unwrapping depends "
                      "on the variance of the parameter itself, not of the variable that bounds it" % (got, want, closed),
                      {"taken": got, "expected": want, "choices_after": str(closed)}))
    return obs


def r8_equality(repo):
    """the assignment is a dict keyed by TypeParameter objects and pre-assignments are looked up by equality: two parameters that compare equal share one entry"""
    return kernel.equality_is_structural(repo, "C08-R8")


def r9_fold(repo):
    """a bound is substituted with the other arguments only if has_type_variables() says there is something to substitute"""
    return kernel.has_type_variables_fold(repo, "C08-R9")


def r10_variance(repo):
    """the variance decision table is stated in terms of these predicates"""
    return kernel.variance_table(repo, "C08-R10")


def _filled_in_declaration_order(f, text):
    """`D.values()` where D is created empty in this function and receives an entry for the loop variable of a loop over
    a declaration's `type_parameters` in every iteration: insertion order is declaration order (an entry stored for the
    *bound* of the loop variable re-assigns an earlier parameter's key or - the documented assumption - names an earlier
    parameter)"""
    m = re.match(r"^(\w+)\.values\(\)$", text)
    if not m:
        return False
    d = m.group(1)
    empty = [n for n in iter_own_nodes(f.node) if isinstance(n, ast.Assign) and src(n.targets[0]) == d and
             (src(n.value) in ("{}", "dict()", "OrderedDict()"))]
    others = [n for n in iter_own_nodes(f.node) if isinstance(n, ast.Assign) and src(n.targets[0]) == d and n not in empty]
    if not empty or others or d in f.params:
        return False
    for lp in [n for n in iter_own_nodes(f.node) if isinstance(n, ast.For) and "type_parameters" in src(n.iter)]:
        tv = [x.id for x in ast.walk(lp.target) if isinstance(x, ast.Name)]
        stores = [n for n in iter_own_nodes(lp) if isinstance(n, ast.Assign) and isinstance(n.targets[0], ast.Subscript) and
                  src(n.targets[0].value) == d]
        keys = {src(n.targets[0].slice) for n in stores}
        if stores and all(k in tv or any(k == v + ".bound" for v in tv) for k in keys) and any(k in tv for k in keys):
            return True
    return False


def r11_declaration_order(repo):
    """A type-argument list is positional: element i instantiates type parameter i of the declaration.  Every list handed
    to `<type constructor>.new(..)` / `ParameterizedType(.., <list>)` is therefore built in declaration order - never taken
    from the values / keys / items of a map (insertion order: the order in which assignments happened to be made) or from a
    set."""
    obs = []
    for qual, f in sorted(repo.functions.items()):
        if not (f.module.name.startswith("src.") or f.module.name == "hephaestus"):
            continue
        prov = None
        for c in calls_in(f.node):
            if not (call_name(c) == "new" and isinstance(c.func, ast.Attribute) and len(c.args) == 1 and not c.keywords):
                continue
            arg = c.args[0]
            prov = prov or Prov(f.node, passthrough={"list", "tuple", "sorted", "reversed"})
            leaves = [arg] + [s_ for s_ in prov.sources(arg, at=c) if isinstance(s_, ast.AST)]
            bad = []
            for lf in leaves:
                for n in ast.walk(lf):
                    if isinstance(n, ast.Call) and isinstance(n.func, ast.Attribute) and n.func.attr in ("values", "keys", "items") \
                            and not n.args:
                        bad.append(src(n))
                    if isinstance(n, ast.Call) and isinstance(n.func, ast.Name) and n.func.id in ("set", "frozenset"):
                        bad.append(src(n))
                    if isinstance(n, (ast.Set, ast.SetComp)):
                        bad.append(src(n)[:40])
            # a comprehension / loop over the declaration's parameters that *looks up* a map is fine: `m[t_param] for t_param in ..`
            bad = [b for b in bad if not any(isinstance(lf, (ast.ListComp,)) and b in src(lf.generators[0].iter) and
                                             "type_parameters" in src(lf.generators[0].iter) for lf in leaves)]
            bad = [b for b in bad if not _filled_in_declaration_order(f, b)]
            obs.append(Ob("C08-R11", "%s:new(%s):arguments-in-declaration-order" % (f.qualname.split(".", 2)[-1], src(arg)[:30]),
                          _w(f, c), not bad,
                          "`%s`: the type-argument list derives from %s - a map's iteration order is the order of insertion, "
                          "not the order of the declaration's type parameters" % (src(c)[:80], sorted(set(bad)))))
    return obs


def r5b_take_over(repo):
    """a parameter that is the bound of an already assigned parameter takes over that assignment whenever it has no
    assignment of its own - whatever bound it has itself (otherwise the later parameter's argument is not below it)"""
    from ..astutil import enclosing_stmt
    f = repo.fn(CTVA)
    lp, idx, tparam = _main_loop(f)
    sites = []
    for x in ast.walk(lp):
        if isinstance(x, ast.Compare) and len(x.ops) == 1 and isinstance(x.ops[0], ast.Eq) and \
                src(x.left).endswith(".bound") and src(x.comparators[0]) == tparam and "." not in src(x.left)[:-6]:
            # the search over the assignments made so far: a loop or a comprehension over <map>.items()
            st = enclosing_stmt(x)
            holder = st
            for a in ancestors(x):
                if isinstance(a, ast.For) and a is not lp and isinstance(a.iter, ast.Call) and call_name(a.iter) == "items":
                    holder = a
                    break
                if a is lp:
                    break
            sites.append(holder)
    sites = list({id(h): h for h in sites}.values())
    if len(sites) != 1:
        raise AnalysisError("expected one take-over search `<k>.bound == %s` over the assignments, found %d" % (tparam, len(sites)),
                            rule="C08-R5", anchor=f.qualname)
    gs = [(src(t), p) for t, p in flat_guards(sites[0], stop=lp)]
    extra = [("" if p else "not ") + t for t, p in gs if p or not re.match(r"^\w+$", t)]
    return [Ob("C08-R5", "take-over-of-a-bounded-parameter's-assignment:whenever-not-pre-assigned", _w(f, sites[0]),
               not extra and len(gs) <= 1,
               "the take-over search runs under %s; expected only `not <own pre-assignment>`"
               % [("" if p else "not ") + t for t, p in gs])]


def rules():
    return [
        RuleSpec("C08-R1", "exactly one argument and one map entry per type parameter", 5, r1_exactly_one),
        RuleSpec("C08-R2", "variance decision table of _get_type_arg_variance (all abstract inputs)", 144, r2_variance_table),
        RuleSpec("C08-R2b", "'parameters after the current one' uses the enumerate index", 4, r2b_later_params),
        RuleSpec("C08-R3", "single projection construction site, variance from the decision function", 1, r3_wildcard_site),
        RuleSpec("C08-R4", "candidate pool: filtered, boxed, every call site keeps only_regular", 22, r4_pool),
        RuleSpec("C08-R5", "bounds drive the pool; pre-assignments kept", 5, r5_r6_pools),
        RuleSpec("C08-R6", "pre-assigned arguments: what is propagated up the bound chain (all abstract inputs)", 36,
                 r6_preassigned_propagation),
        RuleSpec("C08-R6b", "parameter bounded by a type variable: what it takes from that variable's assignment "
                            "(all abstract inputs)", 108, r6b_bound_assignment),
        RuleSpec("C08-R7", "PECS tables", 2, r7_pecs),
        RuleSpec("C08-R8", "equality of types is structural (assignments are keyed by type parameters)", 6, r8_equality),
        RuleSpec("C08-R9", "has_type_variables is the structural fold (bounds are substituted only where it answers True)", 7, r9_fold),
        RuleSpec("C08-R10", "the three variance objects answer their own predicates", 4, r10_variance),
        RuleSpec("C08-R11", "type-argument lists are built in declaration order, never from a map's values", 10, r11_declaration_order),
    ]


# -- variants -----------------------------------------------------------------------

def _ctva(tree):
    return V.find_def(tree, "_compute_type_variable_assignments")


def _v_continue_before_append(tree):
    f = _ctva(tree)
    lp = V.one([n for n in f.body if isinstance(n, ast.For)])
    st = V.one([n for n in lp.body if "t_args.append" in ast.unparse(n)])
    V.insert_before(tree, st, V.parse_stmts("if cls_type.is_wildcard():\n    type_var_map[t_param] = t_arg\n    continue"))


def _v_ignore_switch(tree):
    f = V.find_def(tree, "_get_type_arg_variance")
    iff = V.one([n for n in f.body if isinstance(n, ast.If) and "use_site_variance" in ast.unparse(n.test)])
    V.remove_stmt(tree, iff)


def _v_contra_ignores_switch(tree):
    f = V.find_def(tree, "_get_type_arg_variance")
    st = V.one([n for n in f.body if isinstance(n, ast.Assign) and ast.unparse(n.targets[0]) == "contravariance"])
    st.value.test = V.parse_expr("can_contravariant")


def _v_in_bound_ignored(tree):
    f = V.find_def(tree, "_get_type_arg_variance")
    iff = V.one([n for n in f.body if isinstance(n, ast.If) and "in_bound" in ast.unparse(n.test)])
    iff.test = V.parse_expr("variance_choices is None")


def _v_shadow_index(tree):
    f = _ctva(tree)
    lp = V.one([n for n in ast.walk(f) if isinstance(n, ast.For) and "enumerate(a_types)" in ast.unparse(n.iter)])
    old_i, old_t = lp.target.elts[0].id, lp.target.elts[1].id
    for n in ast.walk(lp):
        if isinstance(n, ast.Name) and n.id == old_i:
            n.id = "i"
        elif isinstance(n, ast.Name) and n.id == old_t:
            n.id = "t"


def _v_slice_from_i(tree):
    f = _ctva(tree)
    c = V.one([n for n in ast.walk(f) if V.is_call_named(n, "_get_type_arg_variance")])
    c.args[2].slice.lower = V.parse_expr("i + 2")


def _v_primitives_true(tree):
    f = V.find_def(tree, "instantiate_type_constructor")
    c = V.one([n for n in ast.walk(f) if V.is_call_named(n, "_get_available_types")])
    for k in c.keywords:
        if k.arg == "primitives":
            k.value = ast.Constant(value=True)


def _v_keep_abstract(tree):
    f = V.find_def(tree, "_get_available_types")
    iff = V.one([n for n in ast.walk(f) if isinstance(n, ast.If) and "REGULAR" in ast.unparse(n.test)])
    V.remove_stmt(tree, iff)


def _v_unsubstituted_bound(tree):
    f = _ctva(tree)
    st = V.one([n for n in ast.walk(f) if isinstance(n, ast.Assign) and ast.unparse(n.targets[0]) == "bound"
                and "substitute_type" in ast.unparse(n.value)])
    st.value = V.parse_expr("t_param.bound")


def _v_preassignment_ignored(tree):
    f = _ctva(tree)
    st = V.one([n for n in ast.walk(f) if isinstance(n, ast.Assign) and ast.unparse(n) == "a_types = [t]"])
    st.value = V.parse_expr("types")


def _v_wildcard_always(tree):
    f = _ctva(tree)
    iff = V.one([n for n in ast.walk(f) if isinstance(n, ast.If) and "variance.is_invariant()" in ast.unparse(n.test)])
    iff.body[0].value.args[1] = V.parse_expr("tp.Covariant")


def _v_only_regular_false(tree):
    f = V.find_def(tree, "Generator.select_type")
    c = [n for n in ast.walk(f) if V.is_call_named(n, "instantiate_type_constructor")]
    if not c:
        raise V.SkipVariant("no call")
    c[0].keywords.append(ast.keyword(arg="only_regular", value=ast.Constant(value=False)))


def _v_pecs_swapped(tree):
    f = V.find_def(tree, "instantiate_type_constructor")
    d = V.one([n for n in ast.walk(f) if isinstance(n, ast.DictComp) and ast.unparse(n.value) == "(False, True)"])
    d.value = V.parse_expr("(True, False)")


def _v_generator_unboxed_pool(tree):
    f = V.find_def(tree, "Generator._get_matching_class")
    c = [n for n in ast.walk(f) if V.is_call_named(n, "_get_available_types")]
    if not c:
        raise V.SkipVariant("call")
    c[0].args = c[0].args[:2]
    c[0].keywords = [ast.keyword(arg="only_regular", value=ast.Constant(value=True))]


def _v_function_as_constructor(tree):
    f = V.find_def(tree, "instantiate_parameterized_function")
    c = V.one([n for n in ast.walk(f) if V.is_call_named(n, "_compute_type_variable_assignments")])
    c.keywords = [k for k in c.keywords if k.arg not in ("variance_choices", "for_type_constructor")]


def _t_rename(tree):
    f = _ctva(tree)
    V.rename_local(f, "a_types", "candidates")
    V.rename_local(f, "cls_type", "chosen")


def variants():
    t = "src/ir/type_utils.py"
    return [
        V.Variant("continue before the append", t, _v_continue_before_append, {"C08-R1"}),
        V.Variant("_get_type_arg_variance ignores dis.use_site_variance", t, _v_ignore_switch, {"C08-R2"}),
        V.Variant("contravariance ignores dis.use_site_contravariance", t, _v_contra_ignores_switch, {"C08-R2"}),
        V.Variant("in_bound ignored", t, _v_in_bound_ignored, {"C08-R2"}),
        V.Variant("inner loop rebinds the index i (the repaired defect)", t, _v_shadow_index, {"C08-R2b"}),
        V.Variant("slice starts at i + 2", t, _v_slice_from_i, {"C08-R2b"}),
        V.Variant("projection with a fixed covariant variance", t, _v_wildcard_always, {"C08-R3"}),
        V.Variant("primitives=True for type constructors", t, _v_primitives_true, {"C08-R4"}),
        V.Variant("abstract classes stay in the pool", t, _v_keep_abstract, {"C08-R4"}),
        V.Variant("generator passes only_regular=False", "src/generators/generator.py", _v_only_regular_false, {"C08-R4"}),
        V.Variant("bound not substituted before find_subtypes", t, _v_unsubstituted_bound, {"C08-R5"}),
        V.Variant("pre-assignment ignored", t, _v_preassignment_ignored, {"C08-R5", "C08-R6"}),
        V.Variant("PECS table swapped for parameters", t, _v_pecs_swapped, {"C08-R7"}),
        V.Variant("generator's direct caller uses an unboxed pool", "src/generators/generator.py", _v_generator_unboxed_pool, {"C08-R4"}),
        V.Variant("generic functions instantiated with the rules for classes", t, _v_function_as_constructor, {"C08-R4"}),
        V.Variant("twin: rename locals", t, _t_rename, None, twin=True),
        V.Variant("twin: whole tree reformatted by ast.unparse", None, None, None, twin=True),
    ]
