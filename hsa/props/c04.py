"""C04 - type overwriting injects exactly one real type error (frame, provenance, flags)."""
import ast
import re

from ..repo import AnalysisError
from ..report import Ob, RuleSpec
from ..astutil import (flatten_guard, src, flat_guards, calls_in, call_name, kwarg, const_value,
                       iter_own_nodes, ancestors, is_within)
from ..cfg import cfg_of, Prov, resolve_local
from .. import variants as V
from .c03 import frame_obligations, ALLOWED_SELF, r9_inferred_types_are_own

PROPERTY = "C04"
TITLE = "Type overwriting injects exactly one real type error (the fail oracle)"
DECIDES = ("Decided: what the mutation can write into the program (effect summaries over its call-graph closure: exactly "
           "var_type / ret_type / inferred_type of one declaration or one element of one type_args list), that it happens "
           "in the single selected function, that the written value is the result of find_irrelevant_type for the type read "
           "from the very node being overwritten (None -> no write), that the report flags are set on exactly the paths "
           "that wrote, what the message is built from, which nodes are candidates, and the oracle wiring "
           "(reported as expected-to-fail iff is_transformed). Also: the mutation object is run exactly once per injection and its report flags are written by nobody but the mutation itself.")
NOT_DECIDED = ("that the replacement makes every such program ill-typed for the target compiler (language-specific "
               "assignability such as numeric conversions is a matter of values, and the irrelevance of the new type is "
               "C09's value-level part).")

TO = "src.transformations.type_overwriting.TypeOverwriting"
TDA = "src.analysis.type_dependency_analysis"


def _w(f, node=None):
    return "%s:%d" % (f.module.relpath, (node or f.node).lineno)


def _g(node, stop=None):
    return [(src(t), p) for t, p in flat_guards(node, stop)]


def _stores(f):
    """the IR stores of visit_func_decl: [(stmt, attr)]"""
    out = []
    for n in iter_own_nodes(f.node):
        if isinstance(n, ast.Assign) and len(n.targets) == 1:
            t = n.targets[0]
            if isinstance(t, ast.Attribute) and isinstance(t.value, ast.Attribute) and src(t.value).endswith(".decl"):
                out.append((n, t.attr))
            elif isinstance(t, ast.Subscript) and isinstance(t.value, ast.Attribute) and t.value.attr == "type_args":
                out.append((n, "type_args[]"))
    return out


def r1_write_set(repo):
    allowed = {
        "overwrite of a declared type": lambda f, e: f.qualname == TO + ".visit_func_decl" and
        e.attr in ("var_type", "ret_type", "inferred_type") and e.kind == "attr-store" and e.path[-1:] == ("decl",),
        "overwrite of one explicit type argument": lambda f, e: f.qualname == TO + ".visit_func_decl" and
        e.kind == "sub-store" and e.path[-2:] == ("t", "type_args"),
        "FunctionCall.type_parameters bookkeeping": lambda f, e:
        f.qualname.endswith("TypeDependencyAnalysis._handle_parameterized_func_call")
        and e.attr == "type_parameters" and e.root == "fun_call",
    }
    self_ok = {k: v for k, v in ALLOWED_SELF.items() if k not in ("omit_type", "can_infer_type_args setter")}
    obs, stats, seen = frame_obligations(repo, TO, "C04-R1", allowed, self_ok)
    want = {"overwrite of a declared type", "overwrite of one explicit type argument"}
    obs.append(Ob("C04-R1", "expected-writes-present", "src/transformations/type_overwriting.py", want <= seen,
                  "the frame analysis must see the mutation's own writes (found %s; closure %d functions, %s)"
                  % (sorted(seen), stats["closure_functions"], stats["by_category"]), stats))
    f = repo.method(TO, "visit_func_decl", inherited=False)
    st = _stores(f)
    attrs = sorted(a for _n, a in st)
    obs.append(Ob("C04-R1", "exactly-four-store-sites", _w(f), attrs == ["inferred_type", "ret_type", "type_args[]", "var_type"],
                  "stores into the program in visit_func_decl: %s" % attrs))
    by = {a: n for n, a in st}
    ok = False
    if len(by) == 4:
        v, r = by["var_type"], by["ret_type"]
        # by path condition: var_type is written where the declaration is a VariableDeclaration, ret_type where it is not
        def vd(n_):
            return [p_ for t_, p_ in flat_guards(n_) if "isinstance" in src(t_) and "VariableDeclaration" in src(t_)]
        ok = vd(v) == [True] and vd(r) == [False]
    obs.append(Ob("C04-R1", "var_type-xor-ret_type", _w(f), ok,
                  "var_type and ret_type must be the two alternatives of one if/else on the declaration's class"))
    ok = False
    if len(by) == 4:
        gd = _g(by["inferred_type"])
        ga = _g(by["type_args[]"])
        ok = any(pol and s.endswith("tda.DeclarationNode)") for s, pol in gd) and \
            any(pol and s.endswith("tda.TypeConstructorInstantiationCallNode)") for s, pol in ga) and \
            all(any(pol and s.endswith("tda.DeclarationNode)") for s, pol in _g(by[a])) for a in ("var_type", "ret_type"))
    okb = False
    if len(by) == 4:
        gi = _g(by["inferred_type"])
        okb = not any("VariableDeclaration" in s_ for s_, _p in gi)
    obs.append(Ob("C04-R1", "inferred_type-overwritten-for-variables-and-functions", _w(f), okb,
                  "inferred_type must be overwritten together with var_type AND together with ret_type (Java and Groovy print "
                  "declared types from inferred_type): its store may not sit inside the variable/function alternative"))
    obs.append(Ob("C04-R1", "declaration-stores-xor-type-argument-store", _w(f), ok,
                  "declaration stores sit under isinstance(n, DeclarationNode), the type-argument store under "
                  "isinstance(n, TypeConstructorInstantiationCallNode) (disjoint node classes, C03-R6)"))
    return obs


def r2_one_function(repo):
    obs = []
    f = repo.method(TO, "visit_func_decl", inherited=False)
    st = _stores(f)
    for n, a in st:
        gs = _g(n)
        ok = ("self._method_selection", False) in gs and any(
            pol and s in ("namespace == self._namespace", "self._namespace == namespace") for s, pol in gs)
        obs.append(Ob("C04-R2", "store:%s:only-in-the-selected-function" % a, _w(f, n), ok,
                      "the store must be unreachable in the collection pass and in functions other than the selected one; "
                      "guards %s" % gs))
    ns_def = [n for n in iter_own_nodes(f.node) if isinstance(n, ast.Assign) and isinstance(n.targets[0], ast.Tuple)
              and src(n.value) == "self._selected_method"]
    ok = len(ns_def) == 1 and src(ns_def[0].targets[0].elts[0]) == "namespace"
    obs.append(Ob("C04-R2", "namespace-comes-from-the-selected-method", _w(f), ok,
                  "`namespace, candidate_nodes, type_graph = self._selected_method`"))
    cls = repo.cls(TO)
    sel = [(m, n) for m in cls.methods.values() for n in iter_own_nodes(m.node)
           if isinstance(n, ast.Assign) and src(n.targets[0]) == "self._selected_method"]
    non_init = [(m, n) for m, n in sel if m.name != "__init__"]
    ok = len(non_init) == 1 and non_init[0][0].name == "visit_program" and \
        isinstance(non_init[0][1].value, ast.Call) and call_name(non_init[0][1].value) == "choice" and \
        src(non_init[0][1].value.args[0]) == "self._candidate_methods"
    obs.append(Ob("C04-R2", "one-method-selected-by-one-random-choice", _w(cls), ok,
                  "self._selected_method must be assigned once, in visit_program, by random.choice(self._candidate_methods)"))
    vp = cls.methods.get("visit_program")
    flips = [(m, n) for m in cls.methods.values() for n in iter_own_nodes(m.node)
             if isinstance(n, ast.Assign) and src(n.targets[0]) == "self._method_selection" and m.name != "__init__"]
    ok = len(flips) == 1 and flips[0][0] is vp and const_value(flips[0][1].value, 1) is False
    if ok:
        calls = [c for c in calls_in(vp.node) if call_name(c) == "visit_program"]
        ok = len(calls) == 2 and calls[0].lineno < flips[0][1].lineno < calls[1].lineno and \
            non_init and flips[0][1].lineno < non_init[0][1].lineno < calls[1].lineno
    obs.append(Ob("C04-R2", "two-passes:collect-then-mutate", _w(vp or cls), ok,
                  "visit_program: first pass collects, then _method_selection flips to False exactly once, one method is "
                  "chosen, second pass mutates"))
    return obs


def r3_provenance(repo):
    obs = []
    f = repo.method(TO, "visit_func_decl", inherited=False)
    g = cfg_of(f.node)
    st = _stores(f)
    for n, a in st:
        v = n.value
        ok, msg = False, "value is not a local name"
        if isinstance(v, ast.Name):
            defs = g.defs_reaching(v.id, n)
            ok = len(defs) == 1 and isinstance(defs[0][1], ast.Call) and call_name(defs[0][1]) == "find_irrelevant_type"
            msg = "the written value must be the result of tu.find_irrelevant_type(...)"
            if ok:
                call = defs[0][1]
                args = [src(x) for x in call.args]
                ok = args[1:] == ["self.types", "self.bt_factory"]
                none_ret = [r for r in iter_own_nodes(f.node) if isinstance(r, ast.Return) and
                            ("%s is None" % v.id, True) in _g(r)]
                ok = ok and len(none_ret) == 1 and g.dominates(g.node(none_ret[0]._parent), g.node(n))
                # old type read from the node being overwritten
                root = src(n.targets[0]).split(".")[0]
                od = g.defs_reaching(call.args[0].id, call) if isinstance(call.args[0], ast.Name) else []
                exprs = [src(d[1]) for d in od if isinstance(d[1], ast.AST)]
                # the old type may come out of a helper of the same class (`sel = self._select(n, graph)` ...
                # `tp, old = sel`): what the helper returns, with its parameters replaced by the arguments, counts as well
                prov_ = Prov(f.node)
                # through tuple packing / unpacking (`sel = (tp, t)` ... `tp, old = sel`): every source expression counts;
                # `__h` is the suffix the normaliser gives to the locals of an inlined helper
                exprs += [re.sub(r"__h\d*\b", "", src(s_)) for s_ in prov_.sources(call.args[0], at=call)
                          if isinstance(s_, ast.AST)]
                for s_ in list(prov_.sources(call.args[0], at=call)):
                    if not isinstance(s_, ast.Call):
                        continue
                    tg, _how = repo.resolve_call(s_, f)
                    for h_ in [t for t in tg if t.module is f.module and t is not f][:1]:
                        hp = h_.params[1:] if (h_.cls is not None and h_.params[:1] == ["self"]) else h_.params
                        sub = {p_: src(a_) for p_, a_ in zip(hp, s_.args)}
                        for r_ in iter_own_nodes(h_.node):
                            if isinstance(r_, ast.Return) and r_.value is not None:
                                for el in (r_.value.elts if isinstance(r_.value, ast.Tuple) else [r_.value]):
                                    t_ = src(el)
                                    for p_, a_ in sub.items():
                                        t_ = re.sub(r"\b%s\b" % re.escape(p_), a_, t_)
                                    exprs.append(t_)
                if a == "type_args[]":
                    want = [e for e in exprs if e.startswith("%s.t.get_type_variable_assignments()[" % root)]
                    idx = n.targets[0].slice
                    same_param = bool(want) and "type_param.t" in want[0] and "type_param.t" in src(idx)
                    ok = ok and bool(want) and same_param
                else:
                    ok = ok and ("%s.decl.get_type()" % root) in exprs
                msg = ("value = find_irrelevant_type(<type read from the overwritten node>, self.types, self.bt_factory), "
                       "None -> return before any store; old-type definitions: %s" % exprs)
        obs.append(Ob("C04-R3", "store:%s:value-is-irrelevant-to-the-old-type" % a, _w(f, n), ok, msg))
    cls = repo.cls(TO)
    init = cls.methods["__init__"]
    ok = any(isinstance(n, ast.Assign) and src(n.targets[0]) == "self.types" and src(n.value) == "program.get_types()"
             for n in iter_own_nodes(init.node)) and \
        any(isinstance(n, ast.Assign) and src(n.targets[0]) == "self.bt_factory" and src(n.value) == "program.bt_factory"
            for n in iter_own_nodes(init.node))
    obs.append(Ob("C04-R3", "type-pool-is-the-program's", _w(init), ok,
                  "self.types / self.bt_factory must come from the mutated program"))
    return obs


def r4_flags(repo):
    f = repo.method(TO, "visit_func_decl", inherited=False)
    fn = f.node
    g = cfg_of(fn)
    obs = []
    st = _stores(f)
    store_nodes = [g.node(n) for n, _a in st]
    flag_t = [n for n in iter_own_nodes(fn) if isinstance(n, ast.Assign) and src(n.targets[0]) == "self.is_transformed"]
    flag_e = [n for n in iter_own_nodes(fn) if isinstance(n, ast.Assign) and src(n.targets[0]) == "self.error_injected"]
    ok = len(flag_t) == 1 and const_value(flag_t[0].value) is True and len(flag_e) == 1
    obs.append(Ob("C04-R4", "flag-sites", _w(f), ok, "one `self.is_transformed = True` and one `self.error_injected = ...`"))
    if not ok:
        return obs
    ft, fe = g.node(flag_t[0]), g.node(flag_e[0])
    for (n, a), sn in zip(st, store_nodes):
        ok = g.postdominates(ft, sn) and g.postdominates(fe, sn)
        obs.append(Ob("C04-R4", "store:%s:always-followed-by-both-flags" % a, _w(f, n), ok,
                      "every path from this store to the exit must set is_transformed and error_injected"))
    # flags imply a store, modulo the lemma "a candidate is a DeclarationNode or a TypeConstructorInstantiationCallNode"
    tests = [n for n in iter_own_nodes(fn) if isinstance(n, ast.If) and
             src(n.test).endswith("tda.TypeConstructorInstantiationCallNode)") and
             any(is_within(s, n) for s, a in st if a == "type_args[]")]
    ok, msg = False, "isinstance test around the type-argument store not found"
    if len(tests) == 1:
        tnode = g.node(tests[0])
        true_succ = g.node(tests[0].body[0])
        H = g.g.copy()
        for s in list(H.successors(tnode)):
            if s != true_succ:
                H.remove_edge(tnode, s)
        # store-avoiding path entry -> flag in H ?
        avoid = set(store_nodes)
        seen, todo, reach = set(), [g.entry], False
        while todo:
            x = todo.pop()
            if x in seen or x in avoid:
                continue
            seen.add(x)
            if x == ft:
                reach = True
                break
            todo.extend(H.successors(x))
        ok = not reach
        msg = ("no path may reach `self.is_transformed = True` without having performed a store (assuming a candidate node "
               "is a DeclarationNode or a TypeConstructorInstantiationCallNode, which C03-R6 checks)")
    obs.append(Ob("C04-R4", "flags-imply-a-store", _w(f), ok, msg))
    # early returns precede all stores and return the node untouched
    rets = [n for n in iter_own_nodes(fn) if isinstance(n, ast.Return)]
    # "early" = a return that is not the end of the mutating path: one that cannot be reached from a store
    final = [r for r in rets if any(g.path_exists_avoiding(sn, g.node(r), []) for sn in store_nodes)]
    bad = final[1:] if len(final) > 1 else []
    vals = [src(r.value) for r in rets if not (isinstance(r.value, ast.Call))]
    ok = not bad and all(v == f.params[1] for v in vals)
    obs.append(Ob("C04-R4", "early-returns-precede-every-store", _w(f), ok,
                  "an early `return node` after a store would report nothing although the program changed: %s"
                  % [r.lineno for r in bad]))
    # is_transformed is not set anywhere else in the class
    cls = repo.cls(TO)
    others = [(m.name, n.lineno) for m in cls.methods.values() for n in iter_own_nodes(m.node)
              if isinstance(n, ast.Assign) and src(n.targets[0]) in ("self.is_transformed", "self.error_injected")
              and m.name not in ("visit_func_decl", "__init__")]
    obs.append(Ob("C04-R4", "flags-set-nowhere-else", _w(cls), not others, "other assignments of the flags: %s" % others))
    return obs


def r5_message(repo):
    f = repo.method(TO, "visit_func_decl", inherited=False)
    g = cfg_of(f.node)
    fe = [n for n in iter_own_nodes(f.node) if isinstance(n, ast.Assign) and src(n.targets[0]) == "self.error_injected"]
    ok, msg = False, "error_injected assignment not found"
    if len(fe) == 1 and isinstance(fe[0].value, ast.Call) and call_name(fe[0].value) == "format":
        args = fe[0].value.args
        st = _stores(f)
        newname = src(st[0][0].value) if st else None
        a0 = args[0].args[0] if isinstance(args[0], ast.Call) and args[0].args else args[0]
        # the "old type" of the message is the very value the irrelevant type was searched for
        fi = [c for c in calls_in(f.node) if call_name(c) == "find_irrelevant_type"]
        prov = Prov(f.node)
        leaves = lambda e: sorted({src(l) for l in prov.sources(e) if isinstance(l, ast.AST)})
        old_ok = len(fi) == 1 and bool(fi[0].args) and leaves(a0) == leaves(fi[0].args[0]) and bool(leaves(a0))
        ok = len(args) == 3 and old_ok and newname in src(args[1]) and src(args[2]).endswith(".node_id") and \
            src(args[2]).split(".")[0] == src(st[0][0].targets[0]).split(".")[0]
        msg = ("message arguments must be (old type, new type, id of the mutated node); found %s" % [src(a) for a in args])
    return [Ob("C04-R5", "message-names-old-new-node", _w(f), ok, msg)]


def r6_candidates(repo):
    f = repo.method(TO, "_add_candidate_method", inherited=False)
    comps = [n for n in iter_own_nodes(f.node) if isinstance(n, ast.ListComp)]
    ok, msg = False, "candidate comprehension not found"
    if len(comps) == 1:
        c = comps[0]
        v = src(c.generators[0].target)
        # the conjuncts of the filter, whatever their grouping / order (a guard-clause loop folds into separate tests)
        conj = set()
        for i_ in c.generators[0].ifs:
            for t_, p_ in flatten_guard(i_, True):
                conj.add(("" if p_ else "not ") + " ".join(src(t_).split()))
        cond = " and ".join(sorted(conj))
        want = {"%s.is_omittable()" % v, "not isinstance(%s, tda.DeclarationNode) and %s.decl.name == tda.RET" % (v, v)}
        ok = conj == want and src(c.generators[0].iter) in ("type_graph.keys()", "type_graph") and src(c.elt) == v
        msg = "candidates = omittable graph nodes minus the virtual return declaration; condition `%s`" % cond
    obs = [Ob("C04-R6", "candidate-nodes", _w(f), ok, msg)]
    vf = repo.method(TO, "visit_func_decl", inherited=False)
    tps = [n for n in iter_own_nodes(vf.node) if isinstance(n, ast.Assign) and src(n.targets[0]) == "type_params"
           and isinstance(n.value, ast.ListComp)]
    ok2, msg2 = len(tps) == 1, "choice of the type parameter to overwrite not found"
    if ok2:
        lc = tps[0].value
        v = src(lc.generators[0].target)
        conds = [" ".join(src(i).split()) for i in lc.generators[0].ifs]
        ok2 = conds == ["any((e.is_inferred() for e in type_graph[%s.target]))" % v] and src(lc.elt) == "%s.target" % v and \
            src(lc.generators[0].iter).startswith("type_graph[")
        msg2 = ("only a type parameter that the compiler can also infer from somewhere else (an inferred edge into its node) "
                "may have its explicit argument overwritten - otherwise the program stays well-typed: condition %s" % conds)
    obs.append(Ob("C04-R6", "overwritten-type-argument-is-also-inferable", _w(vf), ok2, msg2))
    app = [c for c in calls_in(f.node) if call_name(c) == "append" and src(c.func.value) == "self._candidate_methods"]
    ok = len(app) == 1 and isinstance(app[0].args[0], ast.Tuple) and \
        src(app[0].args[0].elts[0]) == "self._namespace" and ("candidate_nodes", False) not in _g(app[0]) and \
        any(not pol and s == "not candidate_nodes" or (s == "candidate_nodes" and pol) for s, pol in _g(app[0]) + [("candidate_nodes", True)])
    obs.append(Ob("C04-R6", "method-recorded-with-its-namespace", _w(f), ok,
                  "(self._namespace, candidate_nodes, type_graph) is recorded per method"))
    return obs


def r7_oracle_wiring(repo):
    obs = []
    # the report flag belongs to the mutation: it is written by the transformation classes on themselves and by nobody
    # else (a driver that clears it after the program has been mutated in place reports "nothing injected" for a
    # program that carries the fault)
    base = repo.cls("src.transformations.base.Transformation")
    foreign = []
    n_own = 0
    for qual, fn_ in sorted(repo.functions.items()):
        for n_ in iter_own_nodes(fn_.node):
            if isinstance(n_, (ast.Assign, ast.AugAssign)):
                for t_ in (n_.targets if isinstance(n_, ast.Assign) else [n_.target]):
                    if isinstance(t_, ast.Attribute) and t_.attr in ("is_transformed", "error_injected"):
                        own = src(t_.value) == "self" and fn_.cls is not None and base in fn_.cls.mro()
                        n_own += 1 if own else 0
                        if not own:
                            foreign.append("%s:%d `%s`" % (fn_.module.relpath, n_.lineno, src(n_)[:50]))
    obs.append(Ob("C04-R7", "report-flags-written-only-by-the-mutation-itself", "src/", not foreign and n_own >= 2,
                  "stores to is_transformed / error_injected outside the transformation classes: %s (own stores: %d)"
                  % (foreign, n_own)))
    f = repo.method("src.modules.processor.ProgramProcessor", "inject_fault", inherited=False)
    rets = [n for n in iter_own_nodes(f.node) if isinstance(n, ast.Return)]
    none_r = [r for r in rets if const_value(r.value, 1) is None]
    pos_r = [r for r in rets if isinstance(r.value, ast.Tuple)]
    ok = len(none_r) == 1 and len(pos_r) == 1 and ("transformer.is_transformed", False) in _g(none_r[0]) and \
        src(pos_r[0].value.elts[1]) == "transformer.error_injected"
    obs.append(Ob("C04-R7", "inject_fault:None-unless-is_transformed", _w(f), ok,
                  "inject_fault must return None when nothing was injected and (program, error_injected) otherwise"))
    # exactly one injection: the mutation object is run once (a second transform() on the same object starts from the
    # state of the first: candidates collected, a method already selected - two declarations may change, one is reported)
    runs = [c for c in calls_in(f.node) if call_name(c) in ("_apply_transformation", "transform")]
    loops = [c for c in runs if any(isinstance(a, (ast.For, ast.While)) for a in ancestors(c))]
    obs.append(Ob("C04-R7", "inject_fault:the-mutation-runs-exactly-once", _w(f), len(runs) == 1 and not loops,
                  "inject_fault applies the transformation through %s; expected exactly one application outside any loop"
                  % [src(c)[:50] for c in runs]))
    f = repo.fn("hephaestus.process_ncp_transformations")
    call = [n for n in iter_own_nodes(f.node) if isinstance(n, ast.Assign) and isinstance(n.value, ast.Call) and
            call_name(n.value) == "inject_fault"]
    ok = len(call) == 1
    if ok:
        nm = src(call[0].targets[0])
        r = [x for x in iter_own_nodes(f.node) if isinstance(x, ast.Return) and ("%s is None" % nm, True) in _g(x)]
        ok = len(r) == 1 and const_value(r[0].value, 1) is None and \
            all(x.lineno > r[0].lineno for x in calls_in(f.node) if call_name(x) == "save_program")
    obs.append(Ob("C04-R7", "process_ncp_transformations:nothing-saved-or-reported-without-injection", _w(f), ok,
                  "when inject_fault returns None the function must return None before writing any file"))
    for q, want in (("src.transformations.type_overwriting.TypeOverwriting", False),
                    ("src.transformations.type_erasure.TypeErasure", True)):
        c = repo.cls(q)
        v = c.constants.get("CORRECTNESS_PRESERVING")
        obs.append(Ob("C04-R7", c.name + ".CORRECTNESS_PRESERVING", _w(c), v is not None and const_value(v) is want,
                      "%s.CORRECTNESS_PRESERVING must be %s" % (c.name, want)))
    return obs


def same_tree_rule(repo, rid, classes):
    """The dependency analysis hands out candidate nodes that *are* nodes of the program it was built from, and the
    mutators write into those nodes.  The change is in the returned program only if the tree the transformation visits
    (and returns) and the tree the analysis is built from are one object: `self.visit(self.program)` in
    Transformation.transform, `TypeDependencyAnalysis(self.program, ...)` in the mutators - no copy in between."""
    obs = []
    f = repo.method("src.transformations.base.Transformation", "transform", inherited=False)
    me = f.params[0]
    visits = [k for k in calls_in(f.node) if call_name(k) == "visit" and src(k.func) == me + ".visit"]
    args = [src(resolve_local(f.node, k.args[0])) if k.args else "-" for k in visits]
    ok = len(visits) == 1 and args == [me + ".program"] and not visits[0].keywords
    obs.append(Ob(rid, "Transformation.transform:visits-the-program-it-holds", _w(f), ok,
                  "transform must visit `%s.program` itself (the object the analyses are built from); visits %s"
                  % (me, args)))
    n = 0
    for q in classes:
        c = repo.cls(q)
        for m in sorted(c.methods.values(), key=lambda m: m.qualname):
            for k in calls_in(m.node):
                if call_name(k) != "TypeDependencyAnalysis":
                    continue
                n += 1
                a = k.args[0] if k.args else kwarg(k, "program", 0)
                got = src(resolve_local(m.node, a)) if a is not None else "-"
                obs.append(Ob(rid, "%s:analysis#%d-built-from-the-visited-program" % (m.qualname, n), _w(m, k),
                              got == m.params[0] + ".program",
                              "the analysis must be built from `%s.program`; found `%s`" % (m.params[0], got)))
    obs.append(Ob(rid, "analysis-construction-sites>=2", "src/transformations/", n >= 2, "%d sites" % n))
    return obs


def r9_same_tree(repo):
    return same_tree_rule(repo, "C04-R9", ["src.transformations.type_overwriting.TypeOverwriting"])


def r10_class_table(repo):
    from .c09 import class_table_rule
    return class_table_rule(repo, "C04-R10")


def rules():
    return [
        RuleSpec("C04-R1", "write set of the overwriting mutation's call-graph closure", 10, r1_write_set),
        RuleSpec("C04-R2", "mutation only in the one selected function", 7, r2_one_function),
        RuleSpec("C04-R3", "provenance of the written type", 5, r3_provenance),
        RuleSpec("C04-R4", "report flags agree with the write (all paths)", 8, r4_flags),
        RuleSpec("C04-R5", "message arguments", 1, r5_message),
        RuleSpec("C04-R6", "candidate nodes", 3, r6_candidates),
        RuleSpec("C04-R7", "oracle wiring", 4, r7_oracle_wiring),
        RuleSpec("C04-R8", "inferred type nodes of the dependency analysis carry the expression's own type", 12,
                 lambda repo: r9_inferred_types_are_own(repo, rule="C04-R8")),
        RuleSpec("C04-R9", "the visited tree is the analysed tree", 4, r9_same_tree),
        RuleSpec("C04-R10", "the class table handed to find_irrelevant_type: declarations, invariant built-in instantiations", 2,
                 r10_class_table),
    ]


# -- variants --------------------------------------------------------------------------

def _vf(tree):
    return V.find_def(tree, "TypeOverwriting.visit_func_decl")


def _v_second_node(tree):
    f = _vf(tree)
    st = V.one([n for n in ast.walk(f) if isinstance(n, ast.Assign) and ast.unparse(n.targets[0]) == "n.decl.inferred_type"])
    V.insert_after(tree, st, V.parse_stmts("if n.decl.expr is not None and hasattr(n.decl.expr, 'class_type'):\n    n.decl.expr.class_type = ir_type"))


def _v_from_pool(tree):
    f = _vf(tree)
    st = V.one([n for n in ast.walk(f) if isinstance(n, ast.Assign) and ast.unparse(n.targets[0]) == "ir_type"])
    st.value = V.parse_expr("self.types[0]")


def _v_flag_early(tree):
    f = _vf(tree)
    iff = V.one([n for n in ast.walk(f) if isinstance(n, ast.If) and ast.unparse(n.test) == "ir_type is None"])
    iff.body.insert(0, V.parse_stmts("self.is_transformed = True")[0])


def _v_unflagged_path(tree):
    f = _vf(tree)
    st = V.one([n for n in f.body if isinstance(n, ast.Assign) and ast.unparse(n.targets[0]) == "self.is_transformed"])
    new = ast.If(test=V.parse_expr("isinstance(n, tda.DeclarationNode)"), body=[st], orelse=[])
    V.replace_node(tree, st, new)


def _v_every_function(tree):
    f = _vf(tree)
    iff = V.one([n for n in f.body if isinstance(n, ast.If) and ast.unparse(n.test) == "namespace != self._namespace"])
    f.body.remove(iff)


def _v_wrong_old_type(tree):
    f = _vf(tree)
    c = V.one([n for n in ast.walk(f) if V.is_call_named(n, "find_irrelevant_type")])
    c.args[0] = V.parse_expr("self.types[0]")


def _v_wrong_index(tree):
    f = _vf(tree)
    st = V.one([n for n in ast.walk(f) if isinstance(n, ast.Assign) and isinstance(n.targets[0], ast.Subscript)
                and "type_args" in ast.unparse(n.targets[0])])
    st.targets[0].slice = ast.Constant(value=0)


def _v_message(tree):
    f = _vf(tree)
    st = V.one([n for n in ast.walk(f) if isinstance(n, ast.Assign) and ast.unparse(n.targets[0]) == "self.error_injected"])
    st.value.args[0] = V.parse_expr("str(ir_type)")


def _v_ret_candidate(tree):
    f = V.find_def(tree, "TypeOverwriting._add_candidate_method")
    c = V.one([n for n in ast.walk(f) if isinstance(n, ast.ListComp)])
    c.generators[0].ifs = [V.parse_expr("n.is_omittable()")]


def _v_inject_always(tree):
    f = V.find_def(tree, "ProgramProcessor.inject_fault")
    iff = V.one([n for n in f.body if isinstance(n, ast.If)])
    f.body.remove(iff)


def _v_helper_mutates_types(tree):
    f = V.find_def(tree, "find_irrelevant_type")
    r = f.body[-1]
    V.insert_before(tree, r, V.parse_stmts("if isinstance(etype, tp.ParameterizedType):\n    etype.type_args[0] = t"))


def _v_inferred_only_for_vars(tree):
    f = _vf(tree)
    st = V.one([n for n in ast.walk(f) if isinstance(n, ast.Assign) and ast.unparse(n.targets[0]) == "n.decl.inferred_type"])
    iff = V.one([n for n in ast.walk(f) if isinstance(n, ast.If) and "VariableDeclaration" in ast.unparse(n.test)])
    V.remove_stmt(tree, st)
    iff.body.append(st)


def _v_any_type_param(tree):
    f = _vf(tree)
    st = V.one([n for n in ast.walk(f) if isinstance(n, ast.Assign) and ast.unparse(n.targets[0]) == "type_params"])
    st.value.generators[0].ifs = []


def _t_rename(tree):
    f = _vf(tree)
    V.rename_local(f, "ir_type", "replacement")
    V.rename_local(f, "indexes", "positions")


def variants():
    to = "src/transformations/type_overwriting.py"
    return [
        V.Variant("a second node is retyped", to, _v_second_node, {"C04-R1"}),
        V.Variant("find_irrelevant_type mutates its argument", "src/ir/type_utils.py", _v_helper_mutates_types, {"C04-R1"}),
        V.Variant("replacement taken from self.types[0]", to, _v_from_pool, {"C04-R3"}),
        V.Variant("irrelevance computed for another type", to, _v_wrong_old_type, {"C04-R3"}),
        V.Variant("wrong type-argument position overwritten", to, _v_wrong_index, {"C04-R3"}),
        V.Variant("is_transformed set before an early return", to, _v_flag_early, {"C04-R4"}),
        V.Variant("type-argument overwrite not flagged", to, _v_unflagged_path, {"C04-R4"}),
        V.Variant("every function is mutated", to, _v_every_function, {"C04-R2"}),
        V.Variant("message names the new type twice", to, _v_message, {"C04-R5"}),
        V.Variant("virtual return declaration is a candidate", to, _v_ret_candidate, {"C04-R6"}),
        V.Variant("inject_fault reports even when nothing was injected", "src/modules/processor.py", _v_inject_always, {"C04-R7"}),
        V.Variant("inferred_type overwritten only for variables", to, _v_inferred_only_for_vars, {"C04-R1"}),
        V.Variant("any type parameter may be overwritten (also ones nothing else constrains)", to, _v_any_type_param, {"C04-R6"}),
        V.Variant("twin: rename locals", to, _t_rename, None, twin=True),
        V.Variant("twin: whole tree reformatted by ast.unparse", None, None, None, twin=True),
    ]
