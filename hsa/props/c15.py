"""C15 - the driver reports a fault exactly on an oracle mismatch and counts correctly."""
import ast

from ..repo import AnalysisError
from ..report import Ob, RuleSpec
from ..astutil import (src, guards, flat_guards, calls_in, call_name, kwarg, const_value,
                       iter_own_nodes, ancestors, is_within, always_leaves)
from ..cfg import cfg_of, Prov, resolve_local
from ..paths import conj, rows, row_str
from .. import variants as V

PROPERTY = "C15"
TITLE = "The driver reports a fault exactly on an oracle mismatch and counts correctly"
DECIDES = ("Decided: the decision table of check_oracle extracted from its control flow and compared with "
           "the specification F or C or (O and E) or (not O and not E) on all 16 rows; the message stored on each "
           "reporting path; copytree/rmtree pairing per pid (saved exactly for compiler-related faults, removed for "
           "the others, at most one creation of a destination per pid); counter arithmetic of update_stats / "
           "save_stats / _run; the oracle map built by gen_program. Also: the compiler's output is analysed on every call (verdicts are never assumed from the exit status).")
NOT_DECIDED = "file-system outcomes under I/O failures; worker-pool scheduling; what the compilers print."

H = "hephaestus"


def _w(f, node=None):
    return "%s:%d" % (f.module.relpath, (node or f.node).lineno)


def _loop_binding(name, node):
    """Innermost enclosing For statement that binds `name`."""
    for a in ancestors(node):
        if isinstance(a, ast.For) and name in {n.id for n in ast.walk(a.target)
                                               if isinstance(n, ast.Name)}:
            return a
    return None


class Oracle:
    """Facts extracted from check_oracle."""

    def __init__(self, repo):
        self.f = repo.fn(H + ".check_oracle")
        fn = self.f.node
        self.stores = []  # ast.Assign  output[pid] = ...
        for n in iter_own_nodes(fn):
            if isinstance(n, ast.Assign) and len(n.targets) == 1 and \
                    isinstance(n.targets[0], ast.Subscript) and \
                    isinstance(n.targets[0].value, ast.Name) and n.targets[0].value.id == "output":
                self.stores.append(n)
        if not self.stores:
            raise AnalysisError("no `output[pid] = ...` stores in check_oracle", rule="C15-R1",
                                anchor=self.f.qualname)
        # names: failed map from analyze_compiler_output
        self.failed_name = None
        for n in iter_own_nodes(fn):
            if isinstance(n, ast.Assign) and isinstance(n.value, ast.Call) and \
                    call_name(n.value) == "analyze_compiler_output":
                t = n.targets[0]
                if isinstance(t, ast.Tuple) and isinstance(t.elts[0], ast.Name):
                    self.failed_name = t.elts[0].id
                elif isinstance(t, ast.Name):
                    self.failed_name = t.id
        if self.failed_name is None:
            raise AnalysisError("analyze_compiler_output result not bound", rule="C15-R1",
                                anchor=self.f.qualname)
        self.free = []

    def atom_of(self, at):
        fname = self.failed_name

        def f(leaf):
            s = src(leaf)
            if s == "compiler.crash_msg":
                return ("C", True)
            if isinstance(leaf, ast.Attribute) and leaf.attr == "failed" and \
                    isinstance(leaf.value, ast.Name):
                lp = _loop_binding(leaf.value.id, leaf)
                if lp is not None and src(lp.iter) == "oracles.items()":
                    return ("F", True)
                return None
            if isinstance(leaf, ast.Name):
                lp = _loop_binding(leaf.id, leaf)
                if lp is not None and src(lp.iter).endswith(".stats['programs'].items()") and \
                        isinstance(lp.target, ast.Tuple) and len(lp.target.elts) == 2 and \
                        src(lp.target.elts[1]) == leaf.id:
                    return ("O", True)
                return None
            if isinstance(leaf, ast.Compare) and len(leaf.ops) == 1 and \
                    src(leaf.comparators[0]) == fname and isinstance(leaf.left, ast.Name):
                lp = _loop_binding(leaf.left.id, leaf)
                if lp is not None and src(lp.iter).endswith(".stats['programs'].items()") and \
                        src(lp.target.elts[0]) == leaf.left.id:
                    if isinstance(leaf.ops[0], ast.In):
                        return ("E", True)
                    if isinstance(leaf.ops[0], ast.NotIn):
                        return ("E", False)
            return None
        return f

    def cond(self, node):
        base = self.atom_of(node)

        def total(leaf):
            a = base(leaf)
            if a is not None:
                return a
            # a test that is none of C/F/O/E: a free atom - the decision table must hold whatever its value
            name = "X:" + " ".join(src(leaf).split())[:60]
            if name not in self.free:
                self.free.append(name)
            return (name, True)
        return conj(guards(node), total)

    def gtext(self, node):
        return [("" if p else "not ") + src(t) for t, p in flat_guards(node)]


ATOMS = ["C", "F", "O", "E"]


def spec(env):
    return env["F"] or env["C"] or (env["O"] and env["E"]) or (not env["O"] and not env["E"])


def r1_table(repo):
    o = Oracle(repo)
    obs = []
    conds = []
    for st in o.stores:
        try:
            c = o.cond(st)
        except AnalysisError as e:
            raise AnalysisError(str(e), rule="C15-R1", anchor=o.f.qualname)
        conds.append(c)
        # each store is keyed by pid and stores the program's stats
        key_ok = src(st.targets[0].slice) == "pid" and src(st.value).endswith(".stats")
        obs.append(Ob("C15-R1", "site:" + " & ".join(o.gtext(st)), _w(o.f, st), key_ok,
                      "report store `%s` must be output[pid] = <proc_res>.stats" % src(st),
                      {"guards": o.gtext(st)}))
    # the per-file judgement is made for EVERY file of EVERY program: the two loops are not left early
    loops = [n for n in iter_own_nodes(o.f.node) if isinstance(n, ast.For)]
    inner = [l for l in loops if src(l.iter).endswith(".stats['programs'].items()")]
    outer = [l for l in loops if src(l.iter) == "oracles.items()" and inner and is_within(inner[0], l)]
    okl, why = len(inner) == 1 and len(outer) == 1, "loops over oracles.items() / stats['programs'].items() not found"
    if okl:
        esc = [n for n in ast.walk(inner[0]) if isinstance(n, (ast.Break, ast.Continue, ast.Return))]
        esc_o = [n for n in ast.walk(outer[0]) if isinstance(n, (ast.Break, ast.Return)) and not is_within(n, inner[0])]
        okl = not esc and not esc_o
        why = "early exits inside the per-file loop: %s; break/return in the per-program loop: %s" % (
            [(type(n).__name__, n.lineno) for n in esc], [(type(n).__name__, n.lineno) for n in esc_o])
    obs.append(Ob("C15-R1", "loops:every-file-of-every-program-is-judged", _w(o.f), okl,
                  "a break / continue / return inside the loop over a program's files skips the verdict (and the "
                  "message) of the remaining files: " + why))
    # also every early `return` of the function restricts what is reported: a store is effective only if no
    # earlier return was taken; early returns are part of each store's guards (negated leaving-ifs), so they are
    # already in `conds`.  Free atoms (tests other than C/F/O/E) are quantified universally.
    if len(o.free) > 4:
        raise AnalysisError("too many unknown tests around the report sites: %s" % o.free, rule="C15-R1", anchor=o.f.qualname)
    for env in rows(ATOMS):
        verdicts = set()
        for fenv in rows(o.free):
            e2 = dict(env)
            e2.update(fenv)
            verdicts.add(any(c(e2) for c in conds))
        want = spec(env)
        got = want if verdicts == {want} else (not want)
        obs.append(Ob("C15-R1", "row:" + row_str(env), _w(o.f), got == want,
                      "decision table row [%s]: check_oracle %s the program, specification "
                      "F or C or (O and E) or (not O and not E) says %s" % (
                          row_str(env), "reports" if got else "does not report",
                          "report" if want else "do not report") +
                      (" (for some value of the additional tests %s)" % o.free if o.free else ""),
                      {"reported": got, "expected": want, "free_tests": list(o.free)}))
    return obs


def _error_stores(o):
    out = []
    for n in iter_own_nodes(o.f.node):
        if isinstance(n, ast.Assign) and len(n.targets) == 1 and \
                src(n.targets[0]).endswith(".stats['error']"):
            out.append(n)
    return out


def _region(o, st):
    """classify a statement by its path condition: the set of C/F/O/E rows on which it may execute
    (for some value of the free tests)."""
    c = o.cond(st)
    out = set()
    for env in rows(ATOMS):
        for fenv in rows(o.free):
            e2 = dict(env)
            e2.update(fenv)
            if c(e2):
                out.add(tuple(env.values()))
    return frozenset(out)


def _region_all(o, st):
    """rows on which the statement executes whatever the value of the free tests (tests other than C/F/O/E)"""
    c = o.cond(st)
    out = set()
    for env in rows(ATOMS):
        if all(c(dict(env, **fenv)) for fenv in rows(o.free)):
            out.add(tuple(env.values()))
    return frozenset(out)


def r2_message(repo):
    o = Oracle(repo)
    obs = []
    errs = _error_stores(o)
    regions = {
        # a program the tool itself failed on keeps its own error message, also when the compiler crashed on the batch
        "crash": lambda e: e["C"] and not e["F"],
        "expected-pass-rejected": lambda e: (not e["C"]) and (not e["F"]) and e["O"] and e["E"],
        "expected-fail-accepted": lambda e: (not e["C"]) and (not e["F"]) and (not e["O"]) and (not e["E"]),
    }
    for name, pred in regions.items():
        want_rows = frozenset(tuple(env.values()) for env in rows(ATOMS) if pred(env))
        cands = []
        for st in errs:
            r = _region(o, st)
            if r and r <= want_rows:
                cands.append(st)
        ok = len(cands) == 1
        msg = "expected exactly one store to stats['error'] on the %s path, found %d" % (name, len(cands))
        if ok:
            v = cands[0].value
            if name == "crash":
                ok = src(v) == "compiler.crash_msg"
                msg = "crash path must store compiler.crash_msg, stores %s" % src(v)
            elif name == "expected-pass-rejected":
                ok = isinstance(v, ast.Call) and call_name(v) == "join" and \
                    src(v.args[0]).startswith(o.failed_name + "[")
                msg = "rejected-valid path must store the joined compiler messages of that file, stores %s" % src(v)
            else:
                ok = isinstance(v, ast.BinOp) and isinstance(v.op, ast.Add) and \
                    isinstance(v.left, ast.Constant) and isinstance(v.left.value, str) and \
                    v.left.value.startswith("SHOULD NOT BE COMPILED") and \
                    src(v.right) == src(cands[0].targets[0])
                msg = ("accepted-ill-typed path must store 'SHOULD NOT BE COMPILED: ' + <previous error>, "
                       "stores %s" % src(v))
            # and an output store exists under the same condition, after it
            if ok:
                reg = _region(o, cands[0])
                outs = [s for s in o.stores if reg <= _region(o, s)]
                ok = bool(outs)
                msg += "; no report store under the same condition" if not ok else ""
        obs.append(Ob("C15-R2", "message:" + name, _w(o.f, cands[0] if cands else None), ok, msg))
    return obs


def _is_join_of(expr, parts):
    """expr == os.path.join(<parts...>) textually"""
    return isinstance(expr, ast.Call) and src(expr.func) == "os.path.join" and \
        [src(a) for a in expr.args] == parts


def _copytrees(o):
    return [c for c in calls_in(o.f.node) if call_name(c) == "copytree"]


def r3_save(repo):
    o = Oracle(repo)
    obs = []
    cts = _copytrees(o)
    # the three compiler-related reporting sites
    for st in o.stores:
        reg = _region(o, st)
        c_related = any(not dict(zip(ATOMS, r))["F"] for r in reg)
        if not c_related:
            continue
        cr = frozenset(r for r in reg if not dict(zip(ATOMS, r))["F"])
        near = [c for c in cts if cr <= _region(o, c)]
        ok = len(near) >= 1
        msg = "compiler-related report at line %d has no copytree on all of its compiler-related rows" % st.lineno
        if ok:
            c = near[0]
            ok = len(c.args) >= 2 and \
                _is_join_of(c.args[0], ["cli_args.test_directory", "'tmp'", "str(pid)"]) and \
                _is_join_of(c.args[1], ["cli_args.test_directory", "str(pid)"])
            msg = "copytree must copy <test_dir>/tmp/<pid> to <test_dir>/<pid>; found %s" % src(c)
        obs.append(Ob("C15-R3", "saved:" + " & ".join(o.gtext(st)), _w(o.f, st), ok, msg))
    # no copytree for tool failures
    for c in cts:
        reg = _region(o, c)
        bad = [r for r in reg if dict(zip(ATOMS, r))["F"]]
        obs.append(Ob("C15-R3", "copytree-only-for-compiler-faults:" + " & ".join(o.gtext(c)),
                      _w(o.f, c), not bad,
                      "copytree executes for a program the tool itself failed on (no tmp/<pid> directory is guaranteed)"))
    # typestate: destination created at most once per pid
    for c in cts:
        pid_loop = _loop_binding("pid", c)
        inner = [a for a in ancestors(c) if isinstance(a, (ast.For, ast.While))]
        innermost = inner[0] if inner else None
        tolerant = const_value(kwarg(c, "dirs_exist_ok")) is True
        exists_guard = any((not pol) and "os.path.exists" in src(t) for t, pol in flat_guards(c))
        repeated = innermost is not None and innermost is not pid_loop
        leaves_after = False
        if repeated:
            # ok if the loop is left right after the copy (break/return/sys.exit on every path)
            stmt = c
            while not isinstance(stmt, ast.stmt):
                stmt = stmt._parent
            blk = stmt._parent.body if stmt in getattr(stmt._parent, "body", []) else \
                getattr(stmt._parent, "orelse", [])
            leaves_after = always_leaves(blk)
        ok = (not repeated) or tolerant or exists_guard or leaves_after
        obs.append(Ob("C15-R3", "copytree-once-per-pid:" + " & ".join(o.gtext(c)), _w(o.f, c), ok,
                      "copytree to <test_dir>/<pid> sits in a loop that does not bind `pid` (the loop over the "
                      "programs of one pid): it can run twice for one pid (correct program rejected AND incorrect "
                      "one accepted) and shutil.copytree raises FileExistsError on an existing destination; "
                      "needs dirs_exist_ok=True, an existence guard, or leaving the loop",
                      {"repeated_in_inner_loop": repeated, "dirs_exist_ok": tolerant,
                       "exists_guard": exists_guard}))
    # pairwise exclusivity of sites inside the pid loop directly
    direct = [c for c in cts if [a for a in ancestors(c) if isinstance(a, (ast.For, ast.While))][:1] ==
              [_loop_binding("pid", c)]]
    for i, a in enumerate(direct):
        for b in direct[i + 1:]:
            ra, rb = _region(o, a), _region(o, b)
            tol = all(const_value(kwarg(x, "dirs_exist_ok")) is True for x in (a, b))
            obs.append(Ob("C15-R3", "copytree-sites-exclusive:%d/%d" % (a.lineno, b.lineno), _w(o.f, a),
                          not (ra & rb) or tol, "two copytree sites for the same pid can both execute"))
    return obs


def r4_cleanup(repo):
    o = Oracle(repo)
    obs = []
    g = cfg_of(o.f.node)
    rms = [c for c in calls_in(o.f.node) if call_name(c) == "rmtree"]
    tmp_rm = [c for c in rms if c.args and
              _is_join_of(c.args[0], ["cli_args.test_directory", "'tmp'", "str(pid)"])]
    ok = len(tmp_rm) == 1
    msg = "expected one rmtree(<test_dir>/tmp/<pid>) in check_oracle, found %d" % len(tmp_rm)
    if ok:
        c = tmp_rm[0]
        try:
            reg = _region(o, c)
        except AnalysisError:
            reg = None   # guarded by something that is not one of C/F/O/E: it is not unconditional
        want = frozenset(tuple(e.values()) for e in rows(ATOMS) if not e["C"] and not e["F"])
        pid_loop = _loop_binding("pid", c)
        inner = [a for a in ancestors(c) if isinstance(a, (ast.For, ast.While))]
        stmt = c
        while not isinstance(stmt, ast.stmt):
            stmt = stmt._parent
        in_body = pid_loop is not None and stmt in pid_loop.body
        # must come after every copytree of the non-crash path in the loop body
        later = all(ct.lineno < c.lineno for ct in _copytrees(o)
                    if pid_loop is not None and is_within(ct, pid_loop))
        # once per pid: the innermost loop around it is the loop over the pids (an `else:` branch of that loop's body is
        # still that loop); when: exactly on the rows of `want` (the region); after the copies: line order
        try:
            reg_all = _region_all(o, c)
        except AnalysisError:
            reg_all = None
        ok = reg == want and reg_all == want and inner[:1] == [pid_loop] and pid_loop is not None and later
        msg = ("rmtree(<test_dir>/tmp/<pid>) must run once per pid, unconditionally for every pid the tool did not "
               "fail on (no crash), after the test case was saved: guards=%s directly-in-pid-loop=%s after-copies=%s"
               % (o.gtext(c), in_body, later))
    obs.append(Ob("C15-R4", "check_oracle:tmp-pid-removed", _w(o.f), ok, msg))
    dir_rm = [g.node(c) for c in rms if c.args and src(c.args[0]) == "dirname"]
    ok = bool(dir_rm) and not g.path_exists_avoiding(g.entry, g.exit, dir_rm)
    # tolerate sys.exit paths: they do not reach exit in our CFG anyway
    obs.append(Ob("C15-R4", "check_oracle:batch-directory-removed-on-every-path", _w(o.f), ok,
                  "every path through check_oracle must rmtree(dirname); rmtree(dirname) sites at lines %s"
                  % [g.stmt(n).lineno for n in dir_rm]))
    for name in ("run", "run_parallel"):
        f = repo.fn(H + "." + name)
        g = cfg_of(f.node)
        rm = [c for c in calls_in(f.node) if call_name(c) == "rmtree"]
        ok = False
        msg = "no rmtree of <test_dir>/tmp at the end of %s" % name
        for c in rm:
            prov = Prov(f.node)
            srcs = [src(s) for s in prov.sources(c.args[0]) if isinstance(s, ast.AST)]
            is_tmp = any(s == "os.path.join(cli_args.test_directory, 'tmp')" for s in srcs)
            gs = [(src(t), p) for t, p in flat_guards(c)]
            only_exists = all(p and s.startswith("os.path.exists(") for s, p in gs)
            stmt = c
            while not isinstance(stmt, ast.stmt):
                stmt = stmt._parent
            top = stmt
            while top._parent is not f.node:
                top = top._parent
            pd = g.postdominates(g.node(top), g.entry)
            no_try = not any(isinstance(a, ast.Try) for a in ancestors(c) if is_within(a, f.node) and a is not f.node)
            if is_tmp and only_exists and pd and no_try:
                ok = True
                msg = "rmtree(<test_dir>/tmp) guarded only by existence, post-dominates the entry of %s" % name
        obs.append(Ob("C15-R4", "%s:tmp-removed-at-end" % name, _w(f), ok, msg))
    return obs


def r5_counters(repo):
    obs = []
    f = repo.fn(H + ".update_stats")
    fn = f.node
    prov = Prov(fn, passthrough={"len"})
    p = f.params
    if len(p) < 2:
        raise AnalysisError("update_stats signature changed", rule="C15-R5", anchor=f.qualname)
    resp, batchp = p[0], p[1]
    augs = {src(n.target): n for n in iter_own_nodes(fn) if isinstance(n, ast.AugAssign)}

    def local_val(name, at):
        defs = cfg_of(fn).defs_reaching(name, at)
        return defs[0][1] if len(defs) == 1 else None
    a = augs.get("STATS['totals']['failed']")
    ok = False
    msg = "no `STATS['totals']['failed'] += ...`"
    faults_map = None
    if a is not None and isinstance(a.op, ast.Add) and isinstance(a.value, ast.Name):
        v = local_val(a.value.id, a)
        ok = isinstance(v, ast.Call) and src(v.func) == "len" and isinstance(v.args[0], ast.Name)
        if ok:
            d = cfg_of(fn).defs_reaching(v.args[0].id, a)
            # res, compilation_time = res  -> first component of the parameter
            ok = len(d) == 1 and isinstance(d[0][1], tuple) and d[0][1][0] == "unpack" and \
                d[0][1][2] == 0 and src(d[0][1][1]) == resp
            faults_map = v.args[0].id
        msg = "failed must be len(<faults map, first component of %s>); found %s" % (resp, src(v) if v is not None else None)
        failed_name = a.value.id
    obs.append(Ob("C15-R5", "update_stats:failed=len(res)", _w(f), ok, msg))
    a = augs.get("STATS['totals']['passed']")
    ok = False
    msg = "no `STATS['totals']['passed'] += ...`"
    if a is not None and isinstance(a.op, ast.Add) and isinstance(a.value, ast.Name):
        v = local_val(a.value.id, a)
        ok = isinstance(v, ast.BinOp) and isinstance(v.op, ast.Sub) and src(v.left) == batchp and \
            isinstance(v.right, ast.Name) and "failed_name" in dir() and v.right.id == failed_name
        msg = "passed must be %s - failed; found %s" % (batchp, src(v) if v is not None else None)
    obs.append(Ob("C15-R5", "update_stats:passed=batch-failed", _w(f), ok, msg))
    upd = [c for c in calls_in(fn) if call_name(c) == "update" and src(c.func.value) == "STATS['faults']"]
    ok = len(upd) == 1 and faults_map is not None and src(upd[0].args[0]) == faults_map and \
        not flat_guards(upd[0])
    obs.append(Ob("C15-R5", "update_stats:faults-merged", _w(f), ok,
                  "STATS['faults'].update(<the same faults map>) unconditionally; found %s" % [src(c) for c in upd]))
    sv = [c for c in calls_in(fn) if call_name(c) == "save_stats"]
    ok = len(sv) == 1 and not flat_guards(sv[0]) and bool(upd) and sv[0].lineno > upd[0].lineno
    obs.append(Ob("C15-R5", "update_stats:saved-after-merge", _w(f), ok, "save_stats() after the merge, unconditionally"))

    f = repo.fn(H + ".save_stats")
    fn = f.node
    g = cfg_of(fn)
    pops = [n for n in iter_own_nodes(fn) if isinstance(n, ast.Assign) and isinstance(n.value, ast.Call)
            and src(n.value) == "STATS.pop('faults')"]
    dumps = [c for c in calls_in(fn) if src(c.func) == "json.dump"]
    ok = False
    msg = "save_stats shape not recognised"
    if len(pops) == 1:
        fl = pops[0].targets[0].id
        d_faults = [c for c in dumps if src(c.args[0]) == fl]
        back = [n for n in iter_own_nodes(fn) if isinstance(n, ast.Assign) and
                src(n.targets[0]) == "STATS['faults']" and src(n.value) == fl]
        file_ok = False
        if d_faults:
            w = [a for a in ancestors(d_faults[0]) if isinstance(a, ast.With)]
            if w:
                op = w[0].items[0].context_expr
                srcs = [src(s) for s in Prov(fn).sources(op.args[0]) if isinstance(s, ast.AST)]
                file_ok = any("'faults.json'" in s for s in srcs) and src(w[0].items[0].optional_vars) == src(d_faults[0].args[1])
        ok = len(d_faults) == 1 and len(back) == 1 and file_ok and \
            g.postdominates(g.node(back[0]), g.node(pops[0]))
        msg = "faults popped, dumped to faults.json (%s) and put back on every path (%s)" % (file_ok, len(back) == 1)
    obs.append(Ob("C15-R5", "save_stats:faults-written-and-restored", _w(f), ok, msg))

    f = repo.fn(H + "._run")
    fn = f.node
    pr, ps = f.params[0], f.params[1]
    calls_res = [c for c in calls_in(fn) if isinstance(c.func, ast.Name) and c.func.id == ps]
    loops = [n for n in iter_own_nodes(fn) if isinstance(n, ast.For)]
    ok = False
    msg = "_run shape not recognised"
    if len(calls_res) == 1 and len(loops) == 1 and len(calls_res[0].args) == 4:
        lp = loops[0]
        bname = src(calls_res[0].args[3])
        range_ok = src(lp.iter) == "range(%s)" % bname
        if not range_ok:
            # ... or over a list built with exactly one element per program of the batch: [.. for _ in range(batches)]
            it = lp.iter
            if isinstance(it, ast.Call) and call_name(it) == "enumerate" and it.args:
                it = it.args[0]
            it = resolve_local(fn, it, lp)
            range_ok = isinstance(it, ast.ListComp) and len(it.generators) == 1 and not it.generators[0].ifs and \
                src(it.generators[0].iter) == "range(%s)" % bname
        appends = [c for c in calls_in(lp) if call_name(c) == "append"]
        one_per_iter = len(appends) == 1 and not flat_guards(appends[0], stop=lp) and \
            not any(isinstance(n, (ast.Continue, ast.Break)) for n in iter_own_nodes(lp))
        res_name = src(appends[0].func.value) if appends else None
        pp = [c for c in calls_in(lp) if isinstance(c.func, ast.Name) and c.func.id == pr]
        appended_is_result = bool(pp) and appends and pp[0] in [s for s in Prov(fn).sources(appends[0].args[0])]
        passes_res = src(calls_res[0].args[1]) == res_name
        incs = [n for n in iter_own_nodes(fn) if isinstance(n, ast.AugAssign) and src(n.target) == src(calls_res[0].args[0])]
        inc_ok = len(incs) == 1 and isinstance(incs[0].op, ast.Add) and src(incs[0].value) == bname
        bdef = cfg_of(fn).defs_reaching(bname, lp)
        b_ok = len(bdef) == 1 and isinstance(bdef[0][1], ast.Call) and call_name(bdef[0][1]) == "get_batches"
        # res re-initialised per batch
        rdef = cfg_of(fn).defs_reaching(res_name, lp) if res_name else []
        fresh = bool(rdef) and all(isinstance(d[1], ast.List) and not d[1].elts for d in rdef)
        ok = range_ok and one_per_iter and appended_is_result and passes_res and inc_ok and b_ok and fresh
        msg = ("batch loop ranges over the batch size (%s), appends exactly one result per program (%s/%s), the list is "
               "fresh per batch (%s), process_res gets that list and the same batch size (%s), iteration advances by "
               "the batch size (%s), batch size from get_batches (%s)"
               % (range_ok, one_per_iter, appended_is_result, fresh, passes_res, inc_ok, b_ok))
    obs.append(Ob("C15-R5", "_run:batch-accounting", _w(f), ok, msg))

    for name in ("run", "run_parallel"):
        f = repo.fn(H + "." + name)
        inner = f.nested.get("process_res")
        if inner is None:
            raise AnalysisError("%s.process_res missing" % name, rule="C15-R5", anchor=f.qualname)
        if len(inner.params) < 4:
            obs.append(Ob("C15-R5", "%s.process_res:passes-batch-size" % name, _w(inner), False,
                          "process_res no longer receives the size of the batch it is given (parameters %s): the "
                          "counters cannot follow a short last batch" % inner.params))
            continue
        bp = inner.params[3]
        us = []
        for sub in [inner] + list(inner.nested.values()):
            us += [c for c in calls_in(sub.node) if call_name(c) == "update_stats"]
        ok = len(us) >= 1 and all(len(c.args) >= 2 and src(c.args[1]) == bp for c in us)
        obs.append(Ob("C15-R5", "%s.process_res:passes-batch-size" % name, _w(inner), ok,
                      "update_stats must receive the batch size parameter `%s`; calls %s" % (bp, [src(c) for c in us])))
        # oracles keyed by start_index + i over enumerate(results)
        keyst = [n for n in iter_own_nodes(inner.node) if isinstance(n, ast.Assign) and
                 isinstance(n.targets[0], ast.Subscript) and src(n.targets[0].value) == "oracles"]
        ok = len(keyst) == 1 and src(keyst[0].targets[0].slice).replace(" ", "") == inner.params[0] + "+i"
        obs.append(Ob("C15-R5", "%s.process_res:pids-consecutive" % name, _w(inner), ok,
                      "oracles must be keyed by %s + i; found %s" % (inner.params[0], [src(k) for k in keyst])))
    return obs


def r6_oracle_map(repo):
    obs = []
    f = repo.fn(H + ".gen_program")
    fn = f.node
    tries = [n for n in fn.body if isinstance(n, ast.Try)]
    if len(tries) != 1:
        raise AnalysisError("gen_program: expected one try at top level", rule="C15-R6", anchor=f.qualname)
    tr = tries[0]
    # stats dict literal with 'programs': {correct: True}
    dicts = [n for n in iter_own_nodes(fn) if isinstance(n, ast.Dict) and
             any(isinstance(k, ast.Constant) and k.value == "programs" for k in n.keys)]
    ok = False
    msg = "stats literal with 'programs' not found"
    if len(dicts) == 1:
        d = dicts[0]
        pv = d.values[[k.value for k in d.keys].index("programs")]
        ok = isinstance(pv, ast.Dict) and len(pv.keys) == 1 and const_value(pv.values[0]) is True
        if ok:
            srcs = [s for s in Prov(fn).sources(pv.keys[0]) if isinstance(s, ast.Call)]
            ok = any(call_name(s) == "process_cp_transformations" for s in srcs)
        msg = "programs map must start as {<file returned by process_cp_transformations>: True}; found %s" % src(pv)
    obs.append(Ob("C15-R6", "gen_program:correct-program-expected-to-compile", _w(f), ok, msg))
    st = [n for n in iter_own_nodes(fn) if isinstance(n, ast.Assign) and
          src(n.targets[0]).startswith("stats['programs'][")]
    ok = False
    msg = "no store of the incorrect program into stats['programs']"
    if len(st) == 1:
        s = st[0]
        gs = [(src(t), p) for t, p in flat_guards(s)]
        key = s.targets[0].slice
        srcs = [x for x in Prov(fn).sources(key) if isinstance(x, ast.Call)]
        from_ncp = any(call_name(x) == "process_ncp_transformations" for x in srcs)
        guard_name = src(key.value) if isinstance(key, ast.Subscript) else src(key)
        ok = const_value(s.value) is False and from_ncp and (guard_name, True) in gs and \
            src(key).endswith("[0]")
        msg = ("incorrect program must be registered as False only when process_ncp_transformations returned a "
               "result: value=%s from_ncp=%s guards=%s" % (src(s.value), from_ncp, gs))
    obs.append(Ob("C15-R6", "gen_program:incorrect-program-expected-to-fail", _w(f), ok, msg))
    rets_ok = [n for n in iter_own_nodes(fn) if isinstance(n, ast.Return) and is_within(n, tr) and
               not any(is_within(n, h) for h in tr.handlers)]
    rets_ex = [n for n in iter_own_nodes(fn) if isinstance(n, ast.Return) and
               any(is_within(n, h) for h in tr.handlers)]
    ok = bool(rets_ok) and all(isinstance(r.value, ast.Call) and src(r.value.func) == "ProgramRes" and
                               const_value(r.value.args[0]) is False for r in rets_ok) and \
        bool(rets_ex) and all(isinstance(r.value, ast.Call) and src(r.value.func) == "ProgramRes" and
                              const_value(r.value.args[0]) is True for r in rets_ex) and \
        any(src(h.type) == "Exception" for h in tr.handlers if h.type is not None)
    # the try covers program production
    covered = any(call_name(c) == "get_program" and is_within(c, tr) for c in calls_in(fn)) and \
        all(is_within(c, tr) for c in calls_in(fn)
            if call_name(c) in ("process_cp_transformations", "process_ncp_transformations", "get_program"))
    obs.append(Ob("C15-R6", "gen_program:failure-flag", _w(f), ok and covered,
                  "normal path returns ProgramRes(False, stats), any Exception gives ProgramRes(True, ...), "
                  "and generation/mutation/translation happen inside the try (covered=%s)" % covered))
    return obs


def r7_output_analysed(repo):
    """a fault is reported exactly on a mismatch between oracle and *compiler verdict*: the verdict is computed from the
    compiler's output on every call (shared with C14-R4)"""
    from .c14 import r4_order
    out = []
    for o in r4_order(repo):
        if o.key == "check_oracle:output-analysed-on-every-call":
            out.append(Ob("C15-R7", o.key, o.where, o.ok, o.msg, o.facts))
    return out


def rules():
    return [
        RuleSpec("C15-R1", "decision table of check_oracle vs specification (16 rows)", 19, r1_table),
        RuleSpec("C15-R2", "message stored on each reporting path", 3, r2_message),
        RuleSpec("C15-R3", "test case saved for compiler faults, destination created once per pid", 6, r3_save),
        RuleSpec("C15-R4", "cleanup of non-faulty programs and of the session tmp directory", 4, r4_cleanup),
        RuleSpec("C15-R5", "counter arithmetic (update_stats, save_stats, _run)", 10, r5_counters),
        RuleSpec("C15-R6", "oracle map and failure flag built by gen_program", 3, r6_oracle_map),
        RuleSpec("C15-R7", "the compiler's output is analysed on every call (verdicts never assumed from the exit status)", 1,
                 r7_output_analysed),
    ]


# -- variants --------------------------------------------------------------------

def _co(tree):
    return V.find_def(tree, "check_oracle")


def _v_report_when_ok(tree):
    fn = _co(tree)
    iff = V.one([n for n in ast.walk(fn) if isinstance(n, ast.If) and
                 ast.unparse(n.test) == "oracle and program in failed"])
    iff.test = V.parse_expr("oracle and program not in failed")


def _v_drop_prefix(tree):
    fn = _co(tree)
    st = V.one([n for n in ast.walk(fn) if isinstance(n, ast.Assign) and isinstance(n.value, ast.BinOp)
                and "SHOULD NOT" in ast.unparse(n.value)])
    st.value = st.value.right


def _v_drop_copytree(tree):
    fn = _co(tree)
    sts = [n for n in ast.walk(fn) if isinstance(n, ast.Expr) and V.is_call_named(n.value, "copytree")]
    if len(sts) < 3:
        raise V.SkipVariant("copytree sites")
    V.remove_stmt(tree, sts[-1])


def _v_passed_batch(tree):
    fn = V.find_def(tree, "update_stats")
    st = V.one([n for n in ast.walk(fn) if isinstance(n, ast.Assign) and ast.unparse(n.targets[0]) == "passed"])
    st.value = V.parse_expr("batch")


def _v_failed_tool_skipped(tree):
    fn = _co(tree)
    iff = V.one([n for n in ast.walk(fn) if isinstance(n, ast.If) and ast.unparse(n.test) == "proc_res.failed"
                 and any(isinstance(x, ast.Continue) for x in n.body)])
    iff.body = [x for x in iff.body if isinstance(x, ast.Continue)]


def _v_rmtree_conditional(tree):
    fn = _co(tree)
    st = V.one([n for n in ast.walk(fn) if isinstance(n, ast.Expr) and V.is_call_named(n.value, "rmtree")
                and "'tmp'" in ast.unparse(n)])
    new = ast.If(test=V.parse_expr("pid not in output"), body=[st], orelse=[])
    V.replace_node(tree, st, new)


def _v_faults_not_restored(tree):
    fn = V.find_def(tree, "save_stats")
    st = V.one([n for n in ast.walk(fn) if isinstance(n, ast.Assign) and
                ast.unparse(n.targets[0]) == "STATS['faults']"])
    V.remove_stmt(tree, st)


def _v_iteration_plus_one(tree):
    fn = V.find_def(tree, "_run")
    st = V.one([n for n in ast.walk(fn) if isinstance(n, ast.AugAssign) and ast.unparse(n.target) == "iteration"])
    st.value = ast.Constant(value=1)


def _v_incorrect_always(tree):
    fn = V.find_def(tree, "gen_program")
    iff = V.one([n for n in ast.walk(fn) if isinstance(n, ast.If) and ast.unparse(n.test) == "incorrect_program"])
    st = V.one([n for n in iff.body if "stats['programs']" in ast.unparse(n)])
    st.value = ast.Constant(value=True)


def _v_exception_not_failed(tree):
    fn = V.find_def(tree, "gen_program")
    tr = V.one([n for n in fn.body if isinstance(n, ast.Try)])
    r = V.one([n for n in ast.walk(tr.handlers[0]) if isinstance(n, ast.Return)])
    r.value.args[0] = ast.Constant(value=False)


def _v_crash_msg_dropped(tree):
    fn = _co(tree)
    st = V.one([n for n in ast.walk(fn) if isinstance(n, ast.Assign) and
                ast.unparse(n.value) == "compiler.crash_msg"])
    V.remove_stmt(tree, st)


def _v_fast_path(tree):
    fn = _co(tree)
    lp = V.one([n for n in fn.body if isinstance(n, ast.For) and "oracles.items()" in ast.unparse(n.iter)])
    V.insert_before(tree, lp, V.parse_stmts("if cli_args.only_correctness_preserving_transformations and not failed:\n    shutil.rmtree(dirname)\n    return {}, compilation_time"))


def _t_reorder(tree):
    fn = _co(tree)
    V.rename_local(fn, "proc_res", "pres")
    V.rename_local(fn, "program", "prog_file")


def variants():
    f = "hephaestus.py"
    return [
        V.Variant("report when expected-pass program is NOT in failed", f, _v_report_when_ok, {"C15-R1"}),
        V.Variant("tool-failed programs not reported", f, _v_failed_tool_skipped, {"C15-R1"}),
        V.Variant("drop SHOULD NOT BE COMPILED prefix", f, _v_drop_prefix, {"C15-R2"}),
        V.Variant("crash message not stored", f, _v_crash_msg_dropped, {"C15-R2"}),
        V.Variant("drop a copytree", f, _v_drop_copytree, {"C15-R3"}),
        V.Variant("tmp/<pid> removed only for non-faulty pids", f, _v_rmtree_conditional, {"C15-R4"}),
        V.Variant("passed = batch", f, _v_passed_batch, {"C15-R5"}),
        V.Variant("faults not put back after save", f, _v_faults_not_restored, {"C15-R5"}),
        V.Variant("iteration += 1 instead of batch", f, _v_iteration_plus_one, {"C15-R5"}),
        V.Variant("incorrect program registered as expected-to-compile", f, _v_incorrect_always, {"C15-R6"}),
        V.Variant("exception gives ProgramRes(False)", f, _v_exception_not_failed, {"C15-R6"}),
        V.Variant("-P fast path returns before tool failures are reported", f, _v_fast_path, {"C15-R1"}),
        V.Variant("twin: rename locals in check_oracle", f, _t_reorder, None, twin=True),
        V.Variant("twin: whole tree reformatted by ast.unparse", None, None, None, twin=True),
    ]
