"""C14 - compiler diagnostics are attributed to the right programs (pattern/flow part)."""
import ast
import string

from ..repo import AnalysisError
from ..report import Ob, RuleSpec
from ..astutil import (src, guards, flat_guards, calls_in, call_name, kwarg, const_value,
                       iter_own_nodes, ancestors, is_within)
from ..cfg import cfg_of, Prov, resolve_local
from .. import regexast as R
from .. import variants as V

PROPERTY = "C14"
TITLE = "Compiler diagnostics are attributed to the right programs"
DECIDES = ("Decided: structural facts about the four ERROR_REGEX patterns on their regex ASTs (file group = what "
           "get_filename returns, ends in the translator's file extension, accepts the path alphabet; a mandatory "
           "severity literal 'error:'/'Error:' so warnings and notes cannot match; message group distinct from the "
           "file group), the order of operations of analyze_compiler_output (crash test first, filters applied to the "
           "text that findall receives, grouping by file), check_oracle consulting crash_msg before the map, that the "
           "mandatory part of each pattern (literals and classes, optional parts relaxed - an over-approximation of "
           "re.search computed on the regex AST) admits the compiler's minimal diagnostics, and the "
           "agreement between the path stored as oracle key and the compiler's input glob. Also: every marker test on the compiler's output is re.search; the output is analysed on every call of check_oracle and is the only source of the diagnostics map.")
NOT_DECIDED = "exactness on every possible compiler output (needs the compilers' output grammar)."

LANGS = ["java", "kotlin", "groovy", "scala"]
# characters of a directory / file name the tool may be run under (TMPDIR, a checkout called hephaestus-v1.2, ...): a
# narrower class makes the unanchored search match a *suffix* of the path, and the diagnostic is keyed to a file that
# does not exist (found by a round-6 seed and fixed in /repo: the classes were [a-zA-Z0-9/_])
PATH_ALPHABET = set(string.ascii_lowercase + string.ascii_uppercase + string.digits + "_/" + "-.+~@%=,")
SEVERITY = {"java": ("error:", "after-file"), "kotlin": ("error:", "after-file"),
            "scala": ("Error:", "before-file"), "groovy": None}
GROOVY_EXEMPT = ("groovyc prints only errors in the `file: line: message` block form matched by the pattern "
                 "(warnings are not printed under --compile-static without -w flags); no severity token exists "
                 "in its output to anchor on")


# Minimal well-formed error diagnostics of each compiler (the variable parts instantiated as short as the format
# allows).  A pattern whose mandatory part cannot match one of these drops that kind of error.
WITNESSES = {
    "java": [("a/b/Main.java:3: error: m\n", "javac: <path>:<line>: error: <message>")],
    "kotlin": [("a/b/p.kt:3:15: error: m\n", "kotlinc: <path>:<line>:<col>: error: <message>")],
    "groovy": [("a/b/p.groovy: 3: m\n\n", "groovyc: <path>: <line>: <message> ... blank line"),
               ("a/b/p.groovy: -1: m\n\n", "groovyc, error attached to a synthetic node: line number -1")],
    "scala": [("-- [E007] Type Mismatch Error: a/b/p.scala:3:15 ---\nm\n", "dotty, coded: -- [Ennn] <Kind> Error: <path>:<l>:<c> ---"),
              ("-- Error: a/b/p.scala:3:15 ---\nm\n", "dotty, uncoded (override / refchecks errors): -- Error: <path>:<l>:<c> ---")],
}


def _w(x, node=None):
    return "%s:%d" % (x.module.relpath, (node or x.node).lineno)


def _lang_tables(repo):
    """language -> (compiler ClassInfo, translator ClassInfo) from hephaestus.COMPILERS/TRANSLATORS."""
    m = repo.module("hephaestus")
    out = {}
    for gname, slot in (("COMPILERS", 0), ("TRANSLATORS", 1)):
        d = m.globals.get(gname)
        if not isinstance(d, ast.Dict):
            raise AnalysisError("hephaestus.%s is not a dict literal" % gname, rule="C14-R1",
                                anchor="hephaestus." + gname)
        for k, v in zip(d.keys, d.values):
            c = repo.resolves_to_class(v, m)
            if c is None:
                raise AnalysisError("cannot resolve %s[%s]" % (gname, src(k)), rule="C14-R1",
                                    anchor="hephaestus." + gname)
            out.setdefault(k.value, [None, None])[slot] = c
    for lang in LANGS:
        if lang not in out or None in out[lang]:
            raise AnalysisError("language %s lacks a compiler or translator" % lang, rule="C14-R1",
                                anchor="hephaestus.COMPILERS")
    return out


def _regex(cls, name):
    e = cls.lookup_const(name)
    if e is None:
        raise AnalysisError("%s.%s missing" % (cls.qualname, name), anchor=cls.qualname + "." + name)
    pat, flags = R.pattern_of(e)
    return pat, flags, R.tokens(R.parse(pat, flags))


_NOT_VERBATIM = {}


def _match_index(cls, meth):
    """get_filename / get_error_msg: `return match[k]` -> k"""
    f = cls.lookup(meth)
    _NOT_VERBATIM.pop((cls.qualname, meth), None)
    if f is None:
        raise AnalysisError("%s.%s missing" % (cls.qualname, meth), anchor=cls.qualname + "." + meth)
    rets = [n for n in iter_own_nodes(f.node) if isinstance(n, ast.Return)]
    if len(rets) == 1 and isinstance(rets[0].value, ast.Subscript) and \
            isinstance(rets[0].value.value, ast.Name) and \
            rets[0].value.value.id == f.params[1] and \
            isinstance(const_value(rets[0].value.slice), int):
        return f, const_value(rets[0].value.slice)
    # not verbatim (`return os.path.realpath(match[0])`, ...): the group is still identified; R1 reports the rewriting
    subs = [n for r in rets for n in ast.walk(r) if isinstance(n, ast.Subscript) and isinstance(n.value, ast.Name) and
            n.value.id == f.params[1] and isinstance(const_value(n.slice), int)]
    if len(rets) == 1 and len(subs) == 1:
        _NOT_VERBATIM[(cls.qualname, meth)] = src(rets[0].value)
        return f, const_value(subs[0].slice)
    raise AnalysisError("%s.%s is not `return match[k]`" % (cls.qualname, meth),
                        anchor=cls.qualname + "." + meth)


def _ngroups(toks):
    return len([t for t in toks if t[0] == "open"])


def r1_file_group(repo):
    obs = []
    for lang, (comp, trans) in sorted(_lang_tables(repo).items()):
        pat, flags, toks = _regex(comp, "ERROR_REGEX")
        f, k = _match_index(comp, "get_filename")
        fname = const_value(trans.lookup_const("filename"))
        if not isinstance(fname, str) or "." not in fname:
            raise AnalysisError("%s.filename not a literal" % trans.qualname, rule="C14-R1",
                                anchor=trans.qualname + ".filename")
        ext = fname.rsplit(".", 1)[1]
        ng = _ngroups(toks)
        span = R.group_span(toks, k + 1) if ng > 1 else R.group_span(toks, 1)
        if ng == 1 and k != 0:
            span = None
        ok = span is not None
        msg = "get_filename returns match[%d] but the pattern has %d groups" % (k, ng)
        facts = {"pattern": pat, "filename_group": k + 1, "translator_filename": fname}
        if ok:
            inner = [t for t in toks[span[0] + 1:span[1]]]
            lits = ""
            i = len(inner)
            while i > 0 and inner[i - 1][0] == "lit":
                i -= 1
                lits = inner[i][1] + lits
            dot_ok = lits == "." + ext or (lits == ext and i > 0 and inner[i - 1][0] == "set" and
                                           R.accepts(inner[i - 1][1], ".") and inner[i - 1][2:] == (1, 1))
            head = inner[:i] if lits == "." + ext else inner[:i - 1]
            alpha_ok = len(head) == 1 and head[0][0] == "set" and head[0][3] > 1000 and \
                all(R.accepts(head[0][1], c) for c in PATH_ALPHABET)
            missing = sorted(c for c in PATH_ALPHABET if not (head and head[0][0] == "set" and R.accepts(head[0][1], c)))
            one_line = bool(head) and head[0][0] == "set" and not R.accepts(head[0][1], "\n")
            ok = dot_ok and alpha_ok and one_line
            msg = ("file group of %s ERROR_REGEX must be <path chars>+ '.' '%s' (extension of %s): "
                   "trailing literal %r dot_ok=%s, path part accepts [a-zA-Z0-9_/] and -.+~@%%=, = %s (missing %s), "
                   "stays on one line = %s"
                   % (comp.name, ext, fname, lits, dot_ok, alpha_ok, "".join(missing), one_line))
        obs.append(Ob("C14-R1", "%s:file-group" % lang, _w(comp), ok, msg, facts))
        rewritten = _NOT_VERBATIM.get((comp.qualname, "get_filename"))
        obs.append(Ob("C14-R1", "%s:get_filename-returns-the-matched-path-verbatim" % lang, _w(f), rewritten is None,
                      "the key of a diagnostic must be the path as the compiler printed it - that is the path the compiler "
                      "was given, and the oracle looks it up by exact membership; a normalised path (realpath, abspath, "
                      "basename, lower) is another string: get_filename returns `%s`" % rewritten))
        # the compiler's input glob uses the same extension (or the directory itself)
        init = comp.methods.get("__init__")
        globs = [n.value for n in iter_own_nodes(init.node) if isinstance(n, ast.Constant) and
                 isinstance(n.value, str) and n.value.startswith("*.")] if init else []
        ok = all(g == "*." + ext for g in globs)
        obs.append(Ob("C14-R1", "%s:input-glob-extension" % lang, _w(comp), ok,
                      "input glob %s must use the translator's extension .%s" % (globs, ext)))
    return obs


def r2_severity(repo):
    obs = []
    for lang, (comp, _t) in sorted(_lang_tables(repo).items()):
        pat, flags, toks = _regex(comp, "ERROR_REGEX")
        _f, k = _match_index(comp, "get_filename")
        span = R.group_span(toks, k + 1)
        want = SEVERITY[lang]
        if want is None:
            obs.append(Ob("C14-R2", "%s:severity-exempt" % lang, _w(comp), True,
                          "exempt: " + GROOVY_EXEMPT, {"pattern": pat}))
            continue
        lit, where = want
        runs = R.literal_runs(toks)
        hits = [(a, b, t) for a, b, t in runs if lit in t]
        ok = False
        if span is not None:
            if where == "after-file":
                ok = any(a > span[1] for a, b, t in hits)
            else:
                ok = any(b <= span[0] for a, b, t in hits)
        obs.append(Ob("C14-R2", "%s:severity-literal" % lang, _w(comp), ok,
                      "ERROR_REGEX of %s must contain the mandatory literal %r %s the file group so that "
                      "warning:/note: lines cannot match; mandatory literal runs: %s"
                      % (comp.name, lit, where.replace("-", " "), [t for _a, _b, t in runs]),
                      {"pattern": pat}))
    return obs


def r3_message_group(repo):
    obs = []
    for lang, (comp, _t) in sorted(_lang_tables(repo).items()):
        pat, flags, toks = _regex(comp, "ERROR_REGEX")
        _f, k = _match_index(comp, "get_filename")
        f2, m = _match_index(comp, "get_error_msg")
        ng = _ngroups(toks)
        fs, ms = R.group_span(toks, k + 1), R.group_span(toks, m + 1)
        ok = k != m and fs is not None and ms is not None and ms[0] > fs[1] and m < ng
        msg = "get_error_msg returns match[%d], get_filename match[%d]; pattern has %d groups" % (m, k, ng)
        if ok and SEVERITY[lang]:
            lit, where = SEVERITY[lang]
            runs = [(a, b, t) for a, b, t in R.literal_runs(toks) if lit in t]
            ok = any(a < ms[1] for a, b, t in runs)
            msg += "; severity literal must not come after the message group"
        obs.append(Ob("C14-R3", "%s:message-group" % lang, _w(f2), ok, msg))
    return obs


def r4_order(repo):
    obs = []
    f = repo.method("src.compilers.base.BaseCompiler", "analyze_compiler_output", inherited=False)
    fn = f.node
    outp = f.params[1]
    g = cfg_of(fn)
    prov = Prov(fn)
    searches = [c for c in calls_in(fn) if src(c.func) == "re.search" and src(c.args[0]) == "self.CRASH_REGEX"]
    finds = [c for c in calls_in(fn) if src(c.func) == "re.findall"]
    if len(finds) != 1:
        raise AnalysisError("expected one re.findall in analyze_compiler_output", rule="C14-R4", anchor=f.qualname)
    fd = finds[0]
    ok = False
    msg = "no re.search(self.CRASH_REGEX, output)"
    if len(searches) == 1 and src(searches[0].args[1]) == outp:
        st = searches[0]._parent
        cname = st.targets[0].id if isinstance(st, ast.Assign) and isinstance(st.targets[0], ast.Name) else None
        sets = [n for n in iter_own_nodes(fn) if isinstance(n, ast.Assign) and src(n.targets[0]) == "self.crash_msg"]
        call_txt = src(searches[0])

        def crash(node, want):
            """is `node` on a path where the crash pattern matched (want=True) / did not match (want=False)?  The test
            may be written on the result local or on the call, as truthiness or as `is (not) None`"""
            for t, p in flat_guards(node):
                tt = src(t)
                for subject in [x for x in (cname, call_txt) if x]:
                    if tt == subject and p == want:
                        return True
                    if tt == "%s is None" % subject and p == (not want):
                        return True
            return False
        set_ok = len(sets) == 1 and crash(sets[0], True) and src(sets[0].value) == outp
        fguard = [(src(t), p) for t, p in flat_guards(fd)]
        rets_in = [n for n in iter_own_nodes(fn) if isinstance(n, ast.Return) and crash(n, True)]
        ok = set_ok and crash(fd, False) and len(rets_in) == 1 and \
            g.dominates(g.node(st), g.node(fd))
        msg = ("crash test first: crash_msg = output under the crash match (%s), return without parsing, findall only "
               "when there was no crash match (guards of findall: %s)" % (set_ok, fguard))
    obs.append(Ob("C14-R4", "BaseCompiler.analyze_compiler_output:crash-first", _w(f), ok, msg))
    # filters
    ok = False
    msg = "findall must receive the filtered text"
    if src(fd.args[0]) == "self.ERROR_REGEX" and isinstance(fd.args[1], ast.Name):
        defs = g.defs_reaching(fd.args[1].id, fd)
        subs = [d for d in defs if isinstance(d[1], ast.Call) and src(d[1].func) == "re.sub"]
        inits = [d for d in defs if isinstance(d[1], ast.Name) and d[1].id == outp]
        sub_ok = False
        if len(subs) == 1:
            c = subs[0][1]
            lp = [a for a in ancestors(c) if isinstance(a, ast.For)]
            sub_ok = bool(lp) and src(lp[0].iter) == "self.filter_patterns" and \
                len(c.args) == 3 and not [k for k in c.keywords if k.arg in ("count", None)] and \
                src(c.args[0]) == src(lp[0].target) and const_value(c.args[1]) == "" and \
                src(c.args[2]) == fd.args[1].id and not flat_guards(c, stop=lp[0]) and \
                not any(isinstance(n, (ast.Break, ast.Continue)) for n in iter_own_nodes(lp[0]))
        ok = sub_ok and len(inits) == 1 and len(defs) == 2
        msg = ("the text given to findall is `output` with EVERY occurrence of every filter pattern removed by "
               "re.sub(p, '', text) (exactly three positional arguments: a fourth one is `count` and limits the removals) "
               "in a loop over self.filter_patterns: %s (definitions reaching findall's argument: %d)" % (sub_ok, len(defs)))
    obs.append(Ob("C14-R4", "BaseCompiler.analyze_compiler_output:filters-applied-before-matching", _w(f), ok, msg))
    # grouping
    apps = [c for c in calls_in(fn) if call_name(c) == "append" and isinstance(c.func.value, ast.Subscript)]
    ok = False
    msg = "grouping statement failed[filename].append(message) not found"
    if len(apps) == 1:
        c = apps[0]
        lp = [a for a in ancestors(c) if isinstance(a, ast.For)]
        key_src = [s for s in prov.sources(c.func.value.slice) if isinstance(s, ast.Call)]
        val_src = [s for s in prov.sources(c.args[0]) if isinstance(s, ast.Call)]
        mv = src(lp[0].target) if lp else None
        it_src = [s for s in prov.sources(lp[0].iter) if isinstance(s, ast.Call)] if lp else []
        ok = bool(lp) and any(call_name(s) == "get_filename" and src(s.args[0]) == mv for s in key_src) and \
            any(call_name(s) == "get_error_msg" and src(s.args[0]) == mv for s in val_src) and \
            fd in it_src and not flat_guards(c, stop=lp[0]) and \
            not any(isinstance(n, (ast.Break, ast.Continue, ast.Return)) for n in iter_own_nodes(lp[0]))
        tbl = src(c.func.value.value)
        rets = [n for n in iter_own_nodes(fn) if isinstance(n, ast.Return) and
                isinstance(n.value, ast.Tuple) and src(n.value.elts[0]) == tbl]
        ok = ok and len(rets) == 1
        msg = "every findall match is appended under get_filename(match) with get_error_msg(match), unconditionally, and the table is returned: %s" % ok
    obs.append(Ob("C14-R4", "BaseCompiler.analyze_compiler_output:grouped-by-file", _w(f), ok, msg))
    # BaseCompiler.__init__ stores filter patterns; subclasses forward them
    init = repo.method("src.compilers.base.BaseCompiler", "__init__", inherited=False)
    st = [n for n in iter_own_nodes(init.node) if isinstance(n, ast.Assign) and src(n.targets[0]) == "self.filter_patterns"]
    ok = len(st) == 1 and "filter_patterns" in {n.id for n in ast.walk(st[0].value) if isinstance(n, ast.Name)}
    obs.append(Ob("C14-R4", "BaseCompiler.__init__:stores-filter-patterns", _w(init), ok,
                  "self.filter_patterns must come from the constructor argument; found %s" % [src(s) for s in st]))
    for lang, (comp, _t) in sorted(_lang_tables(repo).items()):
        ci = comp.methods.get("__init__")
        if ci is None:
            continue
        sup = [c for c in calls_in(ci.node) if call_name(c) == "__init__"]
        ok = len(sup) == 1 and len(sup[0].args) >= 2 and src(sup[0].args[1]) == ci.params[2]
        obs.append(Ob("C14-R4", "%s:forwards-filter-patterns" % comp.name, _w(ci), ok,
                      "%s.__init__ must forward filter_patterns to BaseCompiler: %s" % (comp.name, [src(c) for c in sup])))
    # overrides of analyze_compiler_output (Groovy)
    base = repo.cls("src.compilers.base.BaseCompiler")
    for sub in base.all_subclasses():
        ov = sub.methods.get("analyze_compiler_output")
        if ov is None:
            continue
        sup = [c for c in calls_in(ov.node) if call_name(c) == "analyze_compiler_output" and
               isinstance(c.func.value, ast.Call) and src(c.func.value.func) == "super"]
        okd = len(sup) == 1 and src(sup[0].args[0]) == ov.params[1]
        tnames = [src(e) for e in sup[0]._parent.targets[0].elts] if okd and isinstance(sup[0]._parent, ast.Assign) and \
            isinstance(sup[0]._parent.targets[0], ast.Tuple) else []
        rets = [n for n in iter_own_nodes(ov.node) if isinstance(n, ast.Return)]
        # every return either returns the inherited table or happens under a crash classification
        good = okd and bool(tnames)
        for r in rets:
            sets_crash = any(isinstance(s, ast.Assign) and src(s.targets[0]) == "self.crash_msg"
                             for s in r._parent.body) if hasattr(r._parent, "body") else False
            returns_table = isinstance(r.value, ast.Tuple) and src(r.value.elts[0]) == tnames[0] if tnames else False
            good = good and (returns_table or sets_crash)
        # extra crash classification only when nothing matched
        for s in [n for n in iter_own_nodes(ov.node) if isinstance(n, ast.Assign) and src(n.targets[0]) == "self.crash_msg"]:
            gs = [(src(t), p) for t, p in flat_guards(s)]
            good = good and len(tnames) == 2 and (tnames[1], False) in gs
        obs.append(Ob("C14-R4", "%s.analyze_compiler_output:delegates" % sub.name, _w(ov), good,
                      "override must delegate to the base analysis with the same output, return its table, and may "
                      "classify a crash only when no diagnostic matched"))
    # check_oracle: crash_msg consulted before failed is touched
    co = repo.fn("hephaestus.check_oracle")
    an = [n for n in iter_own_nodes(co.node) if isinstance(n, ast.Assign) and isinstance(n.value, ast.Call) and
          call_name(n.value) == "analyze_compiler_output"]
    if len(an) != 1:
        raise AnalysisError("check_oracle: analyze_compiler_output call", rule="C14-R4", anchor=co.qualname)
    fname = src(an[0].targets[0].elts[0]) if isinstance(an[0].targets[0], ast.Tuple) else src(an[0].targets[0])
    uses = [n for n in iter_own_nodes(co.node) if isinstance(n, ast.Name) and n.id == fname and
            isinstance(n.ctx, ast.Load)]
    bad = [u for u in uses if ("compiler.crash_msg", False) not in [(src(t), p) for t, p in flat_guards(u)]]
    obs.append(Ob("C14-R4", "check_oracle:crash-consulted-before-map", _w(co), bool(uses) and not bad,
                  "every use of the diagnostics map `%s` must be on a path where compiler.crash_msg was tested false "
                  "(the map is None on a crash); %d uses, %d unguarded at lines %s"
                  % (fname, len(uses), len(bad), [u.lineno for u in bad])))
    # the verdict comes from the compiler's output alone: the analysis runs on every call (not only for a non-zero exit
    # status - wrapper scripts lose it, and crashes / rejected files are recognised by their text) and the map has no other
    # definition
    gs = [("" if p else "not ") + src(t) for t, p in flat_guards(an[0])]
    others = [n for n in iter_own_nodes(co.node) if isinstance(n, ast.Assign) and n is not an[0] and
              any(isinstance(x, ast.Name) and x.id == fname and isinstance(x.ctx, ast.Store) for x in ast.walk(n.targets[0]))]
    obs.append(Ob("C14-R4", "check_oracle:output-analysed-on-every-call", _w(co, an[0]), not gs and not others,
                  "`%s` runs under %s and `%s` has %d other definition(s); the compiler's output must be analysed "
                  "unconditionally and be the only source of the diagnostics map" % (src(an[0])[:60], gs, fname, len(others))))
    return obs


def _join_parts(expr):
    if isinstance(expr, ast.Call) and src(expr.func) == "os.path.join":
        return [src(a) for a in expr.args]
    return None


def r5_lookup_key(repo):
    obs = []
    # writers return join(dirname, package_name, translator.get_filename())
    for name in ("process_cp_transformations", "process_ncp_transformations"):
        f = repo.fn("hephaestus." + name)
        rets = [n for n in iter_own_nodes(f.node) if isinstance(n, ast.Return) and n.value is not None and
                const_value(n.value, 0) is not None]
        ok = False
        parts = None
        for r in rets:
            v = r.value.elts[0] if isinstance(r.value, ast.Tuple) else r.value
            if isinstance(v, ast.Name):
                defs = cfg_of(f.node).defs_reaching(v.id, r)
                if len(defs) == 1:
                    parts = _join_parts(defs[0][1])
                    ok = parts == [f.params[1], f.params[5], "translator.get_filename()"]
                    # and that very path is written
                    saves = [c for c in calls_in(f.node) if call_name(c) == "save_program" and
                             len(c.args) == 3 and src(c.args[2]) == v.id]
                    ok = ok and len(saves) == 1
        obs.append(Ob("C14-R5", "%s:returns-written-path" % name, _w(f), ok,
                      "returned oracle key must be os.path.join(dirname, package_name, translator.get_filename()) and "
                      "the file written there; found parts %s" % parts))
    f = repo.fn("hephaestus._run")
    td = [n for n in iter_own_nodes(f.node) if isinstance(n, ast.Assign) and isinstance(n.value, ast.Call) and
          src(n.value.func) == "tempfile.mkdtemp"]
    pc = [c for c in calls_in(f.node) if isinstance(c.func, ast.Name) and c.func.id == f.params[0]]
    rc = [c for c in calls_in(f.node) if isinstance(c.func, ast.Name) and c.func.id == f.params[1]]
    ok = len(td) == 1 and len(pc) == 1 and len(pc[0].args) >= 2 and len(rc) == 1 and len(rc[0].args) >= 3
    if ok:
        # the directory given to the program writer (a local or the expression itself) is <batch dir>/src
        ok = _join_parts(resolve_local(f.node, pc[0].args[1], pc[0])) == [src(td[0].targets[0]), "'src'"] and \
            src(rc[0].args[2]) == src(td[0].targets[0])
    obs.append(Ob("C14-R5", "_run:programs-under-<batch>/src", _w(f), ok,
                  "_run must hand <tmpdir>/src to the program writer and <tmpdir> to the result processor"))
    for name in ("run", "run_parallel"):
        pr = repo.fn("hephaestus." + name).nested.get("process_res")
        cs = [c for sub in [pr] + list(pr.nested.values()) for c in ast.walk(sub.node)
              if isinstance(c, ast.Call) and ("check_oracle" in src(c))]
        ok = any(pr.params[2] in [src(a) for a in ast.walk(c) if isinstance(a, ast.Name)] for c in cs)
        obs.append(Ob("C14-R5", "%s.process_res:passes-batch-dir" % name, _w(pr), ok,
                      "check_oracle must receive the batch directory `%s`" % pr.params[2]))
    co = repo.fn("hephaestus.check_oracle")
    fn_as = [n for n in iter_own_nodes(co.node) if isinstance(n, ast.Assign) and
             _join_parts(n.value) == [co.params[0], "'src'"]]
    cc = [c for c in calls_in(co.node) if src(c.func).startswith("COMPILERS[")]
    ok = len(fn_as) == 1 and len(cc) == 1 and src(cc[0].args[0]) == src(fn_as[0].targets[0]) and \
        len(cc[0].args) >= 2
    fp = None
    if ok:
        defs = cfg_of(co.node).defs_reaching(src(cc[0].args[1]), cc[0])
        fp = src(defs[0][1]) if len(defs) == 1 else None
        ok = fp == "utils.path2set(cli_args.error_filter_patterns)"
    obs.append(Ob("C14-R5", "check_oracle:compiler-input-and-filters", _w(co), ok,
                  "compiler is constructed on <batch>/src with the user's filter patterns (%s)" % fp))
    # the diagnostics map is consulted by exact membership of the program's path
    an = [n for n in iter_own_nodes(co.node) if isinstance(n, ast.Assign) and isinstance(n.value, ast.Call) and
          call_name(n.value) == "analyze_compiler_output"]
    fname = src(an[0].targets[0].elts[0]) if an and isinstance(an[0].targets[0], ast.Tuple) else (src(an[0].targets[0]) if an else None)
    odd = []
    for n in iter_own_nodes(co.node):
        if isinstance(n, ast.Name) and n.id == fname and isinstance(n.ctx, ast.Load):
            par = n._parent
            if isinstance(par, ast.Compare) and len(par.ops) == 1 and isinstance(par.ops[0], (ast.In, ast.NotIn)) and \
                    par.comparators[0] is n and isinstance(par.left, ast.Name):
                continue
            if isinstance(par, ast.Subscript) and par.value is n and isinstance(par.slice, ast.Name):
                continue
            odd.append("line %d: `%s`" % (n.lineno, src(par)[:60]))
    obs.append(Ob("C14-R5", "check_oracle:diagnostics-looked-up-by-exact-path", _w(co), fname is not None and not odd,
                  "the map returned by analyze_compiler_output may only be consulted as `<path> in failed` / `failed[<path>]` "
                  "with the program's own path (a suffix / fuzzy lookup moves one file's verdict to another): %s" % odd))
    for lang, (comp, _t) in sorted(_lang_tables(repo).items()):
        init = comp.methods.get("__init__")
        joins = [n for n in iter_own_nodes(init.node) if isinstance(n, ast.Call) and
                 src(n.func) == "os.path.join"] if init else []
        ok = True
        if joins:
            p = [src(a) for a in joins[0].args]
            ok = len(p) == 3 and p[0] == init.params[1] and p[1] == "'*'" and p[2].startswith("'*.")
        obs.append(Ob("C14-R5", "%s:input-is-<src>/<package>/<file>" % comp.name, _w(comp), ok,
                      "compiler input must be <src>/*/*.<ext> (one directory level = the package) or the directory itself"))
    return obs


CRASH_MARKERS = {"java": "java.lang", "kotlin": "org.jetbrains.", "groovy": "at org.codehaus.groovy", "scala": "at dotty"}


def r6_crash_pattern(repo):
    obs = []
    for lang, (comp, _t) in sorted(_lang_tables(repo).items()):
        pat, flags, toks = _regex(comp, "CRASH_REGEX")
        tree = R.parse(pat, flags)
        anchors = [str(op) for op, av in tree if str(op) == "AT"]
        marker = CRASH_MARKERS[lang]
        plain = pat.replace("\\", "")
        i = plain.find(marker)
        lead = plain[:i] if i >= 0 else plain
        lead_ok = i >= 0 and all(ch in "(.*?" for ch in lead)
        first = (i, i, marker) if i >= 0 else None
        ok = not anchors and lead_ok
        obs.append(Ob("C14-R6", "%s:crash-pattern-finds-the-marker-anywhere" % lang, _w(comp), ok,
                      "CRASH_REGEX of %s must be an unanchored search for the stack-trace marker %r (it may be preceded by "
                      "other text on the line, e.g. `Exception in thread \"main\" java.lang...` or `Caused by: ...`): anchors %s, "
                      "first mandatory literal %r" % (comp.name, marker, anchors, first[2] if first else None), {"pattern": pat}))
    f = repo.method("src.compilers.base.BaseCompiler", "analyze_compiler_output", inherited=False)
    cs = [c for c in calls_in(f.node) if src(c.func) in ("re.search", "re.match", "re.fullmatch") and
          c.args and src(c.args[0]) == "self.CRASH_REGEX"]
    obs.append(Ob("C14-R6", "crash-pattern-applied-with-re.search-to-the-whole-output", _w(f),
                  len(cs) == 1 and src(cs[0].func) == "re.search" and src(cs[0].args[1]) == f.params[1] and len(cs[0].args) == 2,
                  "the crash test must be re.search(self.CRASH_REGEX, output)"))
    # every other marker test of a compiler class on the output (Groovy's stack-overflow marker): the output is many
    # lines long and a marker is never known to start it, so an anchored re.match / re.fullmatch loses the crash
    for qual, ci in sorted(repo.classes.items()):
        if not qual.startswith("src.compilers."):
            continue
        for name, m in sorted(ci.methods.items()):
            for c in calls_in(m.node):
                fn = src(c.func)
                if fn not in ("re.search", "re.match", "re.fullmatch") or len(c.args) < 2:
                    continue
                if src(c.args[0]) == "self.CRASH_REGEX" and qual == "src.compilers.base.BaseCompiler":
                    continue
                if not (isinstance(c.args[0], ast.Attribute) and c.args[0].attr.endswith("_REGEX")):
                    continue
                obs.append(Ob("C14-R6", "%s.%s:%s-searched-anywhere-in-the-output" % (ci.node.name, name, c.args[0].attr),
                              _w(m, c), fn == "re.search",
                              "`%s`: a marker of the compiler's output must be looked for with re.search (the output has many "
                              "lines; the marker need not start it)" % src(c)))
    return obs


def r7_minimal_diagnostics(repo):
    obs = []
    for lang, (comp, _t) in sorted(_lang_tables(repo).items()):
        pat, flags, toks = _regex(comp, "ERROR_REGEX")
        for i, (w, why) in enumerate(WITNESSES[lang]):
            ok = R.may_match(toks, w)
            obs.append(Ob("C14-R7", "%s:minimal-diagnostic#%d-not-excluded" % (lang, i), _w(comp), ok,
                          "the mandatory part of ERROR_REGEX (literals and character classes; optional parts relaxed to "
                          "anything) must be able to match the minimal diagnostic %r (%s); mandatory literal runs: %s"
                          % (w, why, [t for _a, _b, t in R.literal_runs(toks)]), {"pattern": pat}))
    return obs


def _only_trimmed(e, var):
    """e is `var` wrapped in strip()/rstrip()/lstrip() calls only"""
    while isinstance(e, ast.Call) and isinstance(e.func, ast.Attribute) and e.func.attr in ("strip", "rstrip", "lstrip") and \
            not e.keywords and all(isinstance(a, ast.Constant) and isinstance(a.value, str) and not a.value.strip()
                                   for a in e.args):
        e = e.func.value
    return isinstance(e, ast.Name) and e.id == var


def r8_patterns_verbatim(repo):
    """'Messages matching a user-supplied filter pattern are disregarded': the pattern the user wrote is the pattern that
    is applied.  Between the file and `re.sub` a line may only lose surrounding white space: a case change turns `\\S`
    into `\\s` and `Type mismatch` into a pattern that matches nothing, an escape makes it a literal."""
    obs = []
    f = repo.fn("src.utils.path2set")
    comps = [n for n in iter_own_nodes(f.node) if isinstance(n, (ast.SetComp, ast.ListComp, ast.GeneratorExp))]
    adds = [k for k in calls_in(f.node) if call_name(k) in ("add", "append")]
    ok, found = False, "no comprehension / loop over the lines"
    if len(comps) == 1 and not adds:
        c = comps[0]
        var = src(c.generators[0].target)
        ifs = [i for g in c.generators for i in g.ifs]
        ifs_ok = all(_only_trimmed(i, var) or (isinstance(i, ast.UnaryOp) and False) for i in ifs)
        ok = len(c.generators) == 1 and _only_trimmed(c.elt, var) and ifs_ok
        found = "element `%s`%s" % (src(c.elt), (" if " + " if ".join(src(i) for i in ifs)) if ifs else "")
    elif adds and not comps:
        loops = [n for n in iter_own_nodes(f.node) if isinstance(n, ast.For)]
        if len(loops) == 1:
            var = src(loops[0].target)
            ok = all(len(k.args) == 1 and _only_trimmed(resolve_local(f.node, k.args[0], k), var) for k in adds)
            found = "adds %s" % [src(k) for k in adds]
    obs.append(Ob("C14-R8", "path2set:lines-only-trimmed", _w(f), ok,
                  "every line of the pattern file must reach the set as written, at most stripped of surrounding white "
                  "space; found %s" % found))
    init = repo.method("src.compilers.base.BaseCompiler", "__init__", inherited=False)
    st = [n for n in iter_own_nodes(init.node) if isinstance(n, ast.Assign) and
          src(n.targets[0]) == init.params[0] + ".filter_patterns"]
    ok = len(st) == 1 and all(isinstance(x, (ast.Name, ast.Constant, ast.BoolOp, ast.Or, ast.Load, ast.List, ast.IfExp,
                                           ast.Compare, ast.Is, ast.IsNot, ast.Tuple, ast.Set))
                              for x in ast.walk(st[0].value))
    obs.append(Ob("C14-R8", "BaseCompiler.__init__:patterns-stored-as-given", _w(init), ok,
                  "self.filter_patterns must be the constructor's argument (or an empty default): %s"
                  % [src(s_.value) for s_ in st]))
    return obs


def rules():
    return [
        RuleSpec("C14-R1", "file group: returned by get_filename, extension, path alphabet", 12, r1_file_group),
        RuleSpec("C14-R2", "mandatory severity literal (warnings/notes cannot match)", 4, r2_severity),
        RuleSpec("C14-R3", "message group distinct from file group", 4, r3_message_group),
        RuleSpec("C14-R4", "order of operations in analyze_compiler_output / check_oracle", 9, r4_order),
        RuleSpec("C14-R5", "oracle key = path the compiler is given", 11, r5_lookup_key),
        RuleSpec("C14-R6", "crash pattern: unanchored search for the stack-trace marker", 5, r6_crash_pattern),
        RuleSpec("C14-R7", "mandatory part of each pattern admits the compiler's minimal diagnostics", 5, r7_minimal_diagnostics),
        RuleSpec("C14-R8", "filter patterns are applied as the user wrote them", 2, r8_patterns_verbatim),
    ]


# -- variants --------------------------------------------------------------------

def _set_regex(cls, name, fn):
    def edit(tree):
        c = V.find_def(tree, cls)
        for st in c.body:
            if isinstance(st, ast.Assign) and st.targets[0].id == name:
                k = st.value.args[0]
                new = fn(k.value)
                if new == k.value:
                    raise V.SkipVariant("pattern unchanged")
                k.value = new
                return
        raise V.SkipVariant("no " + name)
    return edit


def _v_filename_idx(tree):
    f = V.find_def(tree, "JavaCompiler.get_filename")
    f.body[-1].value.slice = ast.Constant(value=1)


def _v_findall_unfiltered(tree):
    f = V.find_def(tree, "BaseCompiler.analyze_compiler_output")
    c = V.one([n for n in ast.walk(f) if V.is_call_named(n, "findall")])
    c.args[1] = ast.Name(id="output", ctx=ast.Load())


def _v_crash_after(tree):
    f = V.find_def(tree, "BaseCompiler.analyze_compiler_output")
    iff = V.one([n for n in f.body if isinstance(n, ast.If) and "crash" in ast.unparse(n.test)])
    f.body.remove(iff)
    f.body.insert(len(f.body) - 1, iff)


def _v_dst_file_incorrect_name(tree):
    f = V.find_def(tree, "process_ncp_transformations")
    st = V.one([n for n in ast.walk(f) if isinstance(n, ast.Assign) and ast.unparse(n.targets[0]) == "dst_file"])
    st.value.args[2] = V.parse_expr("translator.get_incorrect_filename()")


def _v_groovy_crash_always(tree):
    f = V.find_def(tree, "GroovyCompiler.analyze_compiler_output")
    iff = V.one([n for n in ast.walk(f) if isinstance(n, ast.If)])
    iff.test = V.parse_expr("stack_overflow")


def _v_use_failed_before_crash(tree):
    f = V.find_def(tree, "check_oracle")
    iff = V.one([n for n in f.body if isinstance(n, ast.If) and ast.unparse(n.test) == "compiler.crash_msg"])
    V.insert_before(tree, iff, V.parse_stmts("nfailed = len(failed)"))


def _v_sub_count(tree):
    f = V.find_def(tree, "BaseCompiler.analyze_compiler_output")
    c = V.one([n for n in ast.walk(f) if V.is_call_named(n, "sub")])
    c.args.append(V.parse_expr("re.MULTILINE"))


def _v_fuzzy_lookup(tree):
    f = V.find_def(tree, "check_oracle")
    cmp_ = V.one([n for n in ast.walk(f) if isinstance(n, ast.Compare) and ast.unparse(n) == "program in failed"])
    V.replace_node(tree, cmp_, V.parse_expr("any(k.endswith(os.path.basename(os.path.dirname(program)) + '/' + os.path.basename(program)) for k in failed)"))


def _t_kotlin_rename(tree):
    f = V.find_def(tree, "BaseCompiler.analyze_compiler_output")
    V.rename_local(f, "filtered_output", "text")
    V.rename_local(f, "match", "m")


def variants():
    return [
        V.Variant("java: drop error: literal", "src/compilers/java.py",
                  _set_regex("JavaCompiler", "ERROR_REGEX", lambda p: p.replace("error:[ ]+", "")), {"C14-R2"}),
        V.Variant("kotlin: accept warning too", "src/compilers/kotlin.py",
                  _set_regex("KotlinCompiler", "ERROR_REGEX", lambda p: p.replace("error:", "(?:error|warning):")), {"C14-R2"}),
        V.Variant("scala: severity optional", "src/compilers/scala.py",
                  _set_regex("ScalaCompiler", "ERROR_REGEX", lambda p: p.replace("Error: ", "(?:Error: )?")), {"C14-R2"}),
        V.Variant("kotlin: file group loses '/'", "src/compilers/kotlin.py",
                  _set_regex("KotlinCompiler", "ERROR_REGEX", lambda p: p.replace("\\/_", "_")), {"C14-R1"}),
        V.Variant("groovy: file group matches .java", "src/compilers/groovy.py",
                  _set_regex("GroovyCompiler", "ERROR_REGEX", lambda p: p.replace(".groovy", ".java")), {"C14-R1"}),
        V.Variant("java: get_filename returns match[1]", "src/compilers/java.py", _v_filename_idx, {"C14-R1", "C14-R3"}),
        V.Variant("findall on unfiltered output", "src/compilers/base.py", _v_findall_unfiltered, {"C14-R4"}),
        V.Variant("crash test after parsing", "src/compilers/base.py", _v_crash_after, {"C14-R4"}),
        V.Variant("groovy: stack overflow overrides diagnostics", "src/compilers/groovy.py", _v_groovy_crash_always, {"C14-R4"}),
        V.Variant("check_oracle touches failed before crash test", "hephaestus.py", _v_use_failed_before_crash, {"C14-R4"}),
        V.Variant("ncp oracle key uses incorrect filename", "hephaestus.py", _v_dst_file_incorrect_name, {"C14-R5"}),
        V.Variant("re.sub with a 4th positional argument (count)", "src/compilers/base.py", _v_sub_count, {"C14-R4"}),
        V.Variant("java: crash pattern anchored at line start", "src/compilers/java.py",
                  _set_regex("JavaCompiler", "CRASH_REGEX", lambda p: "^" + p), {"C14-R6"}),
        V.Variant("check_oracle looks files up by path suffix", "hephaestus.py", _v_fuzzy_lookup, {"C14-R5"}),
        V.Variant("twin: rename locals in analyze_compiler_output", "src/compilers/base.py", _t_kotlin_rename, None, twin=True),
        V.Variant("twin: whole tree reformatted by ast.unparse", None, None, None, twin=True),
    ]
