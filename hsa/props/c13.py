"""C13 - saved programs replay faithfully (pickle-safety part)."""
import ast

from ..repo import AnalysisError
from ..report import Ob, RuleSpec
from ..astutil import (src, flat_guards, calls_in, call_name, kwarg, const_value,
                       iter_own_nodes, ancestors, is_within)
from ..cfg import cfg_of, Prov
from .. import variants as V
from .. import kernel

PROPERTY = "C13"
TITLE = "Saved programs replay faithfully"
DECIDES = ("Decided: the structural conditions under which Python's default pickling is an isomorphism of the "
           "program's object graph (every IR class is top-level, uses default pickling, stores no lambda / generator "
           "/ iterator / file / lock / thread / locally-defined function in an instance, custom __hash__ does not use "
           "id()), the symmetric dump/load codec, that text and .bin are written from the same program object, and "
           "that --replay goes through load_program.")
NOT_DECIDED = ("equality of translations / mutations on the reloaded program (follows from graph isomorphism only "
               "if nothing in the pipeline depends on id()-ordered sets or on __hash__ being callable before an "
               "object's state is restored inside a reference cycle).")

IR_MODULES = ["src.ir.ast", "src.ir.types", "src.ir.builtins", "src.ir.java_types", "src.ir.kotlin_types",
              "src.ir.groovy_types", "src.ir.scala_types", "src.ir.context", "src.ir.node", "src.ir.keywords"]
PICKLE_HOOKS = {"__reduce__", "__reduce_ex__", "__getstate__", "__setstate__", "__getnewargs__",
                "__getnewargs_ex__", "__slots__", "__copyreg__"}
UNPICKLABLE_CALLS = {"iter", "open", "Lock", "RLock", "Thread", "Event", "Condition", "Semaphore",
                     "socket", "Popen", "TemporaryFile", "NamedTemporaryFile"}


def _w(x, node=None):
    return "%s:%d" % (x.module.relpath, (node or x.node).lineno)


def _unpicklable(expr, fi=None):
    """Why the value of expr cannot be pickled by default (None if no structural reason)."""
    if isinstance(expr, ast.Lambda):
        return "a lambda"
    if isinstance(expr, ast.GeneratorExp):
        return "a generator"
    if isinstance(expr, ast.Call):
        n = call_name(expr)
        if n in UNPICKLABLE_CALLS:
            return "the result of %s()" % n
        for a in list(expr.args) + [k.value for k in expr.keywords]:
            why = _unpicklable(a, fi)
            if why and n in ("defaultdict", "partial", "dict", "list", "tuple", "set", "OrderedDict"):
                return "%s(...) holding %s" % (n, why)
    if isinstance(expr, (ast.List, ast.Tuple, ast.Set)):
        for e in expr.elts:
            why = _unpicklable(e, fi)
            if why:
                return "a container holding " + why
    if isinstance(expr, ast.Dict):
        for e in expr.values:
            why = _unpicklable(e, fi)
            if why:
                return "a dict holding " + why
    if isinstance(expr, ast.Name) and fi is not None:
        f = fi
        while f is not None:
            if expr.id in f.nested:
                return "the locally defined function %s" % expr.id
            f = f.outer
    return None


def r1_codec(repo):
    obs = []
    d = repo.fn("src.utils.dump_program")
    l = repo.fn("src.utils.load_program")

    def with_open(f, mode):
        ws = [n for n in iter_own_nodes(f.node) if isinstance(n, ast.With)]
        if len(ws) != 1:
            return None, None
        it = ws[0].items[0]
        c = it.context_expr
        if isinstance(c, ast.Call) and src(c.func) == "open" and len(c.args) >= 2 and \
                const_value(c.args[1]) == mode and src(c.args[0]) == f.params[0]:
            return ws[0], src(it.optional_vars)
        return None, None
    w, fh = with_open(d, "wb")
    calls = [c for c in calls_in(d.node) if src(c.func).startswith("pickle.")]
    ok = w is not None and len(calls) == 1 and src(calls[0].func) == "pickle.dump" and \
        [src(a) for a in calls[0].args] == [d.params[1], fh] and not calls[0].keywords
    obs.append(Ob("C13-R1", "dump_program:pickle.dump(program, file opened 'wb')", _w(d), ok,
                  "dump_program must pickle the whole program object, default protocol, to the given path; found %s"
                  % [src(c) for c in calls]))
    w, fh = with_open(l, "rb")
    calls = [c for c in calls_in(l.node) if src(c.func).startswith("pickle.")]
    rets = [n for n in iter_own_nodes(l.node) if isinstance(n, ast.Return)]
    ok = w is not None and len(calls) == 1 and src(calls[0].func) == "pickle.load" and \
        [src(a) for a in calls[0].args] == [fh] and not calls[0].keywords and \
        len(rets) == 1 and rets[0].value is calls[0]
    obs.append(Ob("C13-R1", "load_program:pickle.load(file opened 'rb')", _w(l), ok,
                  "load_program must return pickle.load of the file; found %s" % [src(c) for c in calls]))
    for f_ in (d, l):
        obs.append(Ob("C13-R1", "%s:undecorated" % f_.name, _w(f_), not f_.decorators,
                      "%s must not be wrapped (a cache on load_program hands out the already-mutated object for the same "
                      "path; programs are mutated in place): decorators %s" % (f_.name, [src(x) for x in f_.decorators])))
    return obs


def r2_same_object(repo):
    obs = []
    sp = repo.fn("hephaestus.save_program")
    p = sp.params
    texts = [c for c in calls_in(sp.node) if call_name(c) == "save_text"]
    dumps = [c for c in calls_in(sp.node) if call_name(c) == "dump_program"]
    ok = len(texts) == 1 and len(dumps) == 1 and not flat_guards(texts[0]) and not flat_guards(dumps[0]) and \
        [src(a) for a in texts[0].args] == [p[2], p[1]] and \
        src(dumps[0].args[1]) == p[0] and src(dumps[0].args[0]).replace(" ", "") == p[2] + "+'.bin'"
    obs.append(Ob("C13-R2", "save_program:text-and-bin-side-by-side", _w(sp), ok,
                  "save_program(program, text, file) must write text to file and dump program to file + '.bin', "
                  "both unconditionally"))
    sites = []
    for f in repo.module("hephaestus").functions.values():
        for c in calls_in(f.node):
            if isinstance(c.func, ast.Name) and c.func.id == "save_program":
                sites.append((f, c))
    for f, c in sites:
        prog, text = c.args[0], c.args[1]
        ok = isinstance(prog, ast.Name)
        msg = "first argument is not a local name"
        if ok:
            prov = Prov(f.node)
            if isinstance(text, ast.Call):
                tdefs = [text]
            elif isinstance(text, ast.Name):
                tdefs = [d[1] for d in cfg_of(f.node).defs_reaching(text.id, c)]
            else:
                tdefs = [None]
            bad = []
            for td in tdefs:
                if isinstance(td, ast.Constant) and td.value is None:
                    # initial `program_str = None`: must not reach the call un-overwritten
                    bad.append("None may reach the save")
                    continue
                if not (isinstance(td, ast.Call) and call_name(td) == "translate_program" and
                        len(td.args) == 2 and src(td.args[1]) == prog.id):
                    bad.append(src(td) if isinstance(td, ast.AST) else str(td))
            # a None initialiser is fine when a dominating `if text is None: text = translate(...)` exists
            if bad == ["None may reach the save"] and isinstance(text, ast.Name):
                g = cfg_of(f.node)
                fix = [n for n in iter_own_nodes(f.node) if isinstance(n, ast.If) and
                       src(n.test) == "%s is None" % text.id and
                       any(isinstance(s, ast.Assign) and src(s.targets[0]) == text.id for s in n.body)]
                if fix and g.dominates(g.node(fix[0]), g.node(c)):
                    bad = []
                    # precise: the None def cannot reach past the fix
            elif "None may reach the save" in bad and isinstance(text, ast.Name):
                g = cfg_of(f.node)
                fix = [n for n in iter_own_nodes(f.node) if isinstance(n, ast.If) and
                       src(n.test) == "%s is None" % text.id and
                       any(isinstance(s, ast.Assign) and src(s.targets[0]) == text.id for s in n.body)]
                if fix and g.dominates(g.node(fix[0]), g.node(c)):
                    bad.remove("None may reach the save")
            ok = not bad
            msg = ("the text saved next to the .bin must be translate_program(translator, %s) of the very object that "
                   "is dumped; offending definitions: %s" % (prog.id, bad))
        key = "%s:save_program(%s, %s, ...)#%d" % (f.name, src(prog), src(text)[:40],
                                                  [x[1] for x in sites if x[0] is f].index(c))
        obs.append(Ob("C13-R2", key, _w(f, c), ok, msg))
    gp = repo.method("src.modules.processor.ProgramProcessor", "get_program", inherited=False)
    rets = [n for n in iter_own_nodes(gp.node) if isinstance(n, ast.Return) and
            ("self.args.replay", True) in [(src(t), p_) for t, p_ in flat_guards(n)]]
    ok = len(rets) == 1 and isinstance(rets[0].value, ast.Tuple) and \
        src(rets[0].value.elts[0]) == "load_program(self.args.replay)"
    tgt = repo.resolve_name_expr(ast.parse("load_program").body[0].value, gp.module)
    ok = ok and tgt is repo.fn("src.utils.load_program")
    obs.append(Ob("C13-R2", "get_program:replay-loads-the-dump", _w(gp), ok,
                  "--replay must return src.utils.load_program(self.args.replay)"))
    return obs


def _ir_classes(repo):
    out = []
    for mn in IR_MODULES:
        m = repo.module(mn)
        for c in repo.classes.values():
            if c.module is m:
                out.append(c)
    return out


def r3_default_pickling(repo):
    obs = []
    classes = _ir_classes(repo)
    for c in sorted(classes, key=lambda c: c.qualname):
        problems = []
        if c.qualname != c.module.name + "." + c.name:
            problems.append("not a top-level class (pickle stores classes by qualified module name)")
        hooks = sorted((set(c.methods) | set(c.constants)) & PICKLE_HOOKS)
        if hooks:
            problems.append("defines %s (custom pickling can drop or alter state)" % hooks)
        for m in c.methods.values():
            for n in iter_own_nodes(m.node):
                if isinstance(n, ast.Assign):
                    for t in n.targets:
                        if isinstance(t, ast.Attribute) and isinstance(t.value, ast.Name) and t.value.id == "self":
                            why = _unpicklable(n.value, m)
                            if why:
                                problems.append("%s stores %s in self.%s (line %d)" % (m.name, why, t.attr, n.lineno))
        for k, v in c.constants.items():
            pass  # class attributes are not pickled per instance
        obs.append(Ob("C13-R3", "class:" + c.qualname, _w(c), not problems, "; ".join(problems)))
    # classes defined inside functions of IR modules
    for mn in IR_MODULES:
        m = repo.module(mn)
        for n in ast.walk(m.tree):
            if isinstance(n, ast.ClassDef) and any(isinstance(a, (ast.FunctionDef, ast.AsyncFunctionDef))
                                                   for a in ancestors(n)):
                obs.append(Ob("C13-R3", "local-class:%s.%s" % (mn, n.name), "%s:%d" % (m.relpath, n.lineno), False,
                              "class defined inside a function cannot be pickled"))
    # tainted helper classes (anywhere) must not be stored inside IR objects
    tainted = {}
    for c in repo.classes.values():
        if c in classes:
            continue
        for m in c.methods.values():
            for n in iter_own_nodes(m.node):
                if isinstance(n, ast.Assign) and any(
                        isinstance(t, ast.Attribute) and isinstance(t.value, ast.Name) and t.value.id == "self"
                        for t in n.targets):
                    why = _unpicklable(n.value, m)
                    if why:
                        tainted[c.qualname] = (c, why)
    stored = []
    for f in repo.functions.values():
        in_ir = f.cls is not None and f.cls in classes
        for n in iter_own_nodes(f.node):
            if not isinstance(n, ast.Assign):
                continue
            for t in n.targets:
                if not isinstance(t, ast.Attribute):
                    continue
                is_self = isinstance(t.value, ast.Name) and t.value.id == "self"
                if is_self and not in_ir:
                    continue
                why = None
                if isinstance(n.value, ast.Call):
                    tgt = repo.resolves_to_class(n.value.func, f.module, f)
                    if tgt is not None and tgt.qualname in tainted:
                        why = "an instance of %s (which holds %s)" % (tgt.name, tainted[tgt.qualname][1])
                if why is None and not is_self:
                    why = _unpicklable(n.value, f)
                if why:
                    stored.append((f, n, why))
    for f, n, why in stored:
        obs.append(Ob("C13-R3", "store:%s:%s" % (f.qualname, src(n.targets[0])), _w(f, n), False,
                      "stores %s into an attribute of an object that may belong to the program" % why))
    obs.append(Ob("C13-R3", "no-unpicklable-value-attached-to-IR-objects", "src/", not stored,
                  "%d stores of unpicklable values into IR objects / foreign attributes; helper classes holding "
                  "unpicklable state: %s" % (len(stored), sorted(tainted))))
    return obs


REPLAYED = ["src.transformations.type_erasure.TypeErasure", "src.transformations.type_overwriting.TypeOverwriting",
            "src.translators.java.JavaTranslator", "src.translators.kotlin.KotlinTranslator",
            "src.translators.groovy.GroovyTranslator", "src.translators.scala.ScalaTranslator"]


def r5_process_state(repo):
    """A replay happens in a fresh process; the original run did not.  The two agree only if what the mutations and the
    translators compute does not depend on what the process did before."""
    from ..irwrites import closure_effects
    obs = []
    for q in REPLAYED:
        cls = repo.cls(q)
        E, fns, _effs = closure_effects(repo, cls)
        obs += kernel.process_state(repo, "C13-R5", cls.name, E, fns)
    return obs


def r4_hash(repo):
    obs = []
    for c in sorted(_ir_classes(repo), key=lambda c: c.qualname):
        for name in ("__hash__", "__eq__"):
            h = c.methods.get(name)
            if h is None:
                continue
            bad = [src(n) for n in iter_own_nodes(h.node) if isinstance(n, ast.Call) and
                   isinstance(n.func, ast.Name) and n.func.id in ("id", "object")]
            # identity comparison of attribute values (`self.variance is other.variance`): equal objects are distinct
            # after a round trip (also module-level constants: pickle rebuilds instances of ordinary classes);
            # `x is None` and the `self is other` shortcut stay allowed
            for n in iter_own_nodes(h.node):
                if isinstance(n, ast.Compare) and any(isinstance(o, (ast.Is, ast.IsNot)) for o in n.ops):
                    operands = [n.left] + list(n.comparators)
                    if any(isinstance(x, ast.Constant) for x in operands):
                        continue
                    if all(isinstance(x, ast.Name) for x in operands):
                        continue
                    if all((isinstance(x, ast.Attribute) and x.attr == "__class__") or
                           (isinstance(x, ast.Call) and src(x.func) == "type") for x in operands):
                        continue    # classes are pickled by reference
                    bad.append(src(n))
            sup = [n for n in iter_own_nodes(h.node) if isinstance(n, ast.Call) and
                   src(n.func).startswith("object.__")]
            stores = [src(n)[:50] for n in iter_own_nodes(h.node)
                      if isinstance(n, (ast.Assign, ast.AugAssign)) and any(
                          isinstance(t, (ast.Attribute, ast.Subscript)) for t in
                          (n.targets if isinstance(n, ast.Assign) else [n.target]))]
            obs.append(Ob("C13-R4", "%s.%s" % (c.qualname, name), _w(h), not bad and not sup and not stores,
                          "%s must be computed from pickled attributes, not from object identity, and must not memoise its "
                          "result in the object (a cached str-hash is pickled and is stale in the replaying process, whose "
                          "hash salt differs); found %s %s" % (name, bad + [src(s) for s in sup], stores)))
    return obs


def _positive_example():
    t = ast.parse("class A:\n    def __init__(self):\n        self.f = lambda x: x\n        self.g = (i for i in [])\n        self.h = defaultdict(lambda: 1)\n")
    vals = [n.value for n in ast.walk(t) if isinstance(n, ast.Assign)]
    if [bool(_unpicklable(v)) for v in vals] != [True, True, True]:
        raise AnalysisError("positive example for unpicklable detection failed", rule="C13-R3")


def r3_wrapped(repo):
    _positive_example()
    return r3_default_pickling(repo)


def rules():
    return [
        RuleSpec("C13-R1", "symmetric codec dump_program / load_program", 4, r1_codec),
        RuleSpec("C13-R2", "text and .bin written from one object; replay loads the dump", 9, r2_same_object),
        RuleSpec("C13-R3", "default pickling for every IR class, no unpicklable state", 120, r3_wrapped),
        RuleSpec("C13-R4", "__hash__/__eq__ survive a round trip (no identity)", 8, r4_hash),
        RuleSpec("C13-R5", "no state survives in function defaults or class bodies (mutations, translators)", 12,
                 r5_process_state),
    ]


# -- variants ---------------------------------------------------------------------

def _v_dump_context_only(tree):
    f = V.find_def(tree, "dump_program")
    c = V.one([n for n in ast.walk(f) if V.is_call_named(n, "dump")])
    c.args[0] = V.parse_expr("program.context")


def _v_getstate(tree):
    c = V.find_def(tree, "VariableDeclaration")
    c.body.extend(V.parse_stmts(
        "def __getstate__(self):\n    d = dict(self.__dict__)\n    d.pop('inferred_type', None)\n    return d\n"))


def _v_lambda_on_node(tree):
    f = V.find_def(tree, "FunctionDeclaration.__init__")
    f.body.extend(V.parse_stmts("self._namer = lambda: self.name"))


def _v_gen_attaches_lambda(tree):
    f = V.find_def(tree, "Generator.gen_variable_decl")
    r = V.one([n for n in ast.walk(f) if isinstance(n, ast.Return)])
    V.insert_before(tree, r, V.parse_stmts("var_decl = %s\nvar_decl.origin = lambda: self.namespace" % ast.unparse(r.value)))
    r.value = V.parse_expr("var_decl")


def _v_idgen_in_context(tree):
    f = V.find_def(tree, "Context.__init__")
    f.body.extend(V.parse_stmts("self._ids = utils.IdGen()"))


def _v_hash_id(tree):
    f = V.find_def(tree, "TypeParameter.__hash__")
    f.body[-1].value = V.parse_expr("hash(id(self))")


def _v_text_of_other_program(tree):
    f = V.find_def(tree, "process_ncp_transformations")
    st = [n for n in ast.walk(f) if isinstance(n, ast.Assign) and ast.unparse(n.targets[0]) == "program_str"]
    if not st:
        raise V.SkipVariant("program_str")
    # translate before the fault is injected
    first = V.one([n for n in f.body if "inject_fault" in ast.unparse(n)])
    V.insert_before(tree, first, V.parse_stmts("original = program"))
    st[-1].value.args[1] = ast.Name(id="original", ctx=ast.Load())


def _v_replay_regenerates(tree):
    f = V.find_def(tree, "ProgramProcessor.get_program")
    r = V.one([n for n in ast.walk(f) if isinstance(n, ast.Return) and "load_program" in ast.unparse(n)])
    r.value = V.parse_expr("self.generate_program()")


def _v_protocol_asym(tree):
    f = V.find_def(tree, "load_program")
    c = V.one([n for n in ast.walk(f) if V.is_call_named(n, "load")])
    c.keywords.append(ast.keyword(arg="fix_imports", value=ast.Constant(value=False)))


def _v_cached_load(tree):
    f = V.find_def(tree, "load_program")
    tree.body.insert(0, V.parse_stmts("import functools")[0])
    f.decorator_list.append(V.parse_expr("functools.lru_cache(maxsize=None)"))


def _v_cached_hash(tree):
    f = V.find_def(tree, "Builtin.__hash__")
    f.body = V.parse_stmts("h = getattr(self, '_hash', None)\nif h is None:\n    h = hash(str(self.__class__))\n    self._hash = h\nreturn h")


def _t_rename(tree):
    f = V.find_def(tree, "process_cp_transformations")
    V.rename_local(f, "program_str", "text")


def variants():
    return [
        V.Variant("dump only program.context", "src/utils.py", _v_dump_context_only, {"C13-R1"}),
        V.Variant("load with asymmetric option", "src/utils.py", _v_protocol_asym, {"C13-R1"}),
        V.Variant("__getstate__ dropping inferred_type", "src/ir/ast.py", _v_getstate, {"C13-R3"}),
        V.Variant("lambda stored on FunctionDeclaration", "src/ir/ast.py", _v_lambda_on_node, {"C13-R3"}),
        V.Variant("generator attaches a lambda to a node", "src/generators/generator.py", _v_gen_attaches_lambda, {"C13-R3"}),
        V.Variant("Context holds an IdGen (defaultdict(lambda))", "src/ir/context.py", _v_idgen_in_context, {"C13-R3"}),
        V.Variant("TypeParameter.__hash__ uses id()", "src/ir/types.py", _v_hash_id, {"C13-R4"}),
        V.Variant("ncp text translated from the pre-mutation program", "hephaestus.py", _v_text_of_other_program, {"C13-R2"}),
        V.Variant("--replay regenerates instead of loading", "src/modules/processor.py", _v_replay_regenerates, {"C13-R2"}),
        V.Variant("load_program cached per path", "src/utils.py", _v_cached_load, {"C13-R1"}),
        V.Variant("Builtin.__hash__ memoises a salted hash in the instance", "src/ir/types.py", _v_cached_hash, {"C13-R4"}),
        V.Variant("twin: rename program_str", "hephaestus.py", _t_rename, None, twin=True),
        V.Variant("twin: whole tree reformatted by ast.unparse", None, None, None, twin=True),
    ]
