"""C16 - the symbol table behaves like a scoped map (table-agreement part)."""
import ast
import re

from ..repo import AnalysisError
from ..report import Ob, RuleSpec
from ..astutil import (src, guards, flat_guards, calls_in, call_name, kwarg,
                       const_value, iter_own_nodes, norm_key, is_within, ancestors)
from ..cfg import cfg_of, Prov, resolve_local
from .. import variants as V

PROPERTY = "C16"
TITLE = "The symbol table behaves like a scoped map"
DECIDES = ("Decided: the pairing of writers, removers and readers of Context over the entity "
           "kinds, the two-maps-in-step discipline of _add_entity/_remove_entity (any further state attribute must be "
           "touched by every method that changes the entity table), the "
           "inner-to-outer walk of get_decl, the ordered 'decls' kind and the three query modes "
           "of _get_declarations, all as shapes of src/ir/context.py. Also: add_x writes on every call (a guard may only skip when the stored entry is the very declaration); every map a query merges into is created by that query (never a map handed out by the table).")
NOT_DECIDED = ("the map laws over arbitrary add/remove histories (a data-structure property over "
               "sequences of values).")

CTX = "src.ir.context.Context"


def _where(repo, fi, node=None):
    return "%s:%d" % (fi.module.relpath, (node or fi.node).lineno)


def _entity_literal(repo):
    fi = repo.method(CTX, "_add_entity", inherited=False)
    lits = [n for n in iter_own_nodes(fi.node) if isinstance(n, ast.Dict) and
            n.keys and all(isinstance(k, ast.Constant) and isinstance(k.value, str)
                           for k in n.keys)]
    if len(lits) != 1:
        raise AnalysisError("expected one entity dict literal in _add_entity, found %d"
                            % len(lits), rule="C16-R1", anchor=fi.qualname)
    d = lits[0]
    return fi, d, {k.value: v for k, v in zip(d.keys, d.values)}


def _kinds_of(fi, helper):
    """String kinds passed as 2nd positional arg to self.<helper>(...) in fi."""
    out = []
    for c in calls_in(fi.node):
        if call_name(c) == helper and isinstance(c.func, ast.Attribute) and \
                isinstance(c.func.value, ast.Name) and c.func.value.id == "self":
            if len(c.args) < 2:
                raise AnalysisError("call of %s with <2 args in %s" % (helper, fi.qualname),
                                    rule="C16-R1", anchor=fi.qualname)
            k = const_value(c.args[1])
            if not isinstance(k, str):
                raise AnalysisError("non-literal kind in %s" % fi.qualname,
                                    rule="C16-R1", anchor=fi.qualname)
            out.append(k)
    return out


SINGULAR = {"types": "type", "funcs": "func", "lambdas": "lambda", "vars": "var",
            "classes": "class"}


def r1_entity_table(repo):
    obs = []
    fi_add, lit, kinds = _entity_literal(repo)
    cls = repo.cls(CTX)
    adders = {n[4:]: f for n, f in cls.methods.items() if n.startswith("add_")}
    removers = {n[7:]: f for n, f in cls.methods.items() if n.startswith("remove_") and
                n != "remove_namespace"}
    if not adders:
        raise AnalysisError("no add_* methods", rule="C16-R1", anchor=CTX)
    for x, f in sorted(adders.items()):
        ks = _kinds_of(f, "_add_entity")
        bad = [k for k in ks if k not in kinds]
        obs.append(Ob("C16-R1", "add_%s:kinds-declared" % x, _where(repo, f),
                      bool(ks) and not bad,
                      "add_%s writes kinds %s; entity literal declares %s" % (x, ks, sorted(kinds)),
                      {"kinds": ks}))
        # the write happens on every call: after add_x(ns, name, d) the lookup of name in ns answers d.  A guard is only
        # accepted when it skips the write because the stored entry *is* the declaration being added (identity)
        cond = []
        for c in calls_in(f.node):
            if call_name(c) != "_add_entity":
                continue
            for t, p in flat_guards(c):
                ident = isinstance(t, ast.Compare) and len(t.ops) == 1 and isinstance(t.ops[0], ast.Is) and \
                    any(isinstance(z, ast.Name) and z.id in f.params[-1:] for z in [t.left] + t.comparators)
                if not (ident and not p):
                    cond.append(("" if p else "not ") + src(t))
        obs.append(Ob("C16-R1", "add_%s:writes-on-every-call" % x, _where(repo, f), not cond,
                      "add_%s registers the declaration only under %s; after an add the name must resolve to the added "
                      "declaration whatever was there before" % (x, cond)))
        if x not in removers:
            obs.append(Ob("C16-R1", "add_%s:has-remover" % x, _where(repo, f), False,
                          "no remove_%s for add_%s" % (x, x)))
            continue
        rk = _kinds_of(removers[x], "_remove_entity")
        obs.append(Ob("C16-R1", "remove_%s:same-kinds-as-add" % x,
                      _where(repo, removers[x]),
                      sorted(rk) == sorted(ks) and all(k in kinds for k in rk),
                      "add_%s writes %s, remove_%s deletes %s (must be the same kinds)"
                      % (x, sorted(ks), x, sorted(rk)), {"add": ks, "remove": rk}))
        want_decls = x in ("func", "var", "class")
        obs.append(Ob("C16-R1", "add_%s:decls-registration" % x, _where(repo, f),
                      ("decls" in ks) == want_decls,
                      "add_%s %s register in 'decls' (declaration order map); kinds=%s"
                      % (x, "must" if want_decls else "must not", ks)))
    # getters
    for name, f in sorted(cls.methods.items()):
        if not name.startswith("get_"):
            continue
        ks = _kinds_of(f, "_get_declarations")
        if not ks:
            continue
        plural = name[4:]
        if plural == "declarations":
            ok = ks == ["decls"]
            msg = "get_declarations must read kind 'decls', reads %s" % ks
        elif plural in SINGULAR and SINGULAR[plural] in adders:
            addk = _kinds_of(adders[SINGULAR[plural]], "_add_entity")
            ok = len(ks) == 1 and ks[0] == plural and plural in addk
            msg = "%s reads %s; add_%s writes %s" % (name, ks, SINGULAR[plural], addk)
        else:
            ok = all(k in kinds for k in ks)
            msg = "%s reads %s" % (name, ks)
        obs.append(Ob("C16-R1", "%s:reads-primary-kind" % name, _where(repo, f), ok, msg))
    # direct readers get_decl / get_lambda: the literal kind they index
    for name, want in (("get_decl", "decls"), ("get_lambda", "lambdas")):
        f = cls.methods.get(name)
        if f is None:
            raise AnalysisError("Context.%s missing" % name, rule="C16-R1", anchor=CTX + "." + name)
        strs = [n.value for n in iter_own_nodes(f.node)
                if isinstance(n, ast.Constant) and isinstance(n.value, str) and n.value in kinds]
        obs.append(Ob("C16-R1", "%s:reads-%s" % (name, want), _where(repo, f),
                      strs == [want], "%s indexes kinds %s, expected ['%s']" % (name, strs, want)))
    return obs


def _is_self_attr_subscript_store(target, attr):
    """target is self.<attr>[...]...[...] ; returns list of index exprs outermost-first or None"""
    idx = []
    t = target
    while isinstance(t, ast.Subscript):
        idx.append(t.slice)
        t = t.value
    if isinstance(t, ast.Attribute) and t.attr == attr and isinstance(t.value, ast.Name) \
            and t.value.id == "self":
        return list(reversed(idx))
    return None


def r2_two_maps(repo):
    obs = []
    f = repo.method(CTX, "_add_entity", inherited=False)
    p = f.params
    if len(p) != 5:
        raise AnalysisError("_add_entity signature changed: %s" % p, rule="C16-R2", anchor=f.qualname)
    _self, ns, ent, name, value = p
    g = cfg_of(f.node)
    fwd, rev = [], []
    for st in iter_own_nodes(f.node):
        if isinstance(st, ast.Assign) and len(st.targets) == 1:
            idx = _is_self_attr_subscript_store(st.targets[0], "_context")
            if idx is not None and len(idx) == 3 and [src(i) for i in idx] == [ns, ent, name] \
                    and src(st.value) == value:
                fwd.append(st)
            idx = _is_self_attr_subscript_store(st.targets[0], "_namespaces")
            if idx is not None and len(idx) == 1 and src(idx[0]) == value and src(st.value) == ns:
                rev.append(st)
    fwd_nodes = [g.node(s) for s in fwd]
    covered = bool(fwd_nodes) and not g.path_exists_avoiding(g.entry, g.exit, fwd_nodes)
    obs.append(Ob("C16-R2", "_add_entity:forward-map-on-every-path", _where(repo, f),
                  covered,
                  "every path through _add_entity must store self._context[%s][%s][%s] = %s; stores at lines %s"
                  % (ns, ent, name, value, [s.lineno for s in fwd])))
    rev_nodes = [g.node(s) for s in rev]
    covered = bool(rev_nodes) and not g.path_exists_avoiding(g.entry, g.exit, rev_nodes)
    obs.append(Ob("C16-R2", "_add_entity:reverse-map-on-every-path", _where(repo, f),
                  covered,
                  "every path through _add_entity must store self._namespaces[%s] = %s; stores at lines %s"
                  % (value, ns, [s.lineno for s in rev])))
    # no return before the stores
    rets = [n for n in iter_own_nodes(f.node) if isinstance(n, ast.Return)]
    obs.append(Ob("C16-R2", "_add_entity:no-early-return", _where(repo, f), not rets,
                  "_add_entity has return statements at %s" % [r.lineno for r in rets]))

    # who may write / delete the two maps
    cls = repo.cls(CTX)
    removers, rev_writers = [], []
    for name, m in sorted(cls.methods.items()):
        for n in iter_own_nodes(m.node):
            tgt = None
            if isinstance(n, ast.Delete):
                for t in n.targets:
                    if "self._context" in src(t) or "self._namespaces" in src(t):
                        removers.append((name, " ".join(src(n).split())))
            if isinstance(n, ast.Call) and isinstance(n.func, ast.Attribute) and \
                    n.func.attr in ("pop", "popitem", "clear", "remove", "discard") and \
                    ("self._context" in src(n.func.value) or "self._namespaces" in src(n.func.value)):
                removers.append((name, " ".join(src(n).split())))
            if isinstance(n, (ast.Assign, ast.AugAssign)):
                for t in (n.targets if isinstance(n, ast.Assign) else [n.target]):
                    if src(t).startswith("self._namespaces"):
                        rev_writers.append((name, " ".join(src(n).split())))
    allowed_removers = {("_remove_entity", None), ("remove_namespace", None)}
    bad = [r for r in removers if r[0] not in ("_remove_entity", "remove_namespace")]
    n_rm = [r for r in removers if r[0] == "_remove_entity"]
    obs.append(Ob("C16-R2", "only-the-removers-delete-entries", _where(repo, cls.methods["_add_entity"]),
                  not bad and len(n_rm) == 2,
                  "entries of the two maps may be deleted only by _remove_entity (exactly its two deletes: the forward entry "
                  "and the reverse entry of that very declaration) and remove_namespace; deletions found: %s" % removers))
    badw = [w for w in rev_writers if w[0] not in ("_add_entity", "__init__")]
    obs.append(Ob("C16-R2", "only-_add_entity-writes-the-reverse-map", _where(repo, cls.methods["_add_entity"]), not badw,
                  "stores into self._namespaces outside _add_entity / __init__: %s" % badw))

    # any further state of the table (a cache, an index) is a second copy of the truth: every method that changes the
    # entity table must touch it as well, or lookups answer from stale data after an add / remove
    def touches(m, attr):
        pre = "self." + attr
        for n in iter_own_nodes(m.node):
            if isinstance(n, (ast.Assign, ast.AugAssign)):
                for t in (n.targets if isinstance(n, ast.Assign) else [n.target]):
                    if src(t).startswith(pre):
                        return True
            if isinstance(n, ast.Delete) and any(src(t).startswith(pre) for t in n.targets):
                return True
            if isinstance(n, ast.Call) and isinstance(n.func, ast.Attribute) and src(n.func.value).startswith(pre) and \
                    n.func.attr in ("pop", "popitem", "clear", "remove", "discard", "update", "setdefault", "add",
                                    "append", "extend", "insert"):
                return True
        return False
    state = sorted({t.attr for m in cls.methods.values() for n in iter_own_nodes(m.node)
                    if isinstance(n, (ast.Assign, ast.AugAssign, ast.AnnAssign))
                    for t in (n.targets if isinstance(n, ast.Assign) else [n.target])
                    for t in [t.value if isinstance(t, ast.Subscript) else t]
                    if isinstance(t, ast.Attribute) and src(t.value) == "self"})
    table_mutators = sorted(nm for nm, m in cls.methods.items() if nm != "__init__" and touches(m, "_context"))
    extra = [a for a in state if a not in ("_context", "_namespaces")]
    stale = [(a, nm) for a in extra for nm in table_mutators if not touches(cls.methods[nm], a)]
    obs.append(Ob("C16-R2", "derived-state-updated-by-every-table-mutator", _where(repo, cls.methods["_add_entity"]),
                  not stale and {"_add_entity", "_remove_entity"} <= set(table_mutators),
                  "state attributes of Context: %s; methods that change the entity table: %s; a derived attribute that a "
                  "table mutator does not touch goes stale: %s" % (state, table_mutators, stale)))

    f = repo.method(CTX, "_remove_entity", inherited=False)
    p = f.params
    if len(p) != 4:
        raise AnalysisError("_remove_entity signature changed", rule="C16-R2", anchor=f.qualname)
    _self, ns, ent, name = p
    dels_fwd, dels_rev = [], []
    for st in iter_own_nodes(f.node):
        if isinstance(st, ast.Delete):
            for t in st.targets:
                idx = _is_self_attr_subscript_store(t, "_context")
                if idx is not None and len(idx) == 3 and [src(i) for i in idx] == [ns, ent, name]:
                    dels_fwd.append(st)
                idx = _is_self_attr_subscript_store(t, "_namespaces")
                if idx is not None and len(idx) == 1:
                    dels_rev.append((st, idx[0]))
    ok = len(dels_fwd) == 1
    msg = "exactly one `del self._context[%s][%s][%s]` expected, found %d" % (ns, ent, name, len(dels_fwd))
    if ok:
        gs = flat_guards(dels_fwd[0])
        member = "%s in self._context[%s][%s]" % (name, ns, ent)
        has = any(pol and src(t) == member for t, pol in gs)
        ok = has
        msg = "forward delete must be guarded by `%s`; guards: %s" % (
            member, [(src(t), pol) for t, pol in gs])
    obs.append(Ob("C16-R2", "_remove_entity:forward-delete-guarded", _where(repo, f), ok, msg))
    ok = len(dels_rev) == 1
    msg = "exactly one `del self._namespaces[...]` expected, found %d" % len(dels_rev)
    if ok:
        st, key = dels_rev[0]
        prov = Prov(f.node)
        srcs = [src(s) for s in prov.sources(key) if isinstance(s, ast.AST)]
        want = "self._context[%s][%s][%s]" % (ns, ent, name)
        ok = want in srcs
        msg = "reverse-map delete key must be the stored declaration %s; derives from %s" % (want, srcs)
        if ok and dels_fwd:
            # both deletes under the same membership guard, and the reverse
            # delete may only be additionally guarded by membership in _namespaces
            g = cfg_of(f.node)
            gs = [(src(t), pol) for t, pol in flat_guards(st)]
            member = "%s in self._context[%s][%s]" % (name, ns, ent)
            extra = [x for x in gs if x[0] != member and
                     x != ("%s in self._context" % ns, True) and
                     not (x[0].endswith("in self._namespaces") and x[1])]
            ok = (member, True) in gs and not extra
            msg = "reverse delete guards %s (allowed: presence of the name, presence of the decl in _namespaces)" % gs
    obs.append(Ob("C16-R2", "_remove_entity:reverse-delete-in-step", _where(repo, f), ok, msg))
    return obs


def r3_innermost(repo):
    f = repo.fn("src.ir.context.get_decl")
    p = f.params
    if len(p) < 3:
        raise AnalysisError("get_decl signature changed", rule="C16-R3", anchor=f.qualname)
    ctxp, ns, dname = p[0], p[1], p[2]
    obs = []
    loops = [n for n in iter_own_nodes(f.node) if isinstance(n, ast.While)]
    if len(loops) != 1:
        raise AnalysisError("get_decl: expected one while loop", rule="C16-R3", anchor=f.qualname)
    loop = loops[0]
    # rebinding of the namespace: only namespace[:-1]
    rebinds = [n for n in iter_own_nodes(f.node) if isinstance(n, (ast.Assign, ast.AugAssign)) and
               any(isinstance(t, ast.Name) and t.id == ns for t in
                   (n.targets if isinstance(n, ast.Assign) else [n.target]))]
    okr = bool(rebinds) and all(isinstance(r, ast.Assign) and src(r.value) == "%s[:-1]" % ns
                                for r in rebinds)
    obs.append(Ob("C16-R3", "get_decl:namespace-shrinks-by-one", _where(repo, f, loop), okr,
                  "the searched namespace may only be rebound to `%s[:-1]`; rebindings: %s"
                  % (ns, [src(r) for r in rebinds])))
    # lookup in current namespace only
    looks = [c for c in calls_in(loop) if call_name(c) == "get_declarations"]
    okl = len(looks) == 1 and src(looks[0].args[0]) == ns and \
        const_value(kwarg(looks[0], "only_current", 1)) is True
    obs.append(Ob("C16-R3", "get_decl:looks-in-current-namespace-only", _where(repo, f, loop), okl,
                  "lookup must be get_declarations(%s, only_current=True); found %s"
                  % (ns, [src(c) for c in looks])))
    # hit returned before shrinking
    rets = [n for n in iter_own_nodes(loop) if isinstance(n, ast.Return)]
    g = cfg_of(f.node)
    okh = False
    msg = "no return of the hit inside the loop"
    if len(rets) == 1 and isinstance(rets[0].value, ast.Tuple) and len(rets[0].value.elts) == 2 \
            and looks:
        r = rets[0]
        prov = Prov(f.node, passthrough={"get"})
        a, b = r.value.elts
        srcs_b = [src(s) for s in prov.sources(b) if isinstance(s, ast.AST)]
        from_lookup = src(looks[0]) in srcs_b and any(
            isinstance(s, ast.Call) and call_name(s) == "get" and s.args and src(s.args[0]) == dname
            for s in prov.sources(b) if isinstance(s, ast.AST))
        look_node = g.node(looks[0])
        ret_node = g.node(r)
        no_stale = all(not g.path_exists_avoiding(g.node(rb), ret_node, [look_node])
                       for rb in rebinds)
        okh = src(a) == ns and from_lookup and no_stale and g.dominates(look_node, ret_node)
        msg = ("return must be (%s, <decl found by .get(%s) in that namespace>) with the lookup "
               "between any shrink and the return; first=%s from_lookup=%s no_stale=%s"
               % (ns, dname, src(a), from_lookup, no_stale))
    obs.append(Ob("C16-R3", "get_decl:hit-returned-for-searched-namespace", _where(repo, f, loop),
                  okh, msg))
    # loop condition ends at the root
    test = loop.test
    okc = False
    msg = "loop condition %s" % src(test)
    if isinstance(test, ast.Call) and isinstance(test.func, ast.Name) and \
            test.func.id in f.nested and src(test.args[0]) == ns:
        inner = f.nested[test.func.id]
        rets_i = [n for n in iter_own_nodes(inner.node) if isinstance(n, ast.Return)]
        ip = inner.params[0]
        okc = len(rets_i) == 1 and isinstance(rets_i[0].value, ast.IfExp) and \
            src(rets_i[0].value.body) == "len(%s)" % ip and \
            src(rets_i[0].value.test) == "limit is None"
        msg = "stop condition must be len(ns) when no limit is given; found %s" % (
            src(rets_i[0].value) if rets_i else None)
    elif src(test) in ("len(%s)" % ns, ns, "len(%s) > 0" % ns):
        okc = True
    elif isinstance(test, ast.IfExp):
        # the same condition written in the loop header itself
        okc = src(test.body) == "len(%s)" % ns and src(test.test) == "limit is None"
        msg = "stop condition must be len(%s) when no limit is given; found %s" % (ns, src(test))
    obs.append(Ob("C16-R3", "get_decl:loop-ends-at-root", _where(repo, f, loop), okc, msg))
    # miss -> None
    last = f.node.body[-1]
    okn = isinstance(last, ast.Return) and (last.value is None or const_value(last.value, 1) is None)
    obs.append(Ob("C16-R3", "get_decl:miss-returns-None", _where(repo, f, last), okn,
                  "after the loop get_decl must return None; found %s" % src(last)))
    return obs


def r4_ordered(repo):
    f, lit, kinds = _entity_literal(repo)
    v = kinds.get("decls")
    ok = isinstance(v, ast.Call) and src(v.func).split(".")[-1] == "OrderedDict"
    return [Ob("C16-R4", "_add_entity:decls-kind-ordered", _where(repo, f, lit), ok,
               "'decls' must be an OrderedDict (declaration order); found %s" % (src(v) if v else None))]


def _list_contributions(f, expr, at):
    """What a list-valued expression is made of, as [(iterable, loop target, element, filters)] in order: comprehensions,
    `a + b` concatenations, and a local that starts empty and is filled by `for ..: x.append(e)` loops.  None if the
    expression is built in another way."""
    g = cfg_of(f.node)
    if isinstance(expr, ast.BinOp) and isinstance(expr.op, ast.Add):
        l, r = _list_contributions(f, expr.left, at), _list_contributions(f, expr.right, at)
        return None if l is None or r is None else l + r
    if isinstance(expr, ast.ListComp):
        if len(expr.generators) != 1:
            return None
        gen = expr.generators[0]
        return [(gen.iter, gen.target, expr.elt, list(gen.ifs))]
    if isinstance(expr, ast.Name):
        defs = g.defs_reaching(expr.id, at)
        if len(defs) != 1 or not isinstance(defs[0][1], ast.AST):
            return None
        v = defs[0][1]
        if isinstance(v, ast.List) and not v.elts:
            out = []
            for n in iter_own_nodes(f.node):
                if isinstance(n, ast.For):
                    apps = [c for c in calls_in(n) if call_name(c) == "append" and src(c.func.value) == expr.id]
                    for c in apps:
                        inner = [a for a in ancestors(c) if isinstance(a, ast.For)]
                        if inner[:1] != [n] or len(c.args) != 1:
                            return None
                        out.append((n.iter, n.target, c.args[0], [t for t, _p in flat_guards(c, stop=n)]))
            others = [c for c in calls_in(f.node) if isinstance(c.func, ast.Attribute) and src(c.func.value) == expr.id and
                      call_name(c) in ("extend", "insert", "pop", "remove", "clear")]
            return None if others else out
        return _list_contributions(f, v, g.stmt(defs[0][0]))
    return None


def r5_modes(repo):
    obs = []
    f = repo.method(CTX, "_get_declarations", inherited=False)
    p = f.params
    if p[1:] != ["namespace", "decl_type", "only_current", "glob", "none"]:
        raise AnalysisError("_get_declarations signature changed: %s" % p, rule="C16-R5",
                            anchor=f.qualname)
    assigns = [n for n in iter_own_nodes(f.node) if isinstance(n, ast.Assign) and
               len(n.targets) == 1 and isinstance(n.targets[0], ast.Name) and
               n.targets[0].id == "decls"]
    prov = Prov(f.node)

    def gl(n):
        out = []
        for t, pol in flat_guards(n):
            s = src(t)
            # resolve single-definition locals such as len_namespace
            for nm in sorted({x.id for x in ast.walk(t) if isinstance(x, ast.Name)}):
                defs = cfg_of(f.node).defs_reaching(nm, n)
                if len(defs) == 1 and defs[0][2] == "assign" and isinstance(defs[0][1], ast.AST):
                    s = re.sub(r"\b%s\b" % re.escape(nm), src(defs[0][1]), s)
            out.append((s, pol))
        return out
    glob_as = [a for a in assigns if isinstance(a.value, ast.Call) and
               call_name(a.value) == "_get_declarations_glob"]
    ok = len(glob_as) == 1 and ("glob", True) in gl(glob_as[0]) and \
        [src(x) for x in glob_as[0].value.args] == ["namespace", "decl_type"]
    obs.append(Ob("C16-R5", "_get_declarations:glob-mode", _where(repo, f), ok,
                  "glob mode must call _get_declarations_glob(namespace, decl_type) under `glob`; found %s"
                  % [(src(a), gl(a)) for a in glob_as]))
    cur_as = [a for a in assigns if src(a.value).startswith("self._context.get(namespace")]
    ok = False
    msg = "current-namespace mode not found"
    if len(cur_as) == 1:
        g_ = gl(cur_as[0])
        ok = ("glob", False) in g_ and any(
            pol and s.replace(" ", "") in ("len(namespace)==1oronly_current",
                                           "only_currentorlen(namespace)==1")
            for s, pol in g_) and "decl_type" in src(cur_as[0].value)
        msg = "current mode must return the map of exactly `namespace` when root or only_current; guards %s value %s" % (
            g_, src(cur_as[0].value))
    obs.append(Ob("C16-R5", "_get_declarations:current-mode", _where(repo, f), ok, msg))
    # union mode
    fors = [n for n in iter_own_nodes(f.node) if isinstance(n, ast.For)]
    ok = False
    msg = "union loop not found"
    if len(fors) == 1:
        lp = fors[0]
        g_ = gl(lp)
        it_ok = src(lp.iter) == "namespace[1:]" and isinstance(lp.target, ast.Name)
        v = lp.target.id if isinstance(lp.target, ast.Name) else "?"
        ext = [n for n in lp.body if isinstance(n, ast.Assign) and isinstance(n.targets[0], ast.Name)
               and src(n.value).replace(" ", "") == "%s+(%s,)" % (n.targets[0].id, v)]
        start_name = ext[0].targets[0].id if ext else None
        start_defs = [d for d in cfg_of(f.node).defs_reaching(start_name, lp)
                      if d[2] == "assign"] if start_name else []
        start_ok = bool(start_defs) and any(src(d[1]).replace(" ", "") == "(namespace[0],)"
                                            for d in start_defs)
        upd = [c for c in calls_in(lp) if call_name(c) == "update" and
               src(c.func.value) == "decls"]
        upd_ok = False
        if len(upd) == 1 and ext:
            srcs = [src(s) for s in prov.sources(upd[0].args[0]) if isinstance(s, ast.AST)]
            upd_ok = any(s.startswith("self._context.get(%s" % start_name) for s in srcs) and \
                ext[0].lineno < upd[0].lineno
        init = [a for a in assigns if isinstance(a.value, ast.Call) and
                src(a.value.func).endswith("OrderedDict") and
                "self._context.get(%s" % start_name in src(a.value)]
        init_ok = len(init) == 1 and init[0].lineno < lp.lineno
        no_leave = not any(isinstance(n, (ast.Break, ast.Continue, ast.Return))
                           for n in iter_own_nodes(lp))
        ok = it_ok and bool(ext) and start_ok and upd_ok and init_ok and no_leave and \
            ("glob", False) in g_
        if not ok and isinstance(lp.target, ast.Name):
            # second form: a loop over all prefixes of the path, outermost first -
            #   for prefix in [namespace[:i] for i in range(1, len(namespace) + 1)]: decls.update(map of prefix)
            it = resolve_local(f.node, lp.iter, at=lp)
            lenres = lambda e: src(resolve_local(f.node, e, at=lp)).replace(" ", "")
            pref_ok = False
            if isinstance(it, ast.ListComp) and len(it.generators) == 1 and not it.generators[0].ifs and \
                    isinstance(it.generators[0].target, ast.Name):
                i_ = it.generators[0].target.id
                elt = it.elt
                if isinstance(elt, ast.Call) and isinstance(elt.func, ast.Name) and elt.func.id == "tuple" and len(elt.args) == 1:
                    elt = elt.args[0]
                rng = it.generators[0].iter
                pref_ok = src(elt).replace(" ", "") == "namespace[:%s]" % i_ and isinstance(rng, ast.Call) and \
                    src(rng.func) == "range" and len(rng.args) == 2 and src(rng.args[0]) == "1" and \
                    isinstance(rng.args[1], ast.BinOp) and isinstance(rng.args[1].op, ast.Add) and \
                    src(rng.args[1].right) == "1" and lenres(rng.args[1].left) == "len(namespace)"
            v2 = lp.target.id
            upd2 = [c for c in calls_in(lp) if call_name(c) == "update" and src(c.func.value) == "decls"]
            upd2_ok = len(upd2) == 1 and any(
                src(s_).startswith("self._context.get(%s" % v2) for s_ in prov.sources(upd2[0].args[0]) if isinstance(s_, ast.AST))
            init2 = [a for a in assigns if isinstance(a.value, ast.Call) and src(a.value.func).endswith("OrderedDict") and
                     not a.value.args and a.lineno < lp.lineno]
            if pref_ok:
                ok = upd2_ok and len(init2) == 1 and no_leave and ("glob", False) in g_
                msg = ("union mode (prefix list): every prefix of the path, outermost first (%s), merged with decls.update (%s) "
                       "into a fresh OrderedDict (%s), no break/continue (%s)" % (pref_ok, upd2_ok, len(init2) == 1, no_leave))
    elif len(fors) != 1:
        raise AnalysisError("shape unknown in _get_declarations: %d loops where the union over the path's prefixes is "
                            "expected" % len(fors), rule="C16-R5", anchor=f.qualname)
        msg = ("union mode: iterate namespace[1:] (%s), extend prefix by one component (%s) starting at "
               "(namespace[0],) (%s), merge the prefix's map with decls.update after extending (%s), "
               "start from a fresh OrderedDict of the root map (%s), no break/continue (%s)"
               % (it_ok, bool(ext), start_ok, upd_ok, init_ok, no_leave))
    obs.append(Ob("C16-R5", "_get_declarations:union-mode", _where(repo, f), ok, msg))
    # none filter
    rets = [n for n in iter_own_nodes(f.node) if isinstance(n, ast.Return)]
    comps = [(a, a.value) for a in assigns if isinstance(a.value, ast.DictComp)] + \
        [(r_, r_.value) for r_ in rets if isinstance(r_.value, ast.DictComp)]
    ok = False
    msg = "artificial-entry filter not found"
    if not comps:
        raise AnalysisError("shape unknown in _get_declarations: no dict comprehension that drops the artificial entries",
                            rule="C16-R5", anchor=f.qualname)
    if len(comps) == 1:
        c, dc = comps[0]
        g_ = gl(c)
        gen = dc.generators[0]
        flt = [src(i) for i in gen.ifs]
        ok = ("none", False) in g_ and len(g_) == 1 and src(gen.iter) == "decls.items()" and \
            flt == ["%s is not None" % src(dc.value)] and \
            src(dc.key) == src(gen.target.elts[0]) and src(dc.value) == src(gen.target.elts[1])
        msg = "filter must drop exactly the None-valued entries when `none` is false: guards %s filter %s" % (g_, flt)
    obs.append(Ob("C16-R5", "_get_declarations:none-filter", _where(repo, f), ok, msg))
    plain = [r_ for r_ in rets if src(r_.value) == "decls"]
    filt_r = [r_ for r_ in rets if isinstance(r_.value, ast.DictComp)]
    one = len(rets) == 1 and len(plain) == 1 and rets[0] is f.node.body[-1]
    two = len(rets) == 2 and len(plain) == 1 and len(filt_r) == 1 and [(s_, p_) for s_, p_ in gl(plain[0])] == [("none", True)]
    obs.append(Ob("C16-R5", "_get_declarations:single-return-of-decls", _where(repo, f), one or two,
                  "returns: %s" % [src(r) for r in rets]))

    # glob walk
    f = repo.method(CTX, "_get_declarations_glob", inherited=False)
    whiles = [n for n in iter_own_nodes(f.node) if isinstance(n, ast.While)]
    ok = False
    msg = "worklist loop not found"
    if not whiles:
        raise AnalysisError("shape unknown in _get_declarations_glob: no worklist loop (the walk is delegated)",
                            rule="C16-R5", anchor=f.qualname)
    if len(whiles) == 1:
        w = whiles[0]
        wl = src(w.test)
        initd = [d for d in cfg_of(f.node).defs_reaching(wl, w) if d[2] == "assign"
                 and d[0] < cfg_of(f.node).node(w)] if isinstance(w.test, ast.Name) else []
        init_ok = any(src(d[1]).replace(" ", "") == "[(namespace[0],)]" for d in initd)
        pops = [c for c in calls_in(w) if call_name(c) == "pop" and src(c.func.value) == wl]
        exts = [c for c in calls_in(w) if call_name(c) == "extend" and src(c.func.value) == wl]
        ext_ok = len(exts) == 1 and isinstance(exts[0].args[0], ast.Call) and \
            call_name(exts[0].args[0]) == "find_namespaces"
        upd = [c for c in calls_in(w) if call_name(c) == "update"]
        upd_ok = len(upd) == 1 and any(
            "decl_type" in src(s) for s in Prov(f.node, passthrough={"get"}).sources(upd[0].args[0])
            if isinstance(s, ast.AST))
        # extend must not be skipped: post-dominates loop body entry
        g = cfg_of(f.node)
        ext_every = ext_ok and g.postdominates(g.node(exts[0]), g.node(w.body[0]))
        ok = init_ok and len(pops) == 1 and ext_ok and upd_ok and ext_every
        msg = ("glob walk: worklist starts at [(namespace[0],)] (%s), pops one namespace per round (%s), "
               "merges its map (%s), extends with find_namespaces on every round (%s)"
               % (init_ok, len(pops) == 1, upd_ok, ext_every))
    obs.append(Ob("C16-R5", "_get_declarations_glob:worklist", _where(repo, f), ok, msg))

    f = repo.method(CTX, "find_namespaces", inherited=False)
    want = {"get_funcs", "get_classes"}
    got = set()
    shape_ok = True
    ret = f.node.body[-1]
    contribs = _list_contributions(f, ret.value, ret) if isinstance(ret, ast.Return) and ret.value is not None else None
    ret_ok = contribs is not None and len(contribs) == 2
    for it, tgt, elt, filt in (contribs or []):
        if isinstance(it, ast.Call) and call_name(it) in want:
            got.add(call_name(it))
            oc = const_value(kwarg(it, "only_current", 1))
            shape_ok &= src(it.args[0]) == "namespace" and oc is True and \
                src(elt).replace(" ", "") == "namespace+(%s,)" % src(tgt) and not filt
        else:
            shape_ok = False
    obs.append(Ob("C16-R5", "find_namespaces:functions-and-classes-of-namespace", _where(repo, f),
                  got == want and shape_ok and ret_ok,
                  "find_namespaces must return namespace+(name,) for every function and class of exactly "
                  "`namespace` (only_current=True): iterates %s shape_ok=%s returns_both=%s"
                  % (sorted(got), shape_ok, ret_ok)))
    return obs


def r7_fresh_accumulators(repo):
    """a query never writes into the table it reads: whatever a query method merges into (`X.update(..)`, `X[k] = ..`) is a
    map created by that method (OrderedDict(..), dict(..), a literal, a comprehension) on every path to the merge - not a
    map handed out by `self._context` (merging into that adds the nested scopes' entries to the root scope for good)"""
    obs = []
    cls = repo.cls(CTX)
    for name in ("_get_declarations_glob", "_get_declarations", "get_namespaces_decls", "find_namespaces"):
        f = cls.methods.get(name)
        if f is None:
            continue
        g = cfg_of(f.node)
        for c in calls_in(f.node):
            if not (call_name(c) in ("update", "setdefault", "add", "append", "extend") and isinstance(c.func, ast.Attribute) and
                    isinstance(c.func.value, ast.Name)):
                continue
            recv = c.func.value.id
            defs = g.defs_reaching(recv, c)
            live = []
            def _fresh(v):
                if isinstance(v, ast.IfExp):
                    return _fresh(v.body) and _fresh(v.orelse)
                return isinstance(v, (ast.Dict, ast.DictComp, ast.List, ast.ListComp, ast.Set, ast.SetComp)) or \
                    (isinstance(v, ast.Call) and isinstance(v.func, (ast.Name, ast.Attribute)) and
                     src(v.func).split(".")[-1] in ("OrderedDict", "dict", "list", "set", "defaultdict", "copy", "deepcopy"))
            for _d, v, k in defs:
                fresh = _fresh(v) or isinstance(v, (ast.Dict, ast.DictComp, ast.List, ast.ListComp, ast.Set, ast.SetComp)) or \
                    (isinstance(v, ast.Call) and isinstance(v.func, (ast.Name, ast.Attribute)) and
                     src(v.func).split(".")[-1] in ("OrderedDict", "dict", "list", "set", "defaultdict", "copy", "deepcopy"))
                if k != "assign" or not fresh:
                    live.append(src(v)[:60] if isinstance(v, ast.AST) else k)
            obs.append(Ob("C16-R7", "%s:%s.%s:merges-into-a-map-of-its-own" % (name, recv, call_name(c)), _where(repo, f, c),
                          bool(defs) and not live,
                          "`%s` may write into %s: a query must accumulate in a map it created itself" % (src(c)[:60], live)))
    return obs


def r6_identity(repo):
    """The reverse map `_namespaces` is a dict keyed by the declaration object and `get_decl` tests its hit for truth:
    both mean *this object* only while declarations keep Python's default identity semantics.  A value `__eq__`/`__hash__`
    on a declaration class conflates look-alike declarations of different namespaces in the reverse map; a `__len__` /
    `__bool__` makes some declarations falsy, and the scoped lookup walks past them."""
    obs = []
    decl = repo.cls("src.ir.ast.Declaration")
    keyed = [c for c in repo.classes.values() if c.module.name == "src.ir.ast" and
             (decl in c.mro() or c.name == "Lambda")]
    if len(keyed) < 7:
        raise AnalysisError("declaration classes not found (%d)" % len(keyed), rule="C16-R6", anchor="src.ir.ast")
    f = repo.fn("src.ir.context.get_decl")
    truth_tests = []
    for n in iter_own_nodes(f.node):
        if isinstance(n, (ast.If, ast.While, ast.IfExp)):
            t = n.test
            while isinstance(t, ast.UnaryOp) and isinstance(t.op, ast.Not):
                t = t.operand
            parts = t.values if isinstance(t, ast.BoolOp) else [t]
            for x in parts:
                while isinstance(x, ast.UnaryOp) and isinstance(x.op, ast.Not):
                    x = x.operand
                if isinstance(x, ast.Name):
                    prov = Prov(f.node, passthrough={"get"})
                    if any(isinstance(s_, ast.Call) and call_name(s_) in ("get", "get_declarations", "get_decl")
                           for s_ in prov.sources(x) if isinstance(s_, ast.AST)):
                        truth_tests.append(src(n.test))
    for c in sorted(keyed, key=lambda c: c.qualname):
        forbidden = ["__eq__", "__ne__", "__hash__"] + (["__bool__", "__len__"] if truth_tests else [])
        found = []
        for k in c.mro():
            for nm in forbidden:
                m = k.methods.get(nm)
                if m is None:
                    continue
                # `return True` / `return self is other` keep the default meaning
                body = [s_ for s_ in m.node.body if not (isinstance(s_, ast.Expr) and isinstance(s_.value, ast.Constant))]
                if len(body) == 1 and isinstance(body[0], ast.Return) and " ".join(src(body[0]).split()) in (
                        "return True", "return self is other", "return id(self)", "return other is self"):
                    continue
                found.append(m.qualname)
        obs.append(Ob("C16-R6", "%s:identity-semantics" % c.name, _where(repo, c.methods.get("__init__") or
                                                                       next(iter(c.methods.values()), None))
                      if c.methods else "src/ir/ast.py", not found,
                      "declarations are dict keys of the reverse map%s: %s defines %s"
                      % (" and tested for truth in get_decl (`%s`)" % truth_tests[0] if truth_tests else "", c.name, found)))
    return obs


def rules():
    return [
        RuleSpec("C16-R1", "entity table: writers, removers, readers agree on kinds", 18, r1_entity_table),
        RuleSpec("C16-R2", "forward and reverse map are written/deleted in step", 7, r2_two_maps),
        RuleSpec("C16-R3", "get_decl walks from the innermost namespace outwards", 5, r3_innermost),
        RuleSpec("C16-R4", "'decls' kind keeps insertion order", 1, r4_ordered),
        RuleSpec("C16-R5", "three query modes of _get_declarations", 7, r5_modes),
        RuleSpec("C16-R7", "queries accumulate in maps of their own (never in a map handed out by the table)", 3,
                 r7_fresh_accumulators),
        RuleSpec("C16-R6", "declarations keep identity semantics (reverse-map keys, truth-tested hits)", 7, r6_identity),
    ]


# -- variants -------------------------------------------------------------------

def _v_remove_var_forgets_decls(tree):
    fn = V.find_def(tree, "Context.remove_var")
    st = V.one([s for s in fn.body if "decls" in ast.unparse(s)], "decls removal")
    V.remove_stmt(tree, st)


def _v_remove_keeps_namespaces(tree):
    fn = V.find_def(tree, "Context._remove_entity")
    st = V.one([n for n in ast.walk(fn) if isinstance(n, ast.Delete) and
                "_namespaces" in ast.unparse(n)], "del _namespaces")
    V.remove_stmt(tree, st)


def _v_get_decl_no_shrink(tree):
    fn = V.find_def(tree, "get_decl")
    st = V.one([n for n in ast.walk(fn) if isinstance(n, ast.Assign) and
                ast.unparse(n.value).endswith("[:-1]")], "shrink")
    st.value = V.parse_expr("namespace[:-2]")


def _v_get_decl_enclosing_lookup(tree):
    fn = V.find_def(tree, "get_decl")
    c = V.one([n for n in ast.walk(fn) if V.is_call_named(n, "get_declarations")])
    c.args[1] = ast.Constant(value=False)


def _v_union_outer_wins(tree):
    fn = V.find_def(tree, "Context._get_declarations")
    lp = V.one([n for n in ast.walk(fn) if isinstance(n, ast.For)])
    lp.iter = V.parse_expr("namespace[2:]")


def _v_plain_dict_decls(tree):
    fn = V.find_def(tree, "Context._add_entity")
    d = V.one([n for n in ast.walk(fn) if isinstance(n, ast.Dict) and n.keys])
    for i, k in enumerate(d.keys):
        if k.value == "decls":
            d.values[i] = ast.Dict(keys=[], values=[])


def _v_add_entity_new_ns_skips_reverse(tree):
    fn = V.find_def(tree, "Context._add_entity")
    last = fn.body[-1]
    iff = V.one([n for n in fn.body if isinstance(n, ast.If)])
    fn.body.remove(last)
    iff.body.append(last)


def _v_get_vars_reads_decls(tree):
    fn = V.find_def(tree, "Context.get_vars")
    c = V.one([n for n in ast.walk(fn) if isinstance(n, ast.Constant) and n.value == "vars"])
    c.value = "decls"


def _v_none_filter_inverted(tree):
    fn = V.find_def(tree, "Context._get_declarations")
    iff = V.one([n for n in ast.walk(fn) if isinstance(n, ast.If) and ast.unparse(n.test) == "not none"])
    iff.test = V.parse_expr("none")


def _v_glob_skip_classes(tree):
    fn = V.find_def(tree, "Context.find_namespaces")
    fn.body[-1].value = V.parse_expr("func_namespaces")


def _v_add_pops_previous(tree):
    fn = V.find_def(tree, "Context._add_entity")
    fn.body.insert(0, V.parse_stmts("if self._context.get(namespace, {}).get(entity, {}).get(name) is not None:\n    self._namespaces.pop(self._context[namespace][entity][name], None)")[0])


def _v_remove_drops_scope(tree):
    fn = V.find_def(tree, "Context._remove_entity")
    fn.body.extend(V.parse_stmts("if namespace in self._context and not self._context[namespace]['decls'] and not self._context[namespace]['types']:\n    self._context.pop(namespace)"))


def _t_rename_locals(tree):
    fn = V.find_def(tree, "Context._get_declarations")
    V.rename_local(fn, "ns", "component")
    V.rename_local(fn, "decl", "found")


def variants():
    f = "src/ir/context.py"
    return [
        V.Variant("remove_var forgets 'decls'", f, _v_remove_var_forgets_decls, {"C16-R1"}),
        V.Variant("_remove_entity keeps _namespaces entry", f, _v_remove_keeps_namespaces, {"C16-R2"}),
        V.Variant("_add_entity skips reverse map for new namespace", f, _v_add_entity_new_ns_skips_reverse, {"C16-R2"}),
        V.Variant("get_decl shrinks by two components", f, _v_get_decl_no_shrink, {"C16-R3"}),
        V.Variant("get_decl looks up enclosing scopes at each step", f, _v_get_decl_enclosing_lookup, {"C16-R3"}),
        V.Variant("union skips the first inner component", f, _v_union_outer_wins, {"C16-R5"}),
        V.Variant("'decls' is a plain dict", f, _v_plain_dict_decls, {"C16-R4"}),
        V.Variant("get_vars reads 'decls'", f, _v_get_vars_reads_decls, {"C16-R1"}),
        V.Variant("none filter inverted", f, _v_none_filter_inverted, {"C16-R5"}),
        V.Variant("find_namespaces forgets classes", f, _v_glob_skip_classes, {"C16-R5"}),
        V.Variant("_add_entity pops the reverse entry of a previous same-named declaration", f, _v_add_pops_previous, {"C16-R2"}),
        V.Variant("_remove_entity drops the whole scope when it looks empty", f, _v_remove_drops_scope, {"C16-R2"}),
        V.Variant("twin: rename locals in _get_declarations", f, _t_rename_locals, None, twin=True),
        V.Variant("twin: whole tree reformatted by ast.unparse", None, None, None, twin=True),
    ]
