"""C17 - generation switches are honoured (origin analysis)."""
import ast

from ..repo import AnalysisError, ClassInfo
from ..report import Ob, RuleSpec
from ..astutil import (src, flat_guards, calls_in, call_name, kwarg, const_value,
                       iter_own_nodes, ancestors, is_within)
from ..cfg import cfg_of, Prov
from .. import variants as V
from .. import kernel
from . import c08

PROPERTY = "C17"
TITLE = "Generation switches are honoured"
DECIDES = ("Decided (absence claims by origin analysis): every construction site of a use-site projection in src/ is a "
           "copy of an existing projection, derived from an existing projection, or takes its variance from "
           "_get_type_arg_variance whose complete decision table shows no non-invariant result under the switch; the "
           "constant Contravariant can reach a projection only through that function under the contravariance switch; a "
           "fresh type-parameter bound is drawn only under random.bool(cfg.prob.bounded_type_parameters) (strict <, so "
           "probability 0 never fires) and every other bound store copies/substitutes an existing bound; function type "
           "parameters are fresh only under random.bool(cfg.prob.parameterized_functions) and never variant; class type "
           "parameters are variant only for Kotlin/Scala; the four CLI flags set exactly the cfg attributes these guards read.")
NOT_DECIDED = ("nothing about the values of the programs beyond the absence claims; sites listed as known findings are "
               "genuine origins of projections that ignore the switch.")

GEN = "src.generators.generator.Generator"


def _w(f, node=None):
    return "%s:%d" % (f.module.relpath, (node or f.node).lineno)


def _g(node, stop=None):
    return [(src(t), p) for t, p in flat_guards(node, stop)]


def _ctor_sites(repo, cname, check_escape=False):
    """all calls whose callee resolves to class `cname` of src.ir.types"""
    cls = repo.cls("src.ir.types." + cname)
    out = []
    for f in repo.functions.values():
        for c in calls_in(f.node):
            if call_name(c) == cname:
                tgt = repo.resolve_name_expr(c.func, f.module, f)
                if tgt is cls:
                    out.append((f, c))
    # the class object escaping as a value would hide constructions
    for m in (repo.modules.values() if check_escape else ()):
        for n in ast.walk(m.tree):
            if isinstance(n, (ast.Name, ast.Attribute)) and (getattr(n, "id", None) == cname or getattr(n, "attr", None) == cname):
                p = n._parent
                if isinstance(p, ast.Call) and p.func is n:
                    continue
                if isinstance(p, ast.Call) and call_name(p) == "isinstance":
                    continue
                if isinstance(p, (ast.Tuple,)) and isinstance(p._parent, ast.Call) and call_name(p._parent) == "isinstance":
                    continue
                if isinstance(p, ast.Attribute) or isinstance(p, (ast.ClassDef, ast.alias, ast.ImportFrom)):
                    continue
                if isinstance(p, ast.Assign) and n in p.targets:
                    continue
                if any(isinstance(a, (ast.arg, ast.arguments)) or (isinstance(a, ast.FunctionDef) and
                                                                  (n is a.returns or n in ast.walk(a.args)))
                       for a in ancestors(n)):
                    continue   # annotations
                if isinstance(p, ast.Subscript) or isinstance(p, ast.AnnAssign):
                    continue
                if isinstance(p, ast.Tuple) and isinstance(p._parent, ast.Assign):
                    # forbidden_types = (tp.TypeParameter, ...) used with isinstance
                    continue
                raise AnalysisError("class %s escapes as a value at %s:%d (`%s`): constructions could be hidden"
                                    % (cname, m.relpath, n.lineno, src(p)[:60]), rule="C17-R1")
    return out


def r1_projections(repo):
    obs = []
    sites = _ctor_sites(repo, "WildCardType", check_escape=True)
    for f, c in sorted(sites, key=lambda x: (x[0].qualname, x[1].lineno)):
        var = c.args[1] if len(c.args) > 1 else kwarg(c, "variance")
        bnd = c.args[0] if c.args else kwarg(c, "bound")
        gs = _g(c)
        shape, why = None, ""
        if var is not None and isinstance(var, ast.Attribute) and var.attr == "variance":
            w = src(var.value)
            if ("%s.is_wildcard()" % w, True) in gs or any(pol and ("isinstance(%s" % w) in s for s, pol in gs):
                shape, why = "copy", "variance copied from the existing wildcard `%s`" % w
        if shape is None and var is not None and isinstance(var, ast.Name):
            defs = cfg_of(f.node).defs_reaching(var.id, c)
            if len(defs) == 1 and isinstance(defs[0][1], ast.Call) and call_name(defs[0][1]) == "_get_type_arg_variance":
                shape, why = "guarded", "variance is the result of _get_type_arg_variance (decision table C08-R2)"
        if shape is None:
            wild = [s for s, pol in gs if pol and s.endswith(".is_wildcard()")]
            varis = [s for s, pol in gs if pol and (s.endswith(".is_covariant()") or s.endswith(".is_contravariant()"))]
            if wild and varis and any(v.split(".")[0] == w_.split(".")[0] for v in varis for w_ in wild):
                shape, why = "derived", "control-dependent on the existing projection `%s` (%s)" % (wild[0], varis[0])
        # construct key: sites that are accounted for are numbered; fresh projections are keyed by the function that
        # builds them (splitting one construction into two branches is the same construct)
        key = "WildCardType@%s#%s" % (f.qualname, [x[1] for x in sites if x[0] is f].index(c) if shape is not None else "fresh")
        obs.append(Ob("C17-R1", key, _w(f, c), shape is not None,
                      ("%s: %s" % (shape, why)) if shape else
                      ("`%s` builds a fresh projection (variance `%s`, bound `%s`) that is neither a copy of an existing "
                       "projection, nor derived from one, nor governed by _get_type_arg_variance; guards: %s - with "
                       "cfg.dis.use_site_variance set this site still produces projections"
                       % (src(c), src(var) if var is not None else "default", src(bnd) if bnd is not None else None, gs)),
                      {"shape": shape, "guards": [("" if p else "not ") + s for s, p in gs]}))
    if len(sites) < 5:
        raise AnalysisError("only %d WildCardType construction sites found" % len(sites), rule="C17-R1")
    # decision table rows under the switch
    f, rows = c08.variance_table(repo)
    bad = [env for env, poss in rows if env["dis.use_site_variance"] and poss != {"INV"}]
    obs.append(Ob("C17-R1", "_get_type_arg_variance:invariant-under-dis.use_site_variance", _w(f), not bad,
                  "%d of %d abstract inputs with the switch set can return a non-invariant variance" % (len(bad), len(rows))))
    return obs


def _flows_only_into_declared_variance(repo, call, idx, fi):
    """argument #idx of `call` reaches only the `variance` position of TypeParameter(...) constructions in the callee"""
    try:
        tgt = repo.resolve_name_expr(call.func, call._module, fi)
    except Exception:
        tgt = None
    from ..repo import FunctionInfo
    if not isinstance(tgt, FunctionInfo):
        return False
    params = [a.arg for a in tgt.node.args.args]
    if tgt.cls is not None and "staticmethod" not in [src(d) for d in tgt.node.decorator_list]:
        params = params[1:]
    if idx >= len(params):
        return False
    pn = params[idx]
    uses = [x for x in ast.walk(tgt.node) if isinstance(x, ast.Name) and x.id == pn and isinstance(x.ctx, ast.Load)]
    if not uses or any(isinstance(x, ast.Name) and x.id == pn and isinstance(x.ctx, ast.Store) for x in ast.walk(tgt.node)):
        return False
    for u in uses:
        par = getattr(u, "_parent", None)
        ok = False
        if isinstance(par, ast.Call) and call_name(par) == "TypeParameter" and u in par.args and par.args.index(u) == 1:
            ok = True
        if isinstance(par, ast.keyword) and par.arg == "variance" and call_name(par._parent) == "TypeParameter":
            ok = True
        if not ok:
            return False
    return True


def r2_contravariant(repo):
    obs = []
    uses = []
    for f in repo.functions.values():
        for n in iter_own_nodes(f.node):
            if (isinstance(n, ast.Attribute) and n.attr == "Contravariant") or \
                    (isinstance(n, ast.Name) and n.id == "Contravariant" and isinstance(n.ctx, ast.Load)):
                if isinstance(n, ast.Name) and isinstance(n._parent, ast.Attribute):
                    continue
                uses.append((f, n))
    n_cls = 0
    for f, n in uses:
        p = n._parent
        kind = None
        if isinstance(p, ast.Compare):
            kind = "comparison"
        elif isinstance(p, ast.Call) and call_name(p) == "TypeParameter":
            kind = "declaration-site variance of a built-in type constructor"
        elif isinstance(p, ast.keyword) and p.arg == "variance" and call_name(p._parent) == "TypeParameter":
            kind = "declaration-site variance of a built-in type constructor"
        elif isinstance(p, ast.Call) and n in p.args and hasattr(p, "_module") and \
                _flows_only_into_declared_variance(repo, p, p.args.index(n), f):
            kind = "declaration-site variance of a built-in type constructor (through a helper that only builds TypeParameter)"
        elif f.qualname == GEN + ".gen_type_params" and isinstance(p, ast.List):
            kind = "declaration-site variance pool of gen_type_params (C17-R5)"
        elif f.qualname == "src.ir.type_utils._get_type_arg_variance":
            # how the constant can leave this function is decided on all abstract inputs by the decision table below
            # (obligation `_get_type_arg_variance:no-contravariance-under-the-switch`), not by the shape of a guard
            kind = "use-site variance pool of the decision function (decided by the decision table)"
        n_cls += 1
        obs.append(Ob("C17-R2", "Contravariant@%s:%s" % (f.qualname, " ".join(src(p).split())[:50]), _w(f, n),
                      kind is not None,
                      kind or "the constant Contravariant is used in a position that can flow into a projection without "
                              "the contravariance switch: `%s`" % src(p)[:80]))
    f, rows = c08.variance_table(repo)
    bad = [env for env, poss in rows if env["dis.use_site_contravariance"] and "CONTRA" in poss]
    obs.append(Ob("C17-R2", "_get_type_arg_variance:no-contravariance-under-the-switch", _w(f), not bad,
                  "%d abstract inputs with dis.use_site_contravariance can return Contravariant" % len(bad)))
    return obs


def r3_bounds(repo):
    obs = []
    m = repo.module("src.generators.generator")
    gfs = [f for f in repo.functions.values() if f.module is m]
    ctor = [(f, c) for f, c in _ctor_sites(repo, "TypeParameter") if f.module is m]
    for f, c in ctor:
        b = kwarg(c, "bound", 2)
        ok, msg = False, "bound argument not a local"
        if b is None:
            ok, msg = True, "no bound given"
        elif isinstance(b, ast.Name):
            g = cfg_of(f.node)
            defs = g.defs_reaching(b.id, c)
            bad = []
            for d, v, k in defs:
                st = g.stmt(d)
                if isinstance(v, ast.Constant) and v.value is None:
                    continue
                gs = _g(st)
                guarded = any(pol and " ".join(s.split()) == "ut.random.bool(cfg.prob.bounded_type_parameters)" for s, pol in gs)
                if isinstance(v, ast.Call) and call_name(v) in ("select_type", "box_type") and guarded:
                    continue
                bad.append("%s (guards %s)" % (src(v) if isinstance(v, ast.AST) else v, gs))
            ok = not bad
            msg = ("a fresh bound must be drawn only under ut.random.bool(cfg.prob.bounded_type_parameters); offending "
                   "definitions: %s" % bad)
        obs.append(Ob("C17-R3", "TypeParameter(bound=)@%s" % f.qualname, _w(f, c), ok, msg))
    stores = []
    for f in gfs:
        for n in iter_own_nodes(f.node):
            if isinstance(n, ast.Assign) and isinstance(n.targets[0], ast.Attribute) and n.targets[0].attr == "bound":
                stores.append((f, n))
    for f, n in stores:
        prov = Prov(f.node, passthrough={"substitute_type", "reduce", "filter", "list", "get_bound_rec", "box_type", "items", "values"})
        srcs = prov.sources(n.value, at=n)
        texts = [src(s) for s in srcs if isinstance(s, ast.AST)]
        fresh = [t for t in texts if "select_type(" in t or "choose_type(" in t or "instantiate_type_constructor(" in t
                 or "get_any_type(" in t]
        existing = [t for t in texts if t.endswith(".bound") or "get_bound_rec(" in t or "get_type_variables(" in t
                    or ".bound," in t]
        none = isinstance(n.value, ast.Constant) and n.value.value is None
        # ... or the store only happens when the same type parameter already has a bound (`if t.bound in m:`,
        # `if t.bound:`): replacing one bound by another adds no bounded type parameter
        tgt_obj = src(n.targets[0].value)
        rebinding = any(pol and any(isinstance(x, ast.Attribute) and x.attr == "bound" and src(x.value) == tgt_obj
                                    for x in ast.walk(t))
                        and not (isinstance(t, ast.Compare) and any(isinstance(o, (ast.Is, ast.Eq)) for o in t.ops))
                        for t, pol in flat_guards(n))
        ok = not fresh and (bool(existing) or none or rebinding)
        obs.append(Ob("C17-R3", "bound-store@%s:%s" % (f.qualname, " ".join(src(n).split())[:60]), _w(f, n), ok,
                      "a store to .bound must copy / substitute a bound that already exists (or clear it) - also the top type "
                      "is a bound: derives from %s"
                      % texts[:6]))
    f = repo.method("src.utils.RandomUtils", "bool", inherited=False)
    r = f.node.body[-1]
    ok = isinstance(r, ast.Return) and isinstance(r.value, ast.Compare) and isinstance(r.value.ops[0], ast.Lt) and \
        src(r.value.left) == "self.r.random()" and src(r.value.comparators[0]) == f.params[1]
    obs.append(Ob("C17-R3", "RandomUtils.bool:strict-less-than", _w(f), ok,
                  "bool(prob) must be `random() < prob` so that probability 0 never fires; found %s" % src(r)))
    return obs


def r4_parameterized_functions(repo):
    obs = []
    m = repo.module("src.generators.generator")
    sites = []
    for f in repo.functions.values():
        if f.module is not m:
            continue
        for c in calls_in(f.node):
            if call_name(c) == "FunctionDeclaration":
                sites.append((f, c))
    for f, c in sites:
        tpk = kwarg(c, "type_parameters", 8)
        if tpk is None:
            obs.append(Ob("C17-R4", "FunctionDeclaration@%s:no-type-parameters" % f.qualname, _w(f, c), True,
                          "constructed without type parameters"))
            continue
        g = cfg_of(f.node)
        defs = g.defs_reaching(tpk.id, c) if isinstance(tpk, ast.Name) else []
        bad = []
        for d, v, k in defs:
            if k == "param":
                continue   # callers are checked below
            if isinstance(v, ast.List) and not v.elts:
                continue
            switch = ("ut.random.bool(prob=cfg.prob.parameterized_functions)", "ut.random.bool(cfg.prob.parameterized_functions)")
            if isinstance(v, ast.IfExp) and isinstance(v.body, ast.Call) and call_name(v.body) == "gen_type_params" and \
                    " ".join(src(v.test).split()) in switch and \
                    isinstance(v.orelse, ast.List) and not v.orelse.elts:
                continue
            if isinstance(v, ast.Call) and call_name(v) == "gen_type_params" and any(
                    pol and " ".join(src(t).split()) in switch for t, pol in flat_guards(g.stmt(d))):
                continue      # statement form of the same decision
            bad.append(src(v) if isinstance(v, ast.AST) else str(v))
        obs.append(Ob("C17-R4", "FunctionDeclaration@%s:type_parameters-origin" % f.qualname, _w(f, c), not bad and bool(defs),
                      "fresh function type parameters only under ut.random.bool(prob=cfg.prob.parameterized_functions), "
                      "nested functions get []; offending definitions: %s" % bad))
    # callers that pass type_params to gen_func_decl
    for f in repo.functions.values():
        if f.module is not m:
            continue
        for c in calls_in(f.node):
            if call_name(c) == "gen_func_decl" and kwarg(c, "type_params", 7) is not None:
                v = kwarg(c, "type_params", 7)
                prov = Prov(f.node)
                srcs = [s for s in prov.sources(v, at=c) if isinstance(s, ast.Call)]
                ok = any(call_name(s) == "_gen_type_params_from_existing" for s in srcs) and \
                    not any(call_name(s) == "gen_type_params" for s in srcs)
                obs.append(Ob("C17-R4", "gen_func_decl(type_params=)@%s" % f.qualname, _w(f, c), ok,
                              "type parameters handed to gen_func_decl must be derived from the overridden function "
                              "(_gen_type_params_from_existing)"))
    f = repo.method(GEN, "_gen_type_params_from_existing", inherited=False)
    dc = [c for c in calls_in(f.node) if call_name(c) == "deepcopy"]
    fresh = [c for c in calls_in(f.node) if call_name(c) in ("gen_type_params", "TypeParameter")]
    lp = [n for n in iter_own_nodes(f.node) if isinstance(n, ast.For) and src(n.iter).endswith(".type_parameters")]
    obs.append(Ob("C17-R4", "_gen_type_params_from_existing:copies-only", _w(f), bool(dc) and not fresh and bool(lp),
                  "an override's type parameters are copies of the overridden function's (no fresh parameter)"))
    return obs


def r5_variance(repo):
    obs = []
    m = repo.module("src.generators.generator")
    n_sites = 0
    for f in repo.functions.values():
        if f.module is not m:
            continue
        for c in calls_in(f.node):
            if call_name(c) != "gen_type_params" or src(c.func.value) != "self":
                continue
            n_sites += 1
            wv = kwarg(c, "with_variance", 1)
            ff = kwarg(c, "for_function", 3)
            if ff is not None and const_value(ff) is True:
                ok = wv is not None and const_value(wv, 1) is False
                msg = "function type parameters must be generated with with_variance=False; found %s" % (src(wv) if wv is not None else "default")
            else:
                ok = wv is None or const_value(wv, 1) is False
                if not ok and isinstance(wv, ast.Compare) and isinstance(wv.ops[0], ast.In) and \
                        src(wv.left) == "self.language" and isinstance(wv.comparators[0], (ast.List, ast.Tuple, ast.Set)):
                    langs = {const_value(e) for e in wv.comparators[0].elts}
                    ok = langs <= {"kotlin", "scala"}
                msg = "class type parameters may be variant only for Kotlin/Scala; with_variance=%s" % (src(wv) if wv is not None else "default False")
            obs.append(Ob("C17-R5", "gen_type_params-call@%s#%d" % (f.qualname, c.lineno - f.node.lineno), _w(f, c), ok, msg))
    f = repo.method(GEN, "gen_type_params", inherited=False)
    draws = [n for n in iter_own_nodes(f.node) if isinstance(n, ast.Assign) and src(n.targets[0]) == "variance"]
    bad = []
    for d in draws:
        if isinstance(d.value, ast.Constant) and d.value.value is None:
            continue
        gs = _g(d)
        if not any(pol and s == "with_variance" for s, pol in gs):
            bad.append((src(d), gs))
    dflt = f.node.args.defaults
    names = [a.arg for a in f.node.args.args]
    dv = dict(zip(names[-len(dflt):], dflt)).get("with_variance")
    obs.append(Ob("C17-R5", "gen_type_params:variance-drawn-only-with_variance", _w(f), not bad and len(draws) >= 2 and
                  const_value(dv, 1) is False,
                  "a non-default variance may be drawn only under `with_variance` (default False): %s" % bad))
    stores = []
    for g_ in repo.functions.values():
        if g_.module is m:
            for n in iter_own_nodes(g_.node):
                if isinstance(n, ast.Assign) and isinstance(n.targets[0], ast.Attribute) and n.targets[0].attr == "variance":
                    stores.append((g_, n))
    for g_, n in stores:
        obs.append(Ob("C17-R5", "variance-store@%s:%s" % (g_.qualname, " ".join(src(n).split())[:50]), _w(g_, n),
                      src(n.value) in ("tp.Invariant", "Invariant"), "stores to .variance in the generator must assign Invariant"))
    if n_sites < 4:
        raise AnalysisError("only %d gen_type_params call sites" % n_sites, rule="C17-R5")
    return obs


def r6_wiring(repo):
    obs = []
    m = repo.module("src.args")
    flags = {}
    for n in ast.walk(m.tree):
        if isinstance(n, ast.Call) and call_name(n) == "add_argument" and n.args and \
                isinstance(n.args[0], ast.Constant) and str(n.args[0].value).startswith("--disable"):
            flags[n.args[0].value] = (const_value(kwarg(n, "action")), n)
    want = {
        "--disable-use-site-variance": ("cfg.dis.use_site_variance", "args.disable_use_site_variance", "direct"),
        "--disable-contravariance-use-site": ("cfg.dis.use_site_contravariance", "args.disable_contravariance_use_site", "direct"),
        "--disable-bounded-type-parameters": ("cfg.prob.bounded_type_parameters", "args.disable_bounded_type_parameters", "zero"),
        "--disable-parameterized-functions": ("cfg.prob.parameterized_functions", "args.disable_parameterized_functions", "zero"),
    }
    assigns = [n for n in m.tree.body if isinstance(n, ast.Assign)] + \
        [s for n in m.tree.body if isinstance(n, ast.If) for s in n.body if isinstance(s, ast.Assign)]
    for flag, (target, argname, how) in want.items():
        ok = flag in flags and flags[flag][0] == "store_true"
        st = [a for a in assigns if src(a.targets[0]) == target]
        if how == "direct":
            ok = ok and len(st) == 1 and src(st[0].value) == argname and st[0] in m.tree.body
        else:
            ok = ok and len(st) == 1 and const_value(st[0].value, 1) == 0 and isinstance(st[0]._parent, ast.If) and \
                src(st[0]._parent.test) == argname and st[0]._parent in m.tree.body and st[0] in st[0]._parent.body
        obs.append(Ob("C17-R6", "flag:%s->%s" % (flag, target), "src/args.py:%d" % (st[0].lineno if st else 1), ok,
                      "%s (store_true) must set %s %s" % (flag, target, "to the flag value" if how == "direct" else "to 0 when given")))
    # nothing else writes the switches
    others = []
    for f in list(repo.functions.values()):
        for n in iter_own_nodes(f.node):
            if isinstance(n, (ast.Assign, ast.AugAssign)):
                for t in (n.targets if isinstance(n, ast.Assign) else [n.target]):
                    s = src(t)
                    if s.startswith("cfg.dis.") or s in ("cfg.prob.bounded_type_parameters", "cfg.prob.parameterized_functions"):
                        others.append("%s:%d" % (f.module.relpath, n.lineno))
    jc = [(f.qualname, c.lineno) for f in repo.functions.values() for c in calls_in(f.node)
          if call_name(c) in ("json_config", "process_arg") and f.name not in ("json_config", "process_arg")]
    mod_calls = [n.lineno for mm in repo.modules.values() for n in ast.walk(mm.tree)
                 if isinstance(n, ast.Call) and call_name(n) == "json_config"
                 and repo.enclosing_function(n) is None]
    obs.append(Ob("C17-R6", "switches-written-only-by-args.py", "src/args.py", not others and not jc and not mod_calls,
                  "other writers of the switches: %s; callers of GenConfig.json_config (setattr-based): %s %s"
                  % (others, jc, mod_calls)))
    # the configuration object that carries the switches is built once: `cfg = GenConfig()` at the bottom of config.py.
    # Any other construction site re-runs the defaults whenever the singleton discipline is not airtight (a __new__-based
    # singleton calls __init__ on every `GenConfig()`), i.e. resets the switches in the middle of a run
    sites = []
    for mm in repo.modules.values():
        for n in ast.walk(mm.tree):
            if isinstance(n, ast.Call) and src(n.func).split(".")[-1] in ("GenConfig", "Disabled", "Probabilities"):
                fn_ = repo.enclosing_function(n)
                where = "%s:%d%s" % (mm.relpath, n.lineno, "" if fn_ is None else " in " + fn_.name)
                own = mm.name == "src.generators.config" and (fn_ is None or fn_.name == "__init__")
                if not own:
                    sites.append(where)
    obs.append(Ob("C17-R6", "configuration-object-built-once", "src/generators/config.py", not sites,
                  "the objects that hold the switches are constructed outside config.py's own initialisation: %s" % sites))
    # the guards read the very attributes
    f = repo.fn("src.ir.type_utils._get_type_arg_variance")
    reads = {src(n) for n in iter_own_nodes(f.node) if isinstance(n, ast.Attribute) and src(n).startswith("cfg.dis.")}
    obs.append(Ob("C17-R6", "guards-read-the-wired-attributes", _w(f),
                  reads == {"cfg.dis.use_site_variance", "cfg.dis.use_site_contravariance"},
                  "_get_type_arg_variance reads %s" % sorted(reads)))
    return obs


def r7_variance(repo):
    """'contravariant projection' and 'variant type parameter' are what is_contravariant() / is_invariant() say"""
    return kernel.variance_table(repo, "C17-R7")


def rules():
    return [
        RuleSpec("C17-R1", "origin of use-site projections (all WildCardType construction sites)", 6, r1_projections),
        RuleSpec("C17-R2", "origin of contravariant projections", 8, r2_contravariant),
        RuleSpec("C17-R3", "origin of type-parameter bounds", 5, r3_bounds),
        RuleSpec("C17-R4", "origin of function type parameters", 4, r4_parameterized_functions),
        RuleSpec("C17-R5", "declaration-site variance only for Kotlin/Scala classes", 6, r5_variance),
        RuleSpec("C17-R6", "switch wiring in src/args.py", 6, r6_wiring),
        RuleSpec("C17-R7", "the three variance objects answer their own predicates", 4, r7_variance),
    ]


# -- variants -------------------------------------------------------------------------

def _v_unguarded_wildcard(tree):
    f = V.find_def(tree, "_compute_type_variable_assignments")
    c = V.one([n for n in ast.walk(f) if V.is_call_named(n, "WildCardType")])
    iff = V.one([n for n in ast.walk(f) if isinstance(n, ast.If) and any(x is c for x in ast.walk(n))
                 and "is_invariant" in ast.unparse(n.test)])
    iff.test = V.parse_expr("not cls_type.is_wildcard()")
    c.args[1] = V.parse_expr("tp.Covariant")


def _v_new_site(tree):
    f = V.find_def(tree, "to_type")
    r = f.body[-1]
    V.insert_before(tree, r, V.parse_stmts("if stype.is_parameterized() and stype.type_args:\n    stype = stype.t_constructor.new([tp.WildCardType(stype.type_args[0], tp.Covariant)] + stype.type_args[1:])"))


def _v_contra_unguarded(tree):
    f = V.find_def(tree, "_find_candidate_type_args")
    c = V.one([n for n in ast.walk(f) if V.is_call_named(n, "WildCardType")])
    c.args[1] = V.parse_expr("tp.Contravariant")


def _v_bound_unconditional(tree):
    f = V.find_def(tree, "Generator.gen_type_params")
    iff = V.one([n for n in ast.walk(f) if isinstance(n, ast.If) and "bounded_type_parameters" in ast.unparse(n.test)])
    iff.test = V.parse_expr("ut.random.bool(cfg.prob.bounded_type_parameters) or count == 1")


def _v_bool_le(tree):
    f = V.find_def(tree, "RandomUtils.bool")
    f.body[-1].value.ops = [ast.LtE()]


def _v_fresh_bound_store(tree):
    f = V.find_def(tree, "Generator._create_type_params_from_etype")
    st = V.one([n for n in ast.walk(f) if isinstance(n, ast.Assign) and ast.unparse(n) == "type_param.bound = None"])
    st.value = V.parse_expr("self.select_type(exclude_arrays=True)")


def _v_func_variance(tree):
    f = V.find_def(tree, "Generator.gen_func_decl")
    c = V.one([n for n in ast.walk(f) if V.is_call_named(n, "gen_type_params")])
    for k in c.keywords:
        if k.arg == "with_variance":
            k.value = ast.Constant(value=True)


def _v_func_params_unconditional(tree):
    f = V.find_def(tree, "Generator.gen_func_decl")
    x = V.one([n for n in ast.walk(f) if isinstance(n, ast.IfExp) and "parameterized_functions" in ast.unparse(n.test)])
    x.test = V.parse_expr("ut.random.bool(prob=cfg.prob.parameterized_functions) or class_is_final")


def _v_java_variance(tree):
    f = V.find_def(tree, "Generator.gen_class_decl")
    c = V.one([n for n in ast.walk(f) if V.is_call_named(n, "gen_type_params")])
    for k in c.keywords:
        if k.arg == "with_variance":
            k.value = V.parse_expr("self.language in ['kotlin', 'scala', 'java']")


def _v_wiring(tree):
    for n in tree.body:
        if isinstance(n, ast.Assign) and ast.unparse(n.targets[0]) == "cfg.dis.use_site_variance":
            n.value = V.parse_expr("args.disable_contravariance_use_site")
            return
    raise V.SkipVariant("wiring")


def _v_elif_wiring(tree):
    ifs = [n for n in tree.body if isinstance(n, ast.If) and "disable_" in ast.unparse(n.test)]
    if len(ifs) < 2:
        raise V.SkipVariant("ifs")
    a, b = ifs[0], ifs[1]
    tree.body.remove(b)
    a.orelse = [b]


def _v_variance_store(tree):
    f = V.find_def(tree, "Generator._create_type_params_from_etype")
    st = [n for n in ast.walk(f) if isinstance(n, ast.Assign) and ast.unparse(n.targets[0]).endswith(".variance")]
    V.remove_stmt(tree, V.one(st)) if False else None
    st[0].value = V.parse_expr("tp.Covariant")


def _t_rename(tree):
    f = V.find_def(tree, "Generator.gen_type_params")
    V.rename_local(f, "type_param_names", "taken")
    V.rename_local(f, "limit", "upper")


def variants():
    g = "src/generators/generator.py"
    tu = "src/ir/type_utils.py"
    return [
        V.Variant("unguarded covariant projection in _compute_type_variable_assignments", tu, _v_unguarded_wildcard, {"C17-R1"}),
        V.Variant("new projection site in to_type", tu, _v_new_site, {"C17-R1"}),
        V.Variant("derived site produces a contravariant projection", tu, _v_contra_unguarded, {"C17-R2"}),
        V.Variant("bound drawn although the probability is 0 (count == 1)", g, _v_bound_unconditional, {"C17-R3"}),
        V.Variant("RandomUtils.bool uses <=", "src/utils.py", _v_bool_le, {"C17-R3"}),
        V.Variant("fresh bound stored in _create_type_params_from_etype", g, _v_fresh_bound_store, {"C17-R3"}),
        V.Variant("function type parameters generated with variance", g, _v_func_variance, {"C17-R5"}),
        V.Variant("function type parameters drawn although disabled", g, _v_func_params_unconditional, {"C17-R4"}),
        V.Variant("declaration-site variance for Java classes", g, _v_java_variance, {"C17-R5"}),
        V.Variant("variant type parameter stored", g, _v_variance_store, {"C17-R5"}),
        V.Variant("second probability switch chained with elif", "src/args.py", _v_elif_wiring, {"C17-R6"}),
        V.Variant("--disable-use-site-variance wired to the other flag", "src/args.py", _v_wiring, {"C17-R6"}),
        V.Variant("twin: rename locals in gen_type_params", g, _t_rename, None, twin=True),
        V.Variant("twin: whole tree reformatted by ast.unparse", None, None, None, twin=True),
    ]
