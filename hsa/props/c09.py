"""C09 - subtype search and irrelevant-type search return only what they promise (structural part)."""
import ast

from ..repo import AnalysisError
from ..report import Ob, RuleSpec
from ..astutil import (always_leaves, flatten_guard, src, flat_guards, calls_in, call_name, kwarg, const_value,
                       iter_own_nodes, ancestors, is_within)
from ..cfg import cfg_of, Prov, resolve_local
from .. import variants as V

PROPERTY = "C09"
TITLE = "Subtype search and irrelevant-type search return only what they promise"
DECIDES = ("Decided: what can enter the result set of _find_types in subtype mode (only a candidate tested with "
           "candidate.is_subtype(etype), the constructed related type, or etype itself), that etype is included exactly "
           "when asked (add/discard after every other insertion), that concrete_only maps every element through to_type, "
           "the mode wiring of find_subtypes / find_supertypes, and for find_irrelevant_type: None for the top type, type "
           "variables replaced by their bound, the pool minus BOTH supertypes and subtypes (include_self), and that an "
           "instantiated generic candidate is tested against the query type before it is returned; nested searches for "
           "type arguments are concrete and run in the query direction in covariant, against it in contravariant position. Also: the supertype closure the searches rest on is a complete worklist closure.")
NOT_DECIDED = "soundness of _construct_related_types (randomised, value level)."

TU = "src.ir.type_utils"


def _w(f, node=None):
    return "%s:%d" % (f.module.relpath, (node or f.node).lineno)


def _g(node, stop=None):
    return [(src(t), p) for t, p in flat_guards(node, stop)]


def r1_r2_r3_find_types(repo):
    f = repo.fn(TU + "._find_types")
    p = f.params
    if p[:4] != ["etype", "types", "get_subtypes", "include_self"]:
        raise AnalysisError("_find_types signature changed: %s" % p, rule="C09-R1", anchor=f.qualname)
    et = p[0]
    g = cfg_of(f.node)
    obs = []
    setname = None
    inits = [n for n in iter_own_nodes(f.node) if isinstance(n, ast.Assign) and isinstance(n.targets[0], ast.Name)
             and isinstance(n.value, ast.Call) and src(n.value) == "set()"]
    if len(inits) != 1:
        raise AnalysisError("_find_types: result set initialisation not found", rule="C09-R1", anchor=f.qualname)
    setname = inits[0].targets[0].id
    gs = _g(inits[0])
    obs.append(Ob("C09-R1", "subtype-mode:starts-empty", _w(f, inits[0]), ("get_subtypes", True) in gs or
                  ("not get_subtypes", False) in gs or ("get_subtypes", False) not in gs and any("get_subtypes" in s for s, _ in gs),
                  "in subtype mode the result starts as an empty set; guards %s" % gs))
    adds = [c for c in calls_in(f.node) if call_name(c) in ("add", "update", "append", "extend") and
            src(c.func.value) == setname]
    kinds = []
    for a in adds:
        ag = _g(a)
        arg = a.args[0]
        if src(arg) == et:
            kinds.append(("self", a, ag))
        elif isinstance(arg, ast.Call) and call_name(arg) == "_construct_related_types":
            kinds.append(("related", a, ag))
        else:
            kinds.append(("candidate", a, ag))
    cands = [k for k in kinds if k[0] == "candidate"]
    ok, msg = len(cands) == 1, "expected one insertion of a candidate, found %d" % len(cands)
    if ok:
        _k, a, ag = cands[0]
        nm = src(a.args[0])
        ok = ("%s.is_subtype(%s)" % (nm, et), True) in ag
        rev = ("%s.is_subtype(%s)" % (et, nm), True) in ag
        msg = ("a candidate enters the result only under `%s.is_subtype(%s)` (candidate is the receiver)%s; guards %s"
               % (nm, et, " - found the reversed test" if rev else "", ag))
        # the candidate derives from the loop over `types`
        lp = [x for x in ancestors(a) if isinstance(x, ast.For)]
        ok = ok and bool(lp) and src(lp[0].iter) == p[1]
    obs.append(Ob("C09-R1", "subtype-mode:candidate-tested-as-receiver", _w(f), ok, msg))
    rel = [k for k in kinds if k[0] == "related"]
    ok = len(rel) == 1 and src(rel[0][1].args[0].args[0]) == et and \
        any("isinstance(%s, tp.ParameterizedType)" % et == s and pol for s, pol in rel[0][2]) and \
        src(rel[0][1].args[0].args[2]) == "get_subtypes"
    obs.append(Ob("C09-R1", "related-type-constructed-from-etype-in-the-same-mode", _w(f), ok,
                  "the one structurally related instantiation must be _construct_related_types(etype, types, get_subtypes, ...) "
                  "for a parameterized etype"))
    selfs = [k for k in kinds if k[0] == "self"]
    obs.append(Ob("C09-R1", "no-other-insertion", _w(f), len(kinds) == len(cands) + len(rel) + len(selfs) and len(selfs) <= 1,
                  "insertions into the result: %s" % [(k[0], k[1].lineno) for k in kinds]))
    # R2
    discards = [c for c in calls_in(f.node) if call_name(c) in ("discard", "remove") and src(c.func.value) == setname]
    ok = len(selfs) == 1 and len(discards) == 1 and src(discards[0].args[0]) == et
    msg = "expected `if include_self: add(etype) else: discard(etype)`"
    if ok:
        ga, gd = selfs[0][2], _g(discards[0])
        ok = ga == [("include_self", True)] and gd == [("include_self", False)]
        other = [g.node(k[1]) for k in kinds if k[0] != "self"]
        dn, an = g.node(discards[0]), g.node(selfs[0][1])
        late = all(not g.path_exists_avoiding(dn, o, []) and not g.path_exists_avoiding(an, o, []) for o in other)
        ok = ok and late
        msg = ("etype is added iff include_self and discarded otherwise (guards %s / %s), after every other insertion (%s)"
               % (ga, gd, late))
    obs.append(Ob("C09-R2", "self-included-exactly-when-asked", _w(f), ok, msg))
    # R3
    rets = [n for n in iter_own_nodes(f.node) if isinstance(n, ast.Return)]
    ok, msg = len(rets) == 1, "expected one return"
    if ok:
        v = rets[0].value
        ok = isinstance(v, ast.IfExp) and src(v.test) == "concrete_only" and isinstance(v.body, ast.ListComp) and \
            isinstance(v.body.elt, ast.Call) and call_name(v.body.elt) == "to_type" and \
            src(v.body.elt.args[0]) == src(v.body.generators[0].target) and not v.body.generators[0].ifs and \
            src(v.body.generators[0].iter) == src(v.orelse.args[0] if isinstance(v.orelse, ast.Call) else v.orelse)
        msg = "under concrete_only every element must pass through to_type (no filter); found %s" % src(v)
    obs.append(Ob("C09-R3", "concrete_only-maps-every-element-through-to_type", _w(f), ok, msg))
    tt = repo.fn(TU + ".to_type")
    inst = [n for n in iter_own_nodes(tt.node) if isinstance(n, ast.Assign) and isinstance(n.value, ast.Call) and
            call_name(n.value) == "instantiate_type_constructor"]
    ok = len(inst) == 1 and ("%s.is_type_constructor()" % tt.params[0], True) in _g(inst[0]) and \
        src(inst[0].value.args[0]) == tt.params[0] and isinstance(tt.node.body[-1], ast.Return) and \
        src(tt.node.body[-1].value) == tt.params[0]
    obs.append(Ob("C09-R3", "to_type-instantiates-type-constructors", _w(tt), ok,
                  "to_type must replace a type constructor by its instantiation and return it"))
    # supertype mode filter
    flt = [n for n in iter_own_nodes(f.node) if isinstance(n, ast.Assign) and isinstance(n.value, ast.SetComp)]
    ok = len(flt) == 1
    if ok:
        sc = flt[0].value
        v = src(sc.generators[0].target)
        ok = [src(i) for i in sc.generators[0].ifs] == ["%s.is_subtype(bound)" % v] and \
            ("get_subtypes", False) in _g(flt[0]) and ("bound", True) in _g(flt[0])
    obs.append(Ob("C09-R4", "supertype-mode:upper-bound-filter", _w(f), ok,
                  "supertype mode keeps only supertypes that are subtypes of `bound` (candidate.is_subtype(bound))"))
    sup = [n for n in iter_own_nodes(f.node) if isinstance(n, ast.Assign) and src(n.targets[0]) == setname and
           src(n.value) == "%s.get_supertypes()" % et]
    ok = len(sup) == 1 and ("get_subtypes", False) in _g(sup[0])
    obs.append(Ob("C09-R4", "supertype-mode:starts-from-get_supertypes", _w(f), ok,
                  "supertype mode starts from etype.get_supertypes()"))
    return obs


def r4_wiring(repo):
    obs = []
    for name, mode in (("find_subtypes", True), ("find_supertypes", False)):
        f = repo.fn(TU + "." + name)
        cs = [c for c in calls_in(f.node) if call_name(c) == "_find_types"]
        ok = len(cs) == 1 and const_value(kwarg(cs[0], "get_subtypes", 2)) is mode and \
            [src(a) for a in cs[0].args[:2]] == f.params[:2] and \
            src(kwarg(cs[0], "include_self", 3)) == "include_self" and \
            src(kwarg(cs[0], "concrete_only", 5)) == "concrete_only" and \
            isinstance(f.node.body[-1], ast.Return) and f.node.body[-1].value is cs[0]
        if name == "find_supertypes":
            ok = ok and src(kwarg(cs[0], "bound", 4)) == "bound"
        obs.append(Ob("C09-R4", "%s:mode-and-flags-forwarded" % name, _w(f), ok,
                      "%s must return _find_types(etype, types, get_subtypes=%s, include_self=include_self, "
                      "concrete_only=concrete_only...); found %s" % (name, mode, [src(c) for c in cs])))
    return obs


def r5_r6_irrelevant(repo):
    f = repo.fn(TU + ".find_irrelevant_type")
    et, types, factory = f.params[:3]
    obs = []
    g = cfg_of(f.node)
    prov = Prov(f.node)
    # top type
    first_ret = [n for n in iter_own_nodes(f.node) if isinstance(n, ast.Return) and
                 ("%s == %s.get_any_type()" % (et, factory), True) in _g(n)]
    ok = len(first_ret) == 1 and const_value(first_ret[0].value, 1) is None
    if ok:
        # it precedes any search
        searches = [c for c in calls_in(f.node) if call_name(c) in ("find_supertypes", "find_subtypes", "choice")]
        ok = all(g.dominates(g.node(first_ret[0]._parent), g.node(c)) for c in searches)
    obs.append(Ob("C09-R5", "top-type-gives-None", _w(f), ok,
                  "find_irrelevant_type must return None for factory.get_any_type() before anything else"))
    # type variable -> bound
    rb = [n for n in iter_own_nodes(f.node) if isinstance(n, ast.Assign) and src(n.targets[0]) == et and
          ("isinstance(%s, tp.TypeParameter)" % et, True) in _g(n)]
    ub = [n for n in iter_own_nodes(f.node) if isinstance(n, ast.Return) and isinstance(n.value, ast.Call) and
          call_name(n.value) == "choose_type"]
    ok, chain = False, False
    bname = None
    if len(rb) == 1:
        v = rb[0].value
        if isinstance(v, ast.Name):
            bname = v.id
            defs = [n for n in iter_own_nodes(f.node) if isinstance(n, ast.Assign) and src(n.targets[0]) == bname]
            starts = any(src(n.value) == "%s.bound" % et for n in defs)
            # the bound of a type variable may be a type variable again (T : U, U : Foo): the chain is followed to the
            # first bound that is not one - searching on U itself leaves Foo "available"
            chain = any(isinstance(w, ast.While) and "%s.is_type_var()" % bname in src(w.test) and
                        any(isinstance(n, ast.Assign) and src(n.targets[0]) == bname and src(n.value) == "%s.bound" % bname
                            for n in ast.walk(w)) for w in iter_own_nodes(f.node))
            ok = starts
        elif isinstance(v, ast.Call) and call_name(v) == "get_bound_rec":
            ok = chain = True
            bname = src(v)
        elif src(v) == "%s.bound" % et:
            ok, bname = True, "%s.bound" % et
    ok = ok and len(ub) == 1 and bname is not None and any(pol and "%s is None" % bname in s for s, pol in _g(ub[0]))
    obs.append(Ob("C09-R5", "type-variable-replaced-by-its-bound", _w(f), ok,
                  "a type variable is replaced by its bound; an unbounded one may get any regular type"))
    obs.append(Ob("C09-R5", "chain-of-type-variable-bounds-followed", _w(f, rb[0] if rb else None), ok and chain,
                  "the bound of a type variable may itself be a type variable (T : U, U : Foo): the replacement must follow "
                  "the chain (`while b.is_type_var(): b = b.bound`, or get_bound_rec) - otherwise the search runs on U and "
                  "Foo, a supertype of everything T can be, is returned as irrelevant"))
    # the pool
    pools = [n for n in iter_own_nodes(f.node) if isinstance(n, ast.Assign) and isinstance(n.value, ast.ListComp)
             and any("not in" in src(i) for i in n.value.generators[0].ifs)]
    ok, msg = len(pools) == 1, "available-types comprehension `[t for t in types if t not in relevant]` not found"
    rel_calls = []
    if ok:
        lc = pools[0].value
        cond = lc.generators[0].ifs[0]
        relname = cond.comparators[0]
        srcs = prov.sources(relname, at=pools[0])
        rel_calls = [s for s in srcs if isinstance(s, ast.Call) and call_name(s) in ("find_supertypes", "find_subtypes")]
        names = {call_name(c) for c in rel_calls}
        inc = all(const_value(kwarg(c, "include_self", 2)) is True and src(c.args[0]) == et for c in rel_calls)
        ok = names == {"find_supertypes", "find_subtypes"} and inc and src(lc.generators[0].iter) == types and \
            src(lc.elt) == src(lc.generators[0].target) and len(lc.generators[0].ifs) == 1
        msg = ("the pool must be `types` minus a collection built from BOTH find_supertypes(etype, include_self=True) and "
               "find_subtypes(etype, include_self=True); found searches %s include_self-ok=%s" % (sorted(names), inc))
    obs.append(Ob("C09-R5", "pool-excludes-supertypes-and-subtypes", _w(f), ok, msg))
    ch = [c for c in calls_in(f.node) if call_name(c) == "choice"]
    ok = len(ch) == 1 and bool(pools) and src(ch[0].args[0]) == src(pools[0].targets[0])
    emp = [n for n in iter_own_nodes(f.node) if isinstance(n, ast.Return) and pools and
           ("%s" % src(pools[0].targets[0]), False) in _g(n)]
    ok = ok and len(emp) == 1 and const_value(emp[0].value, 1) is None
    obs.append(Ob("C09-R5", "chosen-from-the-pool-or-None", _w(f), ok,
                  "the result is chosen from that pool; an empty pool gives None"))
    # generic candidate
    gp = repo.fn(TU + ".get_irrelevant_parameterized_type")
    same = [n for n in iter_own_nodes(gp.node) if isinstance(n, ast.Return) and
            any("new_type_args == type_args" in s and pol for s, pol in _g(n))]
    ok = len(same) == 1 and const_value(same[0].value, 1) is None
    obs.append(Ob("C09-R5", "parameterized:None-when-no-argument-changed", _w(gp), ok,
                  "get_irrelevant_parameterized_type must return None when it could not change any argument"))
    # R6
    calls = [c for c in calls_in(f.node) if call_name(c) == "get_irrelevant_parameterized_type"]
    ok, msg = False, "call of get_irrelevant_parameterized_type not found"
    if len(calls) == 1:
        c = calls[0]
        st = c._parent
        tested = False
        how = "returned directly without a relatedness test"
        if isinstance(st, ast.Assign) and isinstance(st.targets[0], ast.Name):
            nm = st.targets[0].id
            # every return of that value must be on a path where it was tested against etype
            rets = [n for n in iter_own_nodes(f.node) if isinstance(n, ast.Return) and n.value is not None and
                    any(d[1] is c for d in g.defs_reaching(nm, n) if True) and src(n.value) == nm]
            good = bool(rets)
            for r in rets:
                gs = _g(r)
                rel_ok = any(("%s.not_related(%s)" % (nm, et) == s and pol) or
                             ("%s.not_related(%s)" % (et, nm) == s and pol) for s, pol in gs)
                # or: None-or-not_related via a leaving `if t is not None and not t.not_related(etype): return None`
                if not rel_ok:
                    # a negative compound guard (the leaving test): every conjunct must be one of: the relatedness test,
                    # `t is not None` / `t`, or the structural fact that t came out of the instantiating branch - any
                    # other conjunct (a flag, a table lookup) lets related results through when it is false
                    for t_, pol in flat_guards(r):
                        if pol or "not_related(" not in src(t_):
                            continue
                        conj = [(" ".join(src(a).split()), b) for a, b in flatten_guard(t_, True)]
                        allowed = {("%s.not_related(%s)" % (nm, et), False), ("%s.not_related(%s)" % (et, nm), False),
                                   ("%s is None" % nm, False), (nm, True), ("%s.is_type_constructor()" % nm, True),
                                   ("t.is_type_constructor()", True)}
                        if conj and all(x in allowed for x in conj) and any("not_related(" in x[0] for x in conj):
                            rel_ok = True
                both = any("%s.is_subtype(%s)" % (nm, et) in s for s, _ in gs) and \
                    any("%s.is_subtype(%s)" % (et, nm) in s for s, _ in gs)
                good = good and (rel_ok or both)
            tested = good
            how = "guards of the returns: %s" % [_g(r) for r in rets]
            if not tested:
                # leaving-if form right after the instantiation:
                #   if t is not None and not t.not_related(etype): return None
                blk = st._parent.body if st in getattr(st._parent, "body", []) else []
                after = blk[blk.index(st) + 1:] if blk else []
                for s2 in after:
                    if isinstance(s2, ast.Assign) and any(src(t_) == nm for t_ in s2.targets):
                        break
                    if isinstance(s2, ast.If) and always_leaves(s2.body) and \
                            all(isinstance(x, ast.Return) and const_value(x.value, 1) is None
                                for x in s2.body if isinstance(x, ast.Return)):
                        leaves = [(src(a), b) for a, b in flatten_guard(s2.test, True)]
                        rel = [l for l in leaves if l in (("%s.not_related(%s)" % (nm, et), False),
                                                          ("%s.not_related(%s)" % (et, nm), False))]
                        rest = [l for l in leaves if l not in rel and l != ("%s is None" % nm, False)
                                and l != (nm, True)]
                        if rel and not rest:
                            tested = True
                            how = "leaving test `%s` directly after the instantiation" % src(s2.test)
                            break
        # alternative (a): steered at constructor level inside get_irrelevant_parameterized_type
        steer = any(call_name(x) in ("is_subtype", "not_related") for x in calls_in(gp.node)
                    if "etype" in src(x) and "type_args" not in src(x))
        ok = tested
        msg = ("the pool is `types` (generic classes appear as type constructors) minus instantiations, so a generic "
               "subclass/superclass of the query can be chosen and instantiated freely; the instantiated result must be "
               "tested with not_related (or is_subtype both ways) against the query before it is returned; %s" % how)
    obs.append(Ob("C09-R6", "generic-relative-cannot-slip-through", _w(f), ok, msg))
    return obs


def r7_nested_concrete(repo):
    f = repo.fn(TU + "._find_candidate_type_args")
    cs = [c for c in calls_in(f.node) if call_name(c) == "_find_types"]
    obs = []
    for i, c in enumerate(cs):
        co = kwarg(c, "concrete_only", 5)
        inc = kwarg(c, "include_self", 3)
        obs.append(Ob("C09-R7", "_find_candidate_type_args:_find_types#%d:concrete-and-including-self" % i, _w(f, c),
                      co is not None and const_value(co) is True and inc is not None and const_value(inc) is True,
                      "candidate type ARGUMENTS must be concrete (concrete_only=True maps generic classes through to_type); "
                      "otherwise a raw generic class ends up inside the type arguments of a returned type, where the outer "
                      "to_type does not look; found concrete_only=%s include_self=%s"
                      % (src(co) if co is not None else "default False", src(inc) if inc is not None else "default")))
    # every nested search is limited by the type parameter's (substituted) bound: a candidate outside it is not a
    # legal type argument whatever the variance says
    prov = Prov(f.node, passthrough={"substitute_type"})
    for i, c in enumerate(cs):
        b = kwarg(c, "bound", 4)
        leaves = [src(l) for l in prov.sources(b) if isinstance(l, ast.AST)] if b is not None else []
        okb = b is not None and any(l.endswith(".bound") and l.startswith(f.params[0] + ".") for l in leaves)
        obs.append(Ob("C09-R7", "_find_candidate_type_args:_find_types#%d:limited-by-the-parameter's-bound" % i, _w(f, c), okb,
                      "the search must receive the bound of `%s` (substituted with the current assignments) as its `bound` "
                      "argument; found %s deriving from %s" % (f.params[0], src(b) if b is not None else "no bound argument", leaves[:4])))
    # direction of each nested search: along the query direction in covariant position, against it in contravariant one
    gs_name = f.params[3]

    def direction_of(d):
        if d is None:
            return "?"
        if isinstance(d, ast.Name) and d.id == gs_name:
            return "same"
        if isinstance(d, ast.UnaryOp) and isinstance(d.op, ast.Not) and isinstance(d.operand, ast.Name) and \
                d.operand.id == gs_name:
            return "reversed"
        return "other:" + src(d)

    def context_of(g):
        pos = {t.split(".")[-1] for t, pol in g if pol}
        neg = {t.split(".")[-1] for t, pol in g if not pol}
        if "is_covariant()" in pos:
            return "covariant"
        if "is_contravariant()" in pos or {"is_covariant()", "is_invariant()"} <= neg:
            return "contravariant"
        return "undetermined"

    for i, c in enumerate(cs):
        d = resolve_local(f.node, kwarg(c, "get_subtypes", 2), c)
        g = _g(c)
        # a conditional direction (`a if t.is_covariant() else b`) is one case per branch
        cases = [(g, d)]
        if isinstance(d, ast.IfExp):
            cases = [(g + [(src(t_), p_) for t_, p_ in flatten_guard(d.test, True)], d.body),
                     (g + [(src(t_), p_) for t_, p_ in flatten_guard(d.test, False)], d.orelse)]
        okd, detail = True, []
        for gg, dd in cases:
            ctx, direction = context_of(gg), direction_of(dd)
            want = {"covariant": "same", "contravariant": "reversed"}.get(ctx)
            detail.append("%s position -> %s direction" % (ctx, direction))
            if want is None or direction != want:
                okd = False
        obs.append(Ob("C09-R7", "_find_candidate_type_args:_find_types#%d:direction-follows-variance" % i, _w(f, c), okd,
                      "a nested search for type arguments runs in the query direction where the position is covariant and "
                      "in the opposite direction where it is contravariant; this call: %s (guards %s)"
                      % ("; ".join(detail), [t for t, p_ in g if p_] + ["not " + t for t, p_ in g if not p_])))
    return obs


def class_table_rule(repo, rid):
    """`Program.get_types()` is the class table the mutations hand to the searches.  find_irrelevant_type keeps its
    promise only for a table in which (a) user classes are the *declarations* (its `_cls2type` turns them into the class
    type or the type constructor, so a generic class takes the guarded generic path - an instantiation `d.get_type()` is
    one random relative that the final relatedness test never sees) and (b) built-in constructors are instantiated
    invariantly (`instantiate_type_constructor(t, ttypes)` with the default variance choices: a projection `Array<out X>`
    in the table is a supertype of `Array<X>` that the nominal exclusion by name and type arguments does not exclude)."""
    obs = []
    f = repo.method("src.ir.ast.Program", "get_types", inherited=False)
    me = f.params[0]
    comps = [n for n in iter_own_nodes(f.node) if isinstance(n, (ast.ListComp, ast.GeneratorExp)) and
             any(src(g.iter) == me + ".declarations" for g in n.generators)]
    loops = [n for n in iter_own_nodes(f.node) if isinstance(n, ast.For) and src(n.iter) == me + ".declarations"]
    ok_a, found = False, "no selection of the class declarations from %s.declarations" % me
    if len(comps) == 1 and not loops:
        c = comps[0]
        tv = src(c.generators[0].target)
        ok_a = len(c.generators) == 1 and src(c.elt) == tv
        found = "element `%s` for `%s` in %s.declarations" % (src(c.elt), tv, me)
    elif len(loops) == 1 and not comps:
        tv = src(loops[0].target)
        apps = [k for k in calls_in(loops[0]) if call_name(k) == "append"]
        ok_a = bool(apps) and all(len(k.args) == 1 and src(k.args[0]) == tv for k in apps)
        found = "appends %s for `%s`" % ([src(k) for k in apps], tv)
    obs.append(Ob(rid, "Program.get_types:user-classes-enter-as-declarations", _w(f), ok_a,
                  "the user classes of the table must be the ClassDeclaration objects themselves; found %s" % found))
    inst = [k for k in calls_in(f.node) if call_name(k) == "instantiate_type_constructor"]
    bad = []
    for k in inst:
        vc = kwarg(k, "variance_choices", 4)
        if vc is not None and not (isinstance(vc, ast.Constant) and vc.value is None):
            bad.append(src(k))
        if any(kw.arg is None for kw in k.keywords):
            bad.append(src(k))
    obs.append(Ob(rid, "Program.get_types:builtin-constructors-instantiated-invariantly", _w(f), bool(inst) and not bad,
                  "%d instantiation site(s); with variance choices (projections enter the table): %s" % (len(inst), bad)))
    return obs


def r8_class_table(repo):
    return class_table_rule(repo, "C09-R8")


def r9_supertype_closure(repo):
    """find_supertypes and the relevance test of find_irrelevant_type rest on Type.get_supertypes, a worklist closure over
    `.supertypes`: seed, complete expansion, push iff unvisited (same schema as the graph queries of C19)"""
    from .c19 import closure_obligations
    return closure_obligations(repo.method("src.ir.types.Type", "get_supertypes", inherited=False), "C09-R9",
                               "Type.get_supertypes", "self", "supertypes")


def rules():
    return [
        RuleSpec("C09-R1", "_find_types: what enters the result / self / concreteness / modes", 9, r1_r2_r3_find_types),
        RuleSpec("C09-R4", "find_subtypes / find_supertypes wiring", 2, r4_wiring),
        RuleSpec("C09-R5", "find_irrelevant_type: top type, bound, pool, final relatedness test", 6, r5_r6_irrelevant),
        RuleSpec("C09-R7", "nested searches for type arguments are concrete and run in the direction the variance demands", 4, r7_nested_concrete),
        RuleSpec("C09-R8", "the class table handed to the searches: declarations, invariant built-in instantiations", 2, r8_class_table),
        RuleSpec("C09-R9", "the supertype closure is complete (worklist over .supertypes)", 6, r9_supertype_closure),
    ]


# -- variants --------------------------------------------------------------------

def _ft(tree):
    return V.find_def(tree, "_find_types")


def _v_reversed(tree):
    f = _ft(tree)
    iff = V.one([n for n in ast.walk(f) if isinstance(n, ast.If) and ast.unparse(n.test) == "selected_type.is_subtype(etype)"])
    iff.test = V.parse_expr("etype.is_subtype(selected_type)")


def _v_unfiltered_add(tree):
    f = _ft(tree)
    iff = V.one([n for n in ast.walk(f) if isinstance(n, ast.If) and ast.unparse(n.test) == "selected_type.is_subtype(etype)"])
    iff.test = V.parse_expr("selected_type.is_subtype(etype) or selected_type.name == etype.name")


def _v_drop_discard(tree):
    f = _ft(tree)
    iff = V.one([n for n in f.body if isinstance(n, ast.If) and ast.unparse(n.test) == "include_self"])
    iff.orelse = []


def _v_discard_early(tree):
    f = _ft(tree)
    iff = V.one([n for n in f.body if isinstance(n, ast.If) and ast.unparse(n.test) == "include_self"])
    rel = V.one([n for n in f.body if isinstance(n, ast.If) and "ParameterizedType" in ast.unparse(n.test)])
    f.body.remove(iff)
    f.body.insert(f.body.index(rel), iff)


def _v_concrete_filter(tree):
    f = _ft(tree)
    r = f.body[-1]
    r.value = V.parse_expr("list(t_set)")


def _v_subtypes_mode_false(tree):
    f = V.find_def(tree, "find_subtypes")
    c = V.one([n for n in ast.walk(f) if V.is_call_named(n, "_find_types")])
    for k in c.keywords:
        if k.arg == "get_subtypes":
            k.value = ast.Constant(value=False)


def _v_drop_subtypes_from_relevant(tree):
    f = V.find_def(tree, "find_irrelevant_type")
    st = V.one([n for n in ast.walk(f) if isinstance(n, ast.Assign) and ast.unparse(n.targets[0]) == "relevant_types"])
    st.value = V.parse_expr("supertypes")


def _v_no_include_self(tree):
    f = V.find_def(tree, "find_irrelevant_type")
    for c in [n for n in ast.walk(f) if V.is_call_named(n, "find_subtypes") or V.is_call_named(n, "find_supertypes")]:
        for k in c.keywords:
            if k.arg == "include_self":
                k.value = ast.Constant(value=False)


def _v_any_not_none(tree):
    f = V.find_def(tree, "find_irrelevant_type")
    iff = V.one([n for n in f.body if isinstance(n, ast.If) and "get_any_type()" in ast.unparse(n.test)
                 and isinstance(n.body[0], ast.Return)])
    f.body.remove(iff)


def _v_no_final_test(tree):
    f = V.find_def(tree, "find_irrelevant_type")
    iff = V.one([n for n in ast.walk(f) if isinstance(n, ast.If) and "not_related" in ast.unparse(n.test)])
    V.remove_stmt(tree, iff)


def _v_same_args_returned(tree):
    f = V.find_def(tree, "get_irrelevant_parameterized_type")
    iff = V.one([n for n in f.body if isinstance(n, ast.If) and "new_type_args == type_args" in ast.unparse(n.test)])
    f.body.remove(iff)


def _v_nested_not_concrete(tree):
    f = V.find_def(tree, "_find_candidate_type_args")
    c = [n for n in ast.walk(f) if V.is_call_named(n, "_find_types")]
    if not c:
        raise V.SkipVariant("calls")
    c[2].keywords = [k for k in c[2].keywords if k.arg != "concrete_only"]


def _t_rename(tree):
    f = _ft(tree)
    V.rename_local(f, "selected_type", "cand")
    V.rename_local(f, "t_set", "found")


def _v_direct_bound_only(tree):
    """the repaired defect: the search runs on the direct bound, which may be a type variable"""
    f = V.find_def(tree, "find_irrelevant_type")
    ws = [n for n in ast.walk(f) if isinstance(n, ast.While) and "is_type_var()" in ast.unparse(n.test)]
    if not ws:
        raise V.SkipVariant("bound chain loop")
    V.remove_stmt(tree, ws[0])


def variants():
    t = "src/ir/type_utils.py"
    return [
        V.Variant("find_irrelevant_type searches on the direct bound of a type variable only (the repaired defect)",
                  "src/ir/type_utils.py", _v_direct_bound_only, {"C09-R5"}),
        V.Variant("etype.is_subtype(candidate)", t, _v_reversed, {"C09-R1"}),
        V.Variant("same-named candidates accepted untested", t, _v_unfiltered_add, {"C09-R1"}),
        V.Variant("discard dropped", t, _v_drop_discard, {"C09-R2"}),
        V.Variant("include_self handled before the related type is added", t, _v_discard_early, {"C09-R2"}),
        V.Variant("concrete_only ignored", t, _v_concrete_filter, {"C09-R3"}),
        V.Variant("find_subtypes runs in supertype mode", t, _v_subtypes_mode_false, {"C09-R4"}),
        V.Variant("subtypes not excluded from the irrelevant pool", t, _v_drop_subtypes_from_relevant, {"C09-R5"}),
        V.Variant("query type itself not excluded", t, _v_no_include_self, {"C09-R5"}),
        V.Variant("top type no longer special", t, _v_any_not_none, {"C09-R5"}),
        V.Variant("unchanged arguments returned as irrelevant", t, _v_same_args_returned, {"C09-R5"}),
        V.Variant("final relatedness test removed (the repaired defect)", t, _v_no_final_test, {"C09-R6"}),
        V.Variant("nested projection search returns raw generic classes", t, _v_nested_not_concrete, {"C09-R7"}),
        V.Variant("twin: rename locals in _find_types", t, _t_rename, None, twin=True),
        V.Variant("twin: whole tree reformatted by ast.unparse", None, None, None, twin=True),
    ]
