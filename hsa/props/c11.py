"""C11 - translation is a pure function of the program."""
import ast

from ..repo import AnalysisError, FunctionInfo
from ..report import Ob, RuleSpec
from ..astutil import (src, flat_guards, calls_in, call_name, kwarg, const_value,
                       iter_own_nodes, ancestors, is_within, same)
from ..cfg import cfg_of, Prov
from ..irwrites import closure_effects
from ..translator import TRANSLATORS, DirtyAnalysis, dispatch_table, child_kinds
from .. import variants as V
from .. import kernel

PROPERTY = "C11"
TITLE = "Translation is a pure function of the program"
DECIDES = ("Decided: (a) a translator object is back in its initial state when visit_program returns - Java/Groovy: every "
           "attribute written outside __init__ is re-initialised in _reset_state with the expression __init__ uses and "
           "visit_program calls _reset_state on every path after storing the result; Kotlin/Scala: may-dirty analysis of "
           "every attribute through all visitors with save/restore recognition and the child-kind table of the IR; "
           "(b) no store in the call-graph closure of the four translators can reach the program (effect summaries), and "
           "the translators' own methods mutate none of their parameters (options dict included); "
           "(c) the text does not depend on ambient state: no time/environment/identity/hash calls in the closure, random "
           "numbers are drawn only inside Program.get_types() whose result flows only into parameters that are never "
           "read, and the only set that is iterated holds ints.")
NOT_DECIDED = ("byte-identity of the produced text itself (string building is value-level); exceptions that leave a "
               "translator half-way are outside the claim.")

OUT_ATTRS = {"program", "package"}
STACK_ATTRS = {"_children_res", "_nodes_stack"}
ENTRY_DEFINED = {"context", "types"}       # (re)defined at the entry of visit_program before any read
AMBIENT_NAMES = {"time", "datetime", "os.environ", "os.getpid", "uuid", "id", "hash", "getrandbits", "urandom"}


def _w(f, node=None):
    return "%s:%d" % (f.module.relpath, (node or f.node).lineno)


def _self_attr_writes(cls_or_fns):
    """{attr: [(FunctionInfo, node, kind)]} for self.<attr> stores / aug-stores / mutator calls"""
    out = {}
    for f in cls_or_fns:
        for n in iter_own_nodes(f.node):
            tgts = []
            if isinstance(n, ast.Assign):
                for t in n.targets:
                    tgts += list(t.elts) if isinstance(t, (ast.Tuple, ast.List)) else [t]
                kind = "store"
            elif isinstance(n, ast.AugAssign):
                tgts, kind = [n.target], "aug"
            elif isinstance(n, ast.Call) and isinstance(n.func, ast.Attribute) and \
                    n.func.attr in ("append", "extend", "add", "pop", "clear", "update", "remove", "insert", "discard",
                                    "setdefault", "popitem"):
                tgts, kind = [n.func.value], "mutate"
            else:
                continue
            for t in tgts:
                while isinstance(t, ast.Subscript):
                    t = t.value
                if isinstance(t, ast.Attribute) and isinstance(t.value, ast.Name) and t.value.id == "self":
                    out.setdefault(t.attr, []).append((f, n, kind))
    return out


def _class_functions(repo, cls):
    """own + inherited methods of the translator plus the inner functions of decorators it uses"""
    fns = []
    seen = set()
    for c in cls.mro():
        for n, m in c.methods.items():
            if cls.lookup(n) is m and m.qualname not in seen:
                seen.add(m.qualname)
                fns.append(m)
                for d in m.decorators:
                    base = d.func if isinstance(d, ast.Call) else d
                    tgt = repo.resolve_name_expr(base, m.module)
                    if isinstance(tgt, FunctionInfo):
                        for w in tgt.nested.values():
                            if w.qualname not in seen:
                                seen.add(w.qualname)
                                fns.append(w)
    return fns


def r1_reset(repo):
    obs = []
    for lang in ("java", "groovy"):
        cls = repo.cls(TRANSLATORS[lang])
        init = cls.methods.get("__init__")
        reset = cls.methods.get("_reset_state")
        vp = cls.methods.get("visit_program")
        if not (init and reset and vp):
            raise AnalysisError("%s lacks __init__/_reset_state/visit_program" % cls.name, rule="C11-R1", anchor=cls.qualname)
        fns = _class_functions(repo, cls)
        writes = _self_attr_writes(fns)
        init_vals = {}
        for c in reversed(cls.mro()):
            i = c.methods.get("__init__")
            if i:
                for n in iter_own_nodes(i.node):
                    if isinstance(n, (ast.Assign, ast.AnnAssign)):
                        t = n.targets[0] if isinstance(n, ast.Assign) else n.target
                        if isinstance(t, ast.Attribute) and src(t.value) == "self" and n.value is not None:
                            init_vals[t.attr] = n.value
        reset_vals = {}
        for n in iter_own_nodes(reset.node):
            if isinstance(n, ast.Assign) and isinstance(n.targets[0], ast.Attribute) and src(n.targets[0].value) == "self":
                reset_vals[n.targets[0].attr] = n.value
        n_checked = 0
        for attr in sorted(writes):
            outside = [(f, n, k) for f, n, k in writes[attr] if f.name not in ("__init__", "_reset_state")]
            if not outside or attr in OUT_ATTRS:
                continue
            n_checked += 1
            iv, rv = init_vals.get(attr), reset_vals.get(attr)
            ok = iv is not None and rv is not None and same(iv, rv)
            where = "%s:%d" % (outside[0][0].module.relpath, outside[0][1].lineno)
            obs.append(Ob("C11-R1", "%s:reset:%s" % (lang, attr), _w(reset), ok,
                          "attribute `%s` is written during a translation (e.g. %s) and must be re-initialised in "
                          "_reset_state exactly as in __init__: __init__ has `%s`, _reset_state has `%s`"
                          % (attr, where, src(iv) if iv is not None else None, src(rv) if rv is not None else None)))
        # reset call post-dominates the entry and follows the store of the result
        g = cfg_of(vp.node)
        calls = [c for c in calls_in(vp.node) if call_name(c) == "_reset_state" and src(c.func.value) == "self"]
        stores = [n for n in iter_own_nodes(vp.node) if isinstance(n, ast.Assign) and src(n.targets[0]) == "self.program"]
        ok = len(calls) == 1 and len(stores) >= 1 and g.postdominates(g.node(calls[0]), g.entry) and \
            all(g.dominates(g.node(s), g.node(calls[0])) or not g.path_exists_avoiding(g.node(calls[0]), g.node(s), [])
                for s in stores) and not flat_guards(calls[0]) and \
            not any(isinstance(n, ast.Return) for n in iter_own_nodes(vp.node))
        obs.append(Ob("C11-R1", "%s:visit_program-ends-with-reset" % lang, _w(vp), ok,
                      "visit_program must call self._reset_state() unconditionally on every path, after storing self.program"))
        # attributes that are mutated in place must be initialised AND reset with a fresh container
        for attr in sorted(writes):
            if not any(k == "mutate" for f_, n_, k in writes[attr] if f_.name not in ("__init__", "_reset_state")):
                continue
            if attr in OUT_ATTRS:
                continue
            vals = [("__init__", init_vals.get(attr)), ("_reset_state", reset_vals.get(attr))]
            bad = []
            for where_, v in vals:
                fresh = isinstance(v, (ast.List, ast.Dict, ast.Set, ast.Tuple)) or (
                    isinstance(v, ast.Call) and call_name(v) in ("list", "dict", "set", "OrderedDict", "defaultdict", "deque")
                    and all(isinstance(a, (ast.List, ast.Dict, ast.Set, ast.Tuple, ast.Constant)) for a in v.args))
                if fresh and isinstance(v, (ast.List, ast.Set, ast.Tuple)):
                    fresh = all(isinstance(e, ast.Constant) for e in v.elts)
                if not fresh:
                    bad.append("%s: `%s`" % (where_, src(v) if v is not None else None))
            obs.append(Ob("C11-R1", "%s:fresh-container:%s" % (lang, attr), _w(reset), not bad,
                          "`%s` is mutated in place during a translation, so __init__ and _reset_state must each install a "
                          "fresh literal container (a shared module-level object would carry entries over to other "
                          "translators and later translations): %s" % (attr, bad)))
        # reset itself writes only through plain assignments of literals / constants
        bad = [src(v) for a, v in reset_vals.items() if any(isinstance(x, ast.Call) for x in ast.walk(v))]
        obs.append(Ob("C11-R1", "%s:reset-values-are-constants" % lang, _w(reset), not bad,
                      "_reset_state must install constants (no calls): %s" % bad))
        if n_checked < 10:
            raise AnalysisError("%s: only %d written attributes found" % (lang, n_checked), rule="C11-R1", anchor=cls.qualname)
    return obs


def r2_neutral(repo):
    obs = []
    for lang in ("kotlin", "scala"):
        cls = repo.cls(TRANSLATORS[lang])
        fns = _class_functions(repo, cls)
        writes = _self_attr_writes(fns)
        attrs = sorted(a for a in writes
                       if any(f.name not in ("__init__", "_reset_state") for f, _n, _k in writes[a]))
        plain = [a for a in attrs if a not in STACK_ATTRS]
        da = DirtyAnalysis(repo, cls, plain)
        vp_dirty = da.summary.get("visit_program", set())
        allowed = set(OUT_ATTRS)
        # attributes assigned in visit_program before the first child is visited
        vp = cls.methods["visit_program"]
        first_visit = min([c.lineno for c in calls_in(vp.node) if call_name(c) in ("accept", "visit")] or [10 ** 9])
        for n in iter_own_nodes(vp.node):
            if isinstance(n, ast.Assign) and isinstance(n.targets[0], ast.Attribute) and \
                    src(n.targets[0].value) == "self" and n.lineno < first_visit and \
                    not flat_guards(n):
                allowed.add(n.targets[0].attr)
        for a in plain:
            ok = a not in vp_dirty or a in allowed
            culprits = sorted(m for m, d in da.summary.items() if a in d and m.startswith("visit_"))
            obs.append(Ob("C11-R2", "%s:visit_program-leaves-%s-clean" % (lang, a), _w(vp), ok,
                          "attribute `%s` may differ from its initial value when visit_program returns; visitors that "
                          "leave it dirty: %s" % (a, culprits) if not ok else
                          ("(re)defined at the entry of visit_program" if a in allowed else "clean at exit")))
        # per visitor: clean, or compensated by every possible parent visitor
        disp = da.disp
        for kind, vname in sorted(disp.items()):
            d = da.summary.get(vname, set()) - allowed
            if vname == "visit_program":
                continue
            for a in sorted(d):
                parents = da.parents_of(kind)
                comp = all(a not in da.summary.get(disp[p], set()) for p in parents)
                obs.append(Ob("C11-R2", "%s:%s-leaves-%s-dirty:compensated-by-parents" % (lang, vname, a),
                              _w(cls.lookup(vname)), comp and bool(parents),
                              "`%s` exits with `%s` changed; every visitor of a possible parent kind %s must restore it"
                              % (vname, a, parents)))
            if not d:
                obs.append(Ob("C11-R2", "%s:%s-neutral" % (lang, vname), _w(cls.lookup(vname)), True,
                              "all of %s equal to their entry values on every exit" % plain))
        # stack attribute _nodes_stack: only writers are the push/pop pair of append_to
        ns = [(f, n, k) for f, n, k in writes.get("_nodes_stack", []) if f.name not in ("__init__", "_reset_state")]
        okp = len(ns) == 2 and all(f.name == "inner" for f, _n, _k in ns) and \
            sorted(call_name(n) for _f, n, _k in ns) == ["append", "pop"]
        if okp:
            w = ns[0][0]
            g = cfg_of(w.node)
            push = [n for _f, n, _k in ns if call_name(n) == "append"][0]
            pop = [n for _f, n, _k in ns if call_name(n) == "pop"][0]
            okp = g.postdominates(g.node(pop), g.node(push)) and not flat_guards(push) and not flat_guards(pop)
        obs.append(Ob("C11-R2", "%s:_nodes_stack-balanced" % lang, _w(cls), okp,
                      "_nodes_stack must only be pushed and popped by the append_to wrapper around each visit"))
        if len(plain) < 4:
            raise AnalysisError("%s: only %d state attributes found" % (lang, len(plain)), rule="C11-R2", anchor=cls.qualname)
    return obs


def _top(f):
    while f.outer is not None:
        f = f.outer
    return f


def r3_no_ir_writes(repo):
    obs = []
    for lang, q in sorted(TRANSLATORS.items()):
        cls = repo.cls(q)
        E, fns, effs = closure_effects(repo, cls)
        bad = []
        counts = {}
        for f, e, (cat, detail) in effs:
            counts[cat] = counts.get(cat, 0) + 1
            if cat in ("ir-write", "ir-self"):
                # IR constructors reached through deepcopy/new are ctor-init; anything else is a write
                bad.append((f, e, cat))
            elif cat == "container-param":
                # a container parameter/local: accept only names whose objects are built by the translator
                pass
        for f, e, cat in bad:
            obs.append(Ob("C11-R3", "%s:write:%s:%s" % (lang, f.qualname, " ".join(e.text().split())[:70]), e.where, False,
                          "reachable from %s: %s - translating must not modify the program" % (cls.name, e.describe())))
        obs.append(Ob("C11-R3", "%s:no-store-reaches-the-program" % lang, _w(cls), not bad,
                      "%d functions in the call-graph closure, %d effects: %s" % (len(fns), len(effs), counts),
                      {"closure": len(fns), "by_category": counts}))
        # container writes: list them; the root must be a local/parameter that is not the visited node
        cont = [(f, e) for f, e, (cat, d) in effs if cat == "container-param"]
        node_rooted = [(f, e) for f, e in cont if e.root in ("node", "program", "context") or
                       any(t in ("param:node", "param:program", "param:context") for t in e.tags)]
        obs.append(Ob("C11-R3", "%s:container-writes-not-rooted-at-the-node" % lang, _w(cls), not node_rooted,
                      "%d container writes, rooted at the visited node / program / context: %s"
                      % (len(cont), [e.describe() for _f, e in node_rooted][:4])))
        # the translator's own methods (constructor included) get caller-owned objects as parameters (options dict,
        # program, nodes): none of them may be mutated as a container either (`options.pop(...)` changes what the next
        # translator built from the same options sees)
        own = {m.qualname for c in cls.mro() for m in c.methods.values()}
        own_param = [(f, e) for f, e in cont if (f.qualname in own or (f.outer is not None and _top(f).qualname in own))
                     and any(t.startswith("param:") for t in e.tags)]
        obs.append(Ob("C11-R3", "%s:translator-methods-mutate-no-parameter" % lang, _w(cls), not own_param,
                      "container mutations of a parameter inside the translator's own methods: %s"
                      % [e.describe() for _f, e in own_param][:4]))
        if len(fns) < 80:
            raise AnalysisError("closure of %s unexpectedly small (%d)" % (cls.name, len(fns)), rule="C11-R3", anchor=q)
    return obs


def r6_process_state(repo):
    """'after translating other programs': nothing may be carried from one translation to the next outside the translator
    object (whose state R1/R2 decide) - no mutated default argument, no mutated class-level container."""
    obs = []
    for lang, q in sorted(TRANSLATORS.items()):
        cls = repo.cls(q)
        E, fns, _effs = closure_effects(repo, cls)
        obs += kernel.process_state(repo, "C11-R6", lang, E, fns)
    return obs


def _unused_param_fixpoint(repo, start):
    """Greatest fixpoint: (function, param) pairs whose every occurrence is as a direct argument of a call at a
    position that is itself in the set."""
    cand = set()
    todo = list(start)
    info = {}
    while todo:
        f, p = todo.pop()
        if (f.qualname, p) in info:
            continue
        occ = []
        for n in iter_own_nodes(f.node):
            if isinstance(n, ast.Name) and n.id == p and isinstance(n.ctx, ast.Load):
                par = n._parent
                if isinstance(par, ast.keyword):
                    call = par._parent
                    occ.append((call, par.arg, None))
                elif isinstance(par, ast.Call) and n in par.args:
                    occ.append((par, None, par.args.index(n)))
                else:
                    occ.append((None, None, None))
        deps = []
        ok = True
        for call, kw, pos in occ:
            if call is None:
                ok = False
                break
            tg, _how = repo.resolve_call(call, f)
            if not tg:
                ok = False
                break
            for g in tg:
                params = g.params
                off = 1 if (g.cls is not None and params and params[0] in ("self", "cls")) else 0
                if kw is not None:
                    q = kw
                else:
                    if pos + off >= len(params):
                        ok = False
                        break
                    q = params[pos + off]
                if q not in params:
                    ok = False
                    break
                deps.append((g, q))
        info[(f.qualname, p)] = (ok, deps, f)
        if ok:
            for g, q in deps:
                todo.append((g, q))
    good = {k for k, v in info.items() if v[0]}
    changed = True
    while changed:
        changed = False
        for k in list(good):
            if any((g.qualname, q) not in good for g, q in info[k][1]):
                good.discard(k)
                changed = True
    return good, info


def r4_ambient(repo):
    obs = []
    for lang, q in sorted(TRANSLATORS.items()):
        cls = repo.cls(q)
        E, fns, _effs = closure_effects(repo, cls)
        get_types = repo.method("src.ir.ast.Program", "get_types", inherited=False)
        # closure without Program.get_types
        from ..effects import Effects
        E2 = Effects(repo)
        E2.self_class = cls
        entries = [m for c in cls.mro() for n, m in c.methods.items() if cls.lookup(n) is m]
        fns2, _ = E2.closure(entries, stop=lambda f: f is get_types)
        ambient, rnd, deep_rnd = [], [], []
        own = set(x.qualname for x in _class_functions(repo, cls))
        hint = repo.fn("src.ir.type_utils.get_type_hint")
        near = own | {hint.qualname} | {w.qualname for w in hint.nested.values()}
        for f in fns2:
            if f is get_types:
                continue
            if f.qualname not in near and not f.module.name.startswith("src.translators"):
                for c in calls_in(f.node):
                    s_ = src(c.func)
                    if (".random." in "." + s_ + "." or s_.startswith("random.")) and "self.r." not in s_:
                        deep_rnd.append("%s:%d" % (f.module.relpath, c.lineno))
                # ambient inputs are forbidden anywhere in the closure
                for c in calls_in(f.node):
                    s_ = src(c.func)
                    if s_ in AMBIENT_NAMES or s_.split(".")[0] in ("time", "datetime", "uuid") or \
                            (isinstance(c.func, ast.Name) and c.func.id in ("id", "hash")) or "environ" in s_:
                        ambient.append("%s:%d %s" % (f.module.relpath, c.lineno, s_))
                continue
            for c in calls_in(f.node):
                s = src(c.func)
                last = s.split(".")[-1]
                if s in AMBIENT_NAMES or s.split(".")[0] in ("time", "datetime", "uuid") or \
                        (isinstance(c.func, ast.Name) and c.func.id in ("id", "hash")) or "environ" in s:
                    ambient.append("%s:%d %s" % (f.module.relpath, c.lineno, s))
                if ".random." in "." + s + "." or s.startswith("random."):
                    rnd.append("%s:%d %s" % (f.module.relpath, c.lineno, s))
        obs.append(Ob("C11-R4", "%s:no-time-env-identity-hash" % lang, _w(cls), not ambient,
                      "ambient inputs reachable from %s: %s" % (cls.name, ambient[:5])))
        obs.append(Ob("C11-R4", "%s:translator-code-draws-no-random-numbers" % lang, _w(cls), not rnd,
                      "random draws in the translator's own methods, its decorators or tu.get_type_hint: %s. (Not decided: "
                      "deeper helpers do draw - get_decl_from_inheritance -> find_subtypes -> _construct_related_types, "
                      "%d sites in %d functions - their results are used by name only, which is value-level.)"
                      % (rnd[:5], len(deep_rnd), len(fns2)), {"deep_random_sites": sorted(set(deep_rnd))[:12]}))
        # uses of the result of get_types
        users = []
        for m in _class_functions(repo, cls):
            for n in iter_own_nodes(m.node):
                if isinstance(n, ast.Call) and call_name(n) == "get_types" and not (
                        isinstance(n._parent, ast.Assign) and src(n._parent.targets[0]) == "self.types"):
                    users.append("%s:%d result of get_types() used directly" % (m.module.relpath, n.lineno))
        reads = []
        start = []
        for m in _class_functions(repo, cls):
            for n in iter_own_nodes(m.node):
                if isinstance(n, ast.Attribute) and n.attr == "types" and src(n.value) == "self" and \
                        isinstance(n.ctx, ast.Load):
                    par = n._parent
                    call, kw, pos = None, None, None
                    if isinstance(par, ast.keyword):
                        call, kw = par._parent, par.arg
                    elif isinstance(par, ast.Call) and n in par.args:
                        call, pos = par, par.args.index(n)
                    if call is None:
                        reads.append("%s:%d `%s`" % (m.module.relpath, n.lineno, src(par)[:60]))
                        continue
                    tg, _how = repo.resolve_call(call, m)
                    if not tg:
                        reads.append("%s:%d unresolved callee %s" % (m.module.relpath, n.lineno, src(call.func)))
                    for g_ in tg:
                        off = 1 if (g_.cls is not None and g_.params and g_.params[0] in ("self", "cls")) else 0
                        pname = kw if kw is not None else (g_.params[pos + off] if pos + off < len(g_.params) else None)
                        if pname is None:
                            reads.append("%s:%d cannot bind argument" % (m.module.relpath, n.lineno))
                        else:
                            start.append((g_, pname))
        good, info = _unused_param_fixpoint(repo, start)
        leaks = [(g_.qualname, p) for g_, p in start if (g_.qualname, p) not in good]
        has = any(isinstance(n, ast.Assign) and src(n.targets[0]) == "self.types"
                  for m in _class_functions(repo, cls) for n in iter_own_nodes(m.node) if m.name == "visit_program")
        ok = not users and not reads and not leaks
        obs.append(Ob("C11-R4", "%s:randomised-type-list-never-read" % lang, _w(cls), ok,
                      ("Program.get_types() instantiates built-in type constructors with random arguments; its result may "
                       "only flow into parameters that are passed on but never read: direct uses %s, other reads %s, "
                       "parameters that do read it %s; %d (function, parameter) pairs proven effectively unused"
                       % (users, reads[:4], leaks[:4], len(good))) if has or users or reads else
                      "this translator does not keep the type list"))
        # iterated sets hold ints
        sets = []
        for m in _class_functions(repo, cls):
            for n in iter_own_nodes(m.node):
                it = n.iter if isinstance(n, (ast.For, ast.comprehension)) else None
                if it is not None and isinstance(it, ast.Attribute) and src(it.value) == "self":
                    sets.append((m, it.attr))
        writes = _self_attr_writes(_class_functions(repo, cls))
        for m, attr in sets:
            vals = []
            for f, n, k in writes.get(attr, []):
                if k == "store":
                    vals.append(n.value)
                elif k == "mutate":
                    vals.extend(n.args)
            is_set = any(isinstance(v, ast.Set) or (isinstance(v, ast.Call) and call_name(v) == "set") for v in vals)
            if not is_set:
                continue
            ints = True
            for v in vals:
                elems = v.elts if isinstance(v, ast.Set) else [v]
                for x in elems:
                    if not ((isinstance(x, ast.Constant) and isinstance(x.value, int)) or
                            (isinstance(x, ast.Call) and call_name(x) == "len")):
                        ints = False
            obs.append(Ob("C11-R4", "%s:iterated-set-%s-holds-ints" % (lang, attr), _w(m), ints,
                          "iteration order of a set feeds the text; it is stable only for small ints (no str hashing)"))
    return obs


def r5_translate_program(repo):
    f = repo.fn("src.utils.translate_program")
    t, p = f.params[:2]
    body = [s_ for s_ in f.node.body if not (isinstance(s_, ast.Expr) and isinstance(s_.value, ast.Constant))]
    ok = len(body) == 2 and isinstance(body[0], ast.Expr) and isinstance(body[0].value, ast.Call) and \
        src(body[0].value) == "%s.visit(%s)" % (t, p) and isinstance(body[1], ast.Return) and \
        src(body[1].value) == "%s.result()" % t and not f.decorators
    obs = [Ob("C11-R5", "translate_program=visit+result", _w(f), ok,
              "utils.translate_program must be exactly `translator.visit(program); return translator.result()` - no caching, "
              "no state kept on the translator, no decorator (programs are mutated in place between translations)")]
    for q in TRANSLATORS.values():
        c = repo.cls(q)
        r = c.lookup("result")
        rets = [n for n in iter_own_nodes(r.node) if isinstance(n, ast.Return)]
        ok = len(rets) == 1 and src(rets[0].value) == "self.program" and not r.decorators
        obs.append(Ob("C11-R5", "%s.result-returns-the-last-visit's-text" % c.name, _w(r), ok,
                      "result() must return self.program (written by the last visit_program)"))
    return obs


def rules():
    return [
        RuleSpec("C11-R1", "Java/Groovy: _reset_state re-initialises everything a translation writes", 26, r1_reset),
        RuleSpec("C11-R2", "Kotlin/Scala: every attribute is back to its entry value (dirty-set analysis)", 60, r2_neutral),
        RuleSpec("C11-R3", "no store in the translators' call-graph closure reaches the program", 8, r3_no_ir_writes),
        RuleSpec("C11-R4", "no ambient inputs; randomised type list never read", 12, r4_ambient),
        RuleSpec("C11-R5", "translate_program is visit + result", 5, r5_translate_program),
        RuleSpec("C11-R6", "no state survives in function defaults or class bodies", 8, r6_process_state),
    ]


# -- variants -------------------------------------------------------------------------

def _v_kotlin_no_restore(tree):
    f = V.find_def(tree, "KotlinTranslator.visit_var_decl")
    st = V.one([n for n in f.body if isinstance(n, ast.Assign) and ast.unparse(n) == "self._cast_integers = prev"])
    V.remove_stmt(tree, st)


def _v_scala_lambda_flag(tree):
    f = V.find_def(tree, "ScalaTranslator.visit_lambda")
    st = V.one([n for n in f.body if isinstance(n, ast.Assign) and ast.unparse(n.targets[0]) == "self.is_lambda"
                and "prev" in ast.unparse(n.value)])
    V.remove_stmt(tree, st)


def _v_kotlin_class_ident(tree):
    f = V.find_def(tree, "KotlinTranslator.visit_class_decl")
    st = V.one([n for n in f.body if isinstance(n, ast.Assign) and ast.unparse(n) == "self.ident = old_ident"])
    V.remove_stmt(tree, st)


def _v_java_reset_counter(tree):
    f = V.find_def(tree, "JavaTranslator._reset_state")
    st = V.one([n for n in f.body if isinstance(n, ast.Assign) and ast.unparse(n.targets[0]) == "self._x_counter"])
    V.remove_stmt(tree, st)


def _v_java_reset_value(tree):
    f = V.find_def(tree, "JavaTranslator._reset_state")
    st = V.one([n for n in f.body if isinstance(n, ast.Assign) and ast.unparse(n.targets[0]) == "self._function_interfaces"])
    st.value = V.parse_expr("set()")


def _v_groovy_no_reset_call(tree):
    f = V.find_def(tree, "GroovyTranslator.visit_program")
    st = V.one([n for n in f.body if isinstance(n, ast.Expr) and V.is_call_named(n.value, "_reset_state")])
    V.remove_stmt(tree, st)


def _v_java_new_attr(tree):
    f = V.find_def(tree, "JavaTranslator.visit_func_decl")
    f.body.insert(0, V.parse_stmts("self._seen_functions = getattr(self, '_seen_functions', 0) + 1")[0])


def _v_visitor_writes_node(tree):
    f = V.find_def(tree, "ScalaTranslator.visit_var_decl")
    f.body.insert(0, V.parse_stmts("node.name = node.name.lower()")[0])


def _v_revert_abstract_fix(tree):
    f = V.find_def(tree, "ClassDeclaration.get_abstract_functions")
    sts = [n for n in ast.walk(f) if isinstance(n, ast.Assign) and isinstance(n.value, ast.Call) and
           ast.unparse(n.value.func) == "deepcopy" and ast.unparse(n.targets[0]) in ("ret_type", "new_p.param_type")
           and ast.unparse(n.value.args[0]) == ast.unparse(n.targets[0])]
    if len(sts) != 2:
        raise V.SkipVariant("defensive copies not found")
    for s in sts:
        V.remove_stmt(tree, s)


def _v_type_hint_reads_types(tree):
    f = V.find_def(tree, "get_type_hint")
    f.body.insert(1, V.parse_stmts("_first = types[0] if types else None")[0])


def _v_time_in_text(tree):
    f = V.find_def(tree, "KotlinTranslator.visit_program")
    f.body.insert(0, V.parse_stmts("import time\nstamp = str(time.time())")[0])
    f.body.insert(1, V.parse_stmts("stamp = str(time.time())")[0])


def _v_shared_set(tree):
    tree.body.insert(len([n for n in tree.body if isinstance(n, (ast.Import, ast.ImportFrom))]),
                     V.parse_stmts("DEFAULT_FUNCTION_INTERFACES = {0, 1, 2, 3}")[0])
    for name in ("JavaTranslator.__init__", "JavaTranslator._reset_state"):
        f = V.find_def(tree, name)
        st = V.one([n for n in f.body if isinstance(n, ast.Assign) and ast.unparse(n.targets[0]) == "self._function_interfaces"])
        st.value = V.parse_expr("DEFAULT_FUNCTION_INTERFACES")


def _v_memo_translate(tree):
    f = V.find_def(tree, "translate_program")
    f.body = V.parse_stmts("key = (id(program), translator.package)\nif getattr(translator, '_last', None) == key:\n    return translator.result()\ntranslator.visit(program)\ntranslator._last = key\nreturn translator.result()")


def _t_rename(tree):
    f = V.find_def(tree, "KotlinTranslator.visit_func_decl")
    V.rename_local(f, "prev_c", "saved_cast")
    V.rename_local(f, "old_ident", "saved_ident")


def variants():
    return [
        V.Variant("kotlin: _cast_integers not restored in visit_var_decl", "src/translators/kotlin.py", _v_kotlin_no_restore, {"C11-R2"}),
        V.Variant("scala: is_lambda not restored in visit_lambda", "src/translators/scala.py", _v_scala_lambda_flag, {"C11-R2"}),
        V.Variant("kotlin: visit_class_decl no longer restores ident", "src/translators/kotlin.py", _v_kotlin_class_ident, {"C11-R2"}),
        V.Variant("java: _x_counter not reset", "src/translators/java.py", _v_java_reset_counter, {"C11-R1"}),
        V.Variant("java: _function_interfaces reset to a different value", "src/translators/java.py", _v_java_reset_value, {"C11-R1"}),
        V.Variant("groovy: _reset_state() call removed", "src/translators/groovy.py", _v_groovy_no_reset_call, {"C11-R1"}),
        V.Variant("java: new attribute written by a visitor, never reset", "src/translators/java.py", _v_java_new_attr, {"C11-R1"}),
        V.Variant("scala: visitor renames the node", "src/translators/scala.py", _v_visitor_writes_node, {"C11-R3"}),
        V.Variant("get_abstract_functions writes into shared type variables again (the repaired defect)", "src/ir/ast.py", _v_revert_abstract_fix, {"C11-R3"}),
        V.Variant("get_type_hint reads the randomised type list", "src/ir/type_utils.py", _v_type_hint_reads_types, {"C11-R4"}),
        V.Variant("kotlin: time.time() in visit_program", "src/translators/kotlin.py", _v_time_in_text, {"C11-R4"}),
        V.Variant("java: _function_interfaces shares a module-level set", "src/translators/java.py", _v_shared_set, {"C11-R1"}),
        V.Variant("translate_program memoises the last program", "src/utils.py", _v_memo_translate, {"C11-R5"}),
        V.Variant("twin: rename save locals in Kotlin visit_func_decl", "src/translators/kotlin.py", _t_rename, None, twin=True),
        V.Variant("twin: whole tree reformatted by ast.unparse", None, None, None, twin=True),
    ]
