"""C06 - the subtyping judgement is sound (direction / exhaustiveness part)."""
import ast
import re

from ..repo import AnalysisError
from ..report import Ob, RuleSpec
from ..astutil import (always_leaves, src, guards, flat_guards, calls_in, call_name, kwarg, const_value,
                       iter_own_nodes, ancestors, is_within)
from ..cfg import cfg_of, Prov
from .. import variants as V
from .. import kernel

PROPERTY = "C06"
TITLE = "The subtyping judgement is sound, and exact on concrete class types"
DECIDES = ("Decided: the three failure shapes the property names - a reversed variance, a skipped type argument, an "
           "ignored bound - as shape rules on the judgement's code: every return of _is_type_arg_contained has the "
           "direction its governing variance prescribes (Kotlin type-containment table), ParameterizedType.is_subtype "
           "checks every argument of the same constructor, every positive-capable return of all is_subtype / "
           "is_assignable definitions in src/ir is one of the enumerated sound shapes, and type variables / wildcards "
           "/ type constructors consult their bounds. Also: the supertype closure Type.get_supertypes is a complete worklist closure (seed, every supertype expanded, push iff unvisited); the judgement keeps no state in class bodies or mutable defaults; no answer is taken from the Python class hierarchy of the representing classes.")
NOT_DECIDED = "exactness, reflexivity and transitivity on concrete types (value-level algebra)."

T = "src.ir.types"
IR_TYPE_MODULES = ["src.ir.types", "src.ir.builtins", "src.ir.java_types", "src.ir.kotlin_types",
                   "src.ir.groovy_types", "src.ir.scala_types"]


def _w(f, node=None):
    return "%s:%d" % (f.module.relpath, (node or f.node).lineno)


def _resolve_local(fn, name_node):
    """single-definition local -> its value expression, else the node itself"""
    if isinstance(name_node, ast.Name):
        defs = cfg_of(fn).defs_reaching(name_node.id, name_node)
        if len(defs) == 1 and defs[0][2] == "assign" and isinstance(defs[0][1], ast.AST):
            return defs[0][1]
    return name_node


# ---------------------------------------------------------------- R1 containment

def _facts(fn, node, names):
    """Interpret the guards of `node` in _is_type_arg_contained.
    names = (t, other, type_param).  Returns dict of established facts."""
    t, o, tp = names
    facts = {"W1": None, "W2": None, "TB": None, "OB": None,
             "var": {tp: set(), t: set(), o: set()}, "notvar": {tp: set(), t: set(), o: set()}}
    for test, pol in flat_guards(node):
        e = _resolve_local(fn, test)
        s = src(e)
        for who, key in ((t, "W1"), (o, "W2")):
            if s in ("isinstance(%s, WildCardType)" % who, "%s.is_wildcard()" % who,
                     "isinstance(%s, tp.WildCardType)" % who):
                facts[key] = pol
        if s == "%s.bound" % t or s == "%s.bound is not None" % t:
            facts["TB"] = pol
        if s == "%s.bound" % o or s == "%s.bound is not None" % o:
            facts["OB"] = pol
        for subj, pref in ((tp, tp), (tp, tp + ".variance"), (t, t + ".variance"), (o, o + ".variance"), (t, t), (o, o)):
            for v in ("covariant", "contravariant", "invariant"):
                if s == "%s.is_%s()" % (pref, v):
                    (facts["var"] if pol else facts["notvar"])[subj].add(v)
    out = {}
    for subj in (tp, t, o):
        pos, neg = facts["var"][subj], facts["notvar"][subj]
        if len(pos) == 1:
            out[subj] = next(iter(pos))
        elif not pos and len(neg) == 2:
            out[subj] = ({"covariant", "contravariant", "invariant"} - neg).pop()
        elif pos:
            out[subj] = "conflict"
        else:
            out[subj] = None
    facts["variance"] = out
    return facts


def _side(expr, names):
    t, o, _tp = names
    s = src(expr)
    return {t: ("t", False), t + ".bound": ("t", True), o: ("o", False), o + ".bound": ("o", True)}.get(s)


def _resolve_all(fn, expr, at):
    """expr with isinstance-flag locals left as names (they are facts), other single-definition locals expanded"""
    return expr


def r1_containment(repo):
    f = repo.fn(T + "._is_type_arg_contained")
    fn = f.node
    names = tuple(f.params[:3])
    if len(names) != 3:
        raise AnalysisError("_is_type_arg_contained signature changed", rule="C06-R1", anchor=f.qualname)
    t, o, tp = names
    obs = []
    rets = [n for n in iter_own_nodes(fn) if isinstance(n, ast.Return)]
    for i, r in enumerate(rets):
        fa = _facts(fn, r, names)
        var = fa["variance"]
        v = r.value
        gtxt = [("" if p else "not ") + src(_resolve_local(fn, x)) for x, p in flat_guards(r)]
        key = "return#%d:%s" % (i, src(v))
        ok, msg = False, ""
        if isinstance(v, ast.Constant) and v.value is False:
            ok, msg = True, "negative answer"
        elif isinstance(v, ast.Constant) and v.value is True:
            ok = fa["W2"] is True and fa["OB"] is False
            msg = ("an unconditional True is sound only for an unbounded `other` wildcard (star projection); "
                   "guards: %s" % gtxt)
        elif not any(isinstance(x, (ast.Call, ast.Compare)) for x in ast.walk(_resolve_all(fn, v, r))) and \
                isinstance(v, (ast.UnaryOp, ast.BoolOp, ast.Name)):
            # an answer computed from wildcard / bound facts alone (`not (is_wildcard and not t.bound)`): it can be True,
            # so it needs what an unconditional True needs
            ok = fa["W2"] is True and fa["OB"] is False
            msg = ("a fact-only answer `%s` may be True: sound only for an unbounded `other` wildcard (star projection); "
                   "guards: %s" % (src(v), gtxt))
        elif isinstance(v, ast.Compare) and len(v.ops) == 1 and isinstance(v.ops[0], ast.Eq):
            sides = {_side(v.left, names), _side(v.comparators[0], names)}
            ok = sides == {("t", False), ("o", False)} and fa["W1"] is False and fa["W2"] is False and \
                var[tp] == "invariant"
            msg = "equality is the containment test only for an invariant parameter without projections; guards: %s" % gtxt
        elif isinstance(v, ast.Call) and call_name(v) == "is_subtype" and len(v.args) == 1:
            a, b = _side(v.func.value, names), _side(v.args[0], names)
            if a is None or b is None or a[0] == b[0]:
                raise AnalysisError("unrecognised containment operands in `%s`" % src(v), rule="C06-R1",
                                    anchor=f.qualname)
            forward = a[0] == "t"
            # which variance governs
            tside = a if a[0] == "t" else b
            oside = b if b[0] == "o" else a
            problems = []
            if tside[1] and not (fa["W1"] is True and fa["TB"] is True):
                problems.append("uses %s.bound without establishing that %s is a bounded wildcard" % (t, t))
            if not tside[1] and fa["W1"] is not False:
                problems.append("uses %s as a whole although it may be a wildcard" % t)
            if oside[1] and not (fa["W2"] is True and fa["OB"] is True):
                problems.append("uses %s.bound without establishing that %s is a bounded wildcard" % (o, o))
            if not oside[1] and fa["W2"] is not False:
                problems.append("uses %s as a whole although it may be a wildcard" % o)
            if fa["W2"] is True:
                gov = [var[o]] + ([var[t]] if fa["W1"] is True else [])
            else:
                gov = [var[tp]]
            if any(g is None or g == "conflict" for g in gov) or len(set(gov)) != 1:
                problems.append("governing variance not established uniquely: %s" % gov)
            else:
                g = gov[0]
                want = {"covariant": True, "contravariant": False}.get(g)
                if want is None:
                    problems.append("is_subtype used under an invariant governing variance")
                elif want != forward:
                    problems.append("direction reversed: under a %s governing variance the test must be %s" % (
                        g, "%s-side.is_subtype(%s-side)" % ((t, o) if want else (o, t))))
            ok = not problems
            msg = "; ".join(problems) + " guards: %s" % gtxt
        else:
            raise AnalysisError("unrecognised return `%s` in _is_type_arg_contained" % src(v), rule="C06-R1",
                                anchor=f.qualname)
        obs.append(Ob("C06-R1", key, _w(f, r), ok, msg, {"guards": gtxt}))
    last = fn.body[-1]
    obs.append(Ob("C06-R1", "default-is-False", _w(f, last),
                  always_leaves(fn.body) and any(const_value(r.value, 1) is False for r in rets),
                  "every path must end in an explicit answer (each one judged above) and the case analysis must have a "
                  "negative default; last statement `%s`" % src(last)[:60]))
    return obs


# ---------------------------------------------------------------- R2 all arguments

def r2_all_args(repo):
    f = repo.method(T + ".ParameterizedType", "is_subtype", inherited=False)
    fn = f.node
    other = f.params[1]
    loops = [n for n in iter_own_nodes(fn) if isinstance(n, ast.For)]
    if len(loops) != 1:
        raise AnalysisError("ParameterizedType.is_subtype: expected one loop", rule="C06-R2", anchor=f.qualname)
    lp = loops[0]
    obs = []
    it = lp.iter
    want = ["self.t_constructor.type_parameters", "self.type_args", "%s.type_args" % other]
    ok = isinstance(it, ast.Call) and src(it.func) == "zip" and [src(a) for a in it.args] == want
    obs.append(Ob("C06-R2", "loop:zips-all-arguments-unsliced", _w(f, lp), ok,
                  "the containment loop must zip %s (no slicing); found %s" % (want, src(it))))
    tn = [src(e) for e in lp.target.elts] if isinstance(lp.target, ast.Tuple) else []
    cs = [c for c in calls_in(lp) if call_name(c) == "_is_type_arg_contained"]
    ok = len(cs) == 1 and len(tn) == 3 and [src(a) for a in cs[0].args] == [tn[1], tn[2], tn[0]]
    obs.append(Ob("C06-R2", "loop:containment-call-argument-order", _w(f, lp), ok,
                  "_is_type_arg_contained(<self arg>, <other arg>, <type parameter>) expected; found %s"
                  % [src(c) for c in cs]))
    body_ok = False
    if len(lp.body) == 1 and isinstance(lp.body[0], ast.If) and not lp.body[0].orelse and cs:
        iff = lp.body[0]
        body_ok = isinstance(iff.test, ast.UnaryOp) and isinstance(iff.test.op, ast.Not) and \
            iff.test.operand is cs[0] and len(iff.body) == 1 and isinstance(iff.body[0], ast.Return) and \
            const_value(iff.body[0].value, 1) is False
    obs.append(Ob("C06-R2", "loop:first-failure-answers-False", _w(f, lp), body_ok and not lp.orelse,
                  "loop body must be exactly `if not _is_type_arg_contained(...): return False`"))
    gs = [(src(t_), p) for t_, p in flat_guards(lp)]
    ok = ("self.t_constructor == %s.t_constructor" % other, True) in gs and \
        ("%s.is_parameterized()" % other, True) in gs
    obs.append(Ob("C06-R2", "loop:same-constructor-guard", _w(f, lp), ok,
                  "argument-wise containment is meaningful only for the same type constructor; guards %s" % gs))
    # return True right after the loop
    blk = lp._parent.body
    i = blk.index(lp)
    ok = i + 1 < len(blk) and isinstance(blk[i + 1], ast.Return) and const_value(blk[i + 1].value) is True
    obs.append(Ob("C06-R2", "loop:True-only-after-complete-loop", _w(f, lp), ok,
                  "`return True` must directly follow the complete containment loop"))
    return obs


# ---------------------------------------------------------------- R3 positive answers

def _defs(repo, name):
    out = []
    for mn in IR_TYPE_MODULES:
        m = repo.module(mn)
        for c in repo.classes.values():
            if c.module is m and name in c.methods:
                out.append(c.methods[name])
    return sorted(out, key=lambda f: f.qualname)


def _shape(f, e, other):
    """-> list of (shape, detail) for the positive-capable parts of expression e"""
    fn = f.node
    if isinstance(e, ast.Constant):
        if e.value is True:
            return [("true", "")]
        if e.value is False or e.value is None:
            return [("false", "")]
    if isinstance(e, ast.BoolOp):
        out = []
        for v in e.values:
            out.extend(_shape(f, v, other))
        if isinstance(e.op, ast.And):
            # a conjunction is at most as permissive as each conjunct: keep the non-trivial parts
            return [("and", out)]
        return out
    if isinstance(e, ast.UnaryOp) and isinstance(e.op, ast.Not):
        s = src(e.operand)
        if "intersection(self.type_parameters)" in s:
            return [("collision-test", s)]
        return [("unknown", src(e))]
    if isinstance(e, ast.Call):
        n = call_name(e)
        if n in ("is_subtype", "is_assignable") and len(e.args) == 1:
            recv = src(e.func.value)
            arg = src(e.args[0])
            if recv == "self" and arg == other:
                return [("delegate-self." + n, "")]
            if recv == "super()" and arg == other:
                return [("delegate-super." + n, "")]
            if recv == "self.bound" and arg == other + ".bound":
                return [("bounds-forward", "")]
            if recv == other + ".bound" and arg == "self.bound":
                return [("reversed", src(e))]
            if recv == other and arg == "self":
                return [("reversed", src(e))]
            return [("unknown", src(e))]
        if n == "any" and len(e.args) == 1 and isinstance(e.args[0], ast.GeneratorExp):
            g = e.args[0]
            elt = g.elt
            it = _resolve_local(fn, g.generators[0].iter)
            tv = src(g.generators[0].target)
            if isinstance(elt, ast.Call) and call_name(elt) == "is_subtype" and src(elt.func.value) == tv and \
                    src(elt.args[0]) == other and src(it) in ("self.get_supertypes()", "self.supertypes"):
                # sound whatever the filters are (a subset of the supertypes); completeness is C06-R6's subject
                return [("nominal-transitive", "")]
            return [("unknown", src(e))]
        return [("unknown", src(e))]
    if isinstance(e, ast.Compare) and len(e.ops) == 1:
        l, r = src(e.left), src(e.comparators[0])
        op = e.ops[0]
        if isinstance(op, ast.Eq):
            if {l, r} == {"self", other}:
                return [("equality", "")]
            if {l, r} == {"self.bound", other}:
                return [("bound-equality", "")]
            if {l, r} == {"self_t", "other_t"}:
                return [("element-equality", "")]
            return [("unknown", src(e))]
        if isinstance(op, ast.In):
            if l == other and r == "self.get_supertypes()":
                return [("nominal-supertype", "")]
            if l == "self" and r == other + ".get_supertypes()":
                return [("reversed", src(e))]
            if l == "type(%s)" % other:
                tup = _resolve_local(fn, e.comparators[0])
                if isinstance(tup, ast.Tuple):
                    return [("widening", sorted(src(x) for x in tup.elts))]
            return [("unknown", src(e))]
    if isinstance(e, ast.Name):
        return [("name", e.id)]
    return [("unknown", src(e))]


def r3_positive(repo):
    obs = []
    n_defs = 0
    for name in ("is_subtype", "is_assignable"):
        for f in _defs(repo, name):
            n_defs += 1
            fn = f.node
            other = f.params[1] if len(f.params) > 1 else None
            cls = f.cls.name
            rets = [n for n in iter_own_nodes(fn) if isinstance(n, ast.Return)]
            raises = [n for n in iter_own_nodes(fn) if isinstance(n, ast.Raise)]
            if not rets and raises:
                obs.append(Ob("C06-R3", "%s:raises" % f.qualname, _w(f), True, "never answers"))
                continue
            if not rets:
                raise AnalysisError("%s has no return" % f.qualname, rule="C06-R3", anchor=f.qualname)
            for i, r in enumerate(rets):
                shapes = _shape(f, r.value, other) if r.value is not None else [("false", "")]
                gs = [(src(_resolve_local(fn, t_)), p) for t_, p in flat_guards(r)]
                flat = []

                def walk(sh):
                    for s, d in sh:
                        if s == "and":
                            walk(d)
                        else:
                            flat.append((s, d))
                walk(shapes)
                problems = []
                for s, d in flat:
                    if s in ("unknown", "name") and re.search(r"\b(isinstance|issubclass)\s*\(\s*(self|type\(self\)|self\.__class__)\s*,", str(d)) \
                            and re.search(r"%s\.__class__|type\(%s\)" % (other, other), str(d)):
                        # a recognisably unsound shape: the relation of the IR is the *declared* supertypes of a type, the
                        # Python class hierarchy of the classes that represent types is something else (a primitive and
                        # its box share a class, Void derives from nothing that says Object)
                        problems.append("answer taken from the Python class hierarchy (`%s`), not from the declared "
                                        "supertypes" % d)
                        continue
                    if s == "unknown" or s == "name":
                        raise AnalysisError("unrecognised answer shape `%s` in %s (line %d)" % (
                            d, f.qualname, r.lineno), rule="C06-R3", anchor=f.qualname)
                    if s == "reversed":
                        problems.append("relation asked the wrong way round: `%s`" % d)
                    if s == "true":
                        whole_body = len(fn.body) == 1 or (len(fn.body) == 2 and isinstance(fn.body[0], ast.Expr))
                        if whole_body and not gs:
                            if not cls.startswith("Nothing"):
                                problems.append("`return True` as the whole judgement is sound only for the bottom type "
                                                "(class names starting with Nothing); class is %s" % cls)
                        else:
                            just = _true_justified(f, r, gs, other) or _guard_is_sound_answer(f, r, other)
                            if not just:
                                problems.append("`return True` not justified by an accepted guard; guards: %s" % gs)
                    if s == "widening":
                        want = sorted(["NumberType", cls])
                        if name != "is_assignable" or d != want:
                            problems.append("numeric widening tuple must be exactly (NumberType, %s) in is_assignable; "
                                            "found %s" % (cls, d))
                    if s == "bounds-forward":
                        need = [("isinstance(%s, WildCardType)" % other, True),
                                ("%s.bound is None" % other, False)]
                        both = any(p and "self.variance.is_covariant()" in t_ and
                                   "%s.variance.is_covariant()" % other in t_ for t_, p in gs) or \
                            (("self.variance.is_covariant()", True) in gs and
                             ("%s.variance.is_covariant()" % other, True) in gs)
                        if not all(x in gs for x in need) or not both:
                            problems.append("wildcard bounds may be compared self->other only for two covariant "
                                            "wildcards with a bounded `other`; guards: %s" % gs)
                    if s == "bound-equality":
                        if ("self.bound", False) not in [(a, not b) for a, b in gs] and \
                                ("self.bound", True) not in gs and ("self.bound is None", False) not in gs:
                            problems.append("`self.bound == other` without an established bound; guards: %s" % gs)
                    if s == "element-equality":
                        if not any(p and "self_is_primitive" in t_ and "other_is_primitive" in t_ for t_, p in gs) \
                                and not (("self_is_primitive", True) in gs and ("other_is_primitive", True) in gs):
                            problems.append("array element equality is a positive answer only for two primitive element types")
                    if s == "delegate-self.is_assignable" and name == "is_subtype":
                        problems.append("is_subtype delegating to is_assignable (assignability is weaker than subtyping)")
                key = "%s:return#%d:%s" % (f.qualname, i, " | ".join(s for s, _ in flat))
                obs.append(Ob("C06-R3", key, _w(f, r), not problems, "; ".join(problems),
                              {"shapes": [s for s, _ in flat], "guards": [("" if p else "not ") + t_ for t_, p in gs]}))
    if n_defs < 25:
        raise AnalysisError("only %d is_subtype/is_assignable definitions found" % n_defs, rule="C06-R3")
    return obs


SOUND_ATOMS = {"equality", "nominal-supertype", "nominal-transitive", "delegate-super.is_subtype",
               "delegate-self.is_subtype"}


def _guard_is_sound_answer(f, r, other):
    """`if <A>: return True` where <A> is itself an accepted positive answer (`other == self or other in
    self.get_supertypes()`) is the same judgement as `return <A> or ...`."""
    p = getattr(r, "_parent", None)
    if not (isinstance(p, ast.If) and r in p.body and len(p.body) == 1):
        return False
    flat = []

    def walk(sh):
        for s_, d in sh:
            if s_ == "and":
                flat.append(("and", None))      # a conjunction needs its own justification: not accepted here
            else:
                flat.append((s_, d))
    walk(_shape(f, p.test, other))
    return bool(flat) and all(s_ in SOUND_ATOMS for s_, _d in flat)


def _true_justified(f, r, gs, other):
    q = f.qualname
    if q.endswith("ParameterizedType.is_subtype"):
        if ("super().is_subtype(%s)" % other, True) in gs:
            return True
        # after the complete loop (R2 checks the loop itself)
        blk = r._parent.body if hasattr(r._parent, "body") else []
        i = blk.index(r) if r in blk else -1
        return i > 0 and isinstance(blk[i - 1], ast.For)
    if q.endswith("TypeConstructor.is_subtype"):
        return ("matched_supertype is None", False) in gs and ("%s.is_parameterized()" % other, False) in gs
    if q.endswith("ParameterizedType.is_assignable"):
        pos = [t_ for t_, p in gs if p]
        return any("self_t == other_t" in t_ for t_ in pos) and \
            any("primitive" in t_ and "self_" in t_ and " or " not in t_ for t_ in pos) and \
            any("primitive" in t_ and "other_" in t_ and " or " not in t_ for t_ in pos)
    return False


# ---------------------------------------------------------------- R4 bounds consulted

def r4_bounds(repo):
    obs = []
    f = repo.method(T + ".TypeParameter", "is_subtype", inherited=False)
    rets = [n for n in iter_own_nodes(f.node) if isinstance(n, ast.Return)]
    nonfalse = [r for r in rets if const_value(r.value, 1) is not False]
    ok = bool(nonfalse) and always_leaves(f.node.body) and all(
        any((s_ == "self.bound" and p_) or (s_ == "self.bound is None" and not p_)
            for s_, p_ in [(src(t_), p_) for t_, p_ in flat_guards(r)]) for r in nonfalse)
    obs.append(Ob("C06-R4", "TypeParameter.is_subtype:unbounded-answers-False", _w(f), ok,
                  "an unbounded type variable is a subtype of nothing: every answer other than False is given only when "
                  "`self.bound` exists"))
    pos = [r for r in rets if not (isinstance(r.value, ast.Constant) and r.value.value is False)]
    ok = len(pos) == 1 and "self.bound" in src(pos[0].value) and f.params[1] in src(pos[0].value)
    obs.append(Ob("C06-R4", "TypeParameter.is_subtype:answers-through-bound", _w(f), ok,
                  "a bounded type variable may answer only through its bound; positive returns: %s" % [src(r.value) for r in pos]))
    f = repo.method(T + ".WildCardType", "is_subtype", inherited=False)
    o = f.params[1]
    rets = [n for n in iter_own_nodes(f.node) if isinstance(n, ast.Return)]
    pos = [r for r in rets if not (isinstance(r.value, ast.Constant) and r.value.value is False)]
    ok = len(pos) == 1
    if ok:
        gs = [(src(t_), p) for t_, p in flat_guards(pos[0])]
        ok = ("isinstance(%s, WildCardType)" % o, True) in gs and ("%s.bound is None" % o, False) in gs and \
            ("self.variance.is_covariant()", True) in gs and ("%s.variance.is_covariant()" % o, True) in gs and \
            src(pos[0].value) == "self.bound.is_subtype(%s.bound)" % o
    obs.append(Ob("C06-R4", "WildCardType.is_subtype:covariant-pair-bounds-forward", _w(f), ok,
                  "wildcard-vs-wildcard is positive only for two covariant wildcards, comparing self.bound -> other.bound"))
    others = [r for r in rets if r not in pos]
    obs.append(Ob("C06-R4", "WildCardType.is_subtype:default-False", _w(f),
                  bool(others) and always_leaves(f.node.body) and
                  all(const_value(r.value, 1) is False for r in others),
                  "every answer other than the guarded comparison of the bounds must be False, and the function must "
                  "answer on every path"))
    f = repo.method(T + ".TypeConstructor", "is_subtype", inherited=False)
    o = f.params[1]
    rets = [n for n in iter_own_nodes(f.node) if isinstance(n, ast.Return)]
    neg = [r for r in rets if const_value(r.value, 1) is False and
           ("matched_supertype is None", True) in [(src(t_), p) for t_, p in flat_guards(r)]]
    coll = [r for r in rets if "intersection(self.type_parameters)" in src(r.value)]
    # matched_supertype comes from get_supertypes() compared by equality with other
    fors = [n for n in iter_own_nodes(f.node) if isinstance(n, ast.For)]
    m_ok = False
    if len(fors) == 1:
        it = _resolve_local(f.node, fors[0].iter)
        iff = [n for n in fors[0].body if isinstance(n, ast.If)]
        m_ok = src(it) == "self.get_supertypes()" and len(iff) == 1 and \
            {src(iff[0].test.left), src(iff[0].test.comparators[0])} == {o, src(fors[0].target)} and \
            isinstance(iff[0].test.ops[0], ast.Eq)
    ok = len(neg) == 1 and len(coll) == 1 and m_ok and \
        ("%s.is_parameterized()" % o, False) not in [(src(t_), p) for t_, p in flat_guards(coll[0])]
    tv_ok = False
    if coll:
        tv = [n for n in iter_own_nodes(f.node) if isinstance(n, ast.Assign) and src(n.targets[0]) == "type_vars"]
        tv_ok = len(tv) == 1 and "matched_supertype.get_type_variable_assignments().values()" in src(tv[0].value)
    obs.append(Ob("C06-R4", "TypeConstructor.is_subtype:nominal-match-and-collision-test", _w(f), ok and tv_ok,
                  "type constructor: no equal supertype -> False (%s); for a parameterized target the answer is the "
                  "type-variable-collision test over the matched supertype's arguments (%s)" % (len(neg) == 1, tv_ok)))
    return obs


def r5_structural_equality(repo):
    """is_subtype starts from `other == self`: equality of types must be structural."""
    return kernel.equality_is_structural(repo, "C06-R5")


def r8_constructors(repo):
    """the declarative relation is defined on what the program says (`Foo<Baz<out T>>`): a constructor that rewrites its
    argument makes the judgement answer about another type"""
    return kernel.constructors_verbatim(repo, "C06-R8")


def r6_transitivity(repo):
    """The nominal judgement is transitive because it recurses through the supertypes: `any(st.is_subtype(other) for st in
    <supertypes> if st != self)`.  Completeness needs every supertype in that recursion: a filter that drops some
    (only parameterized ones, only the first) loses the types reachable through the dropped ones."""
    obs = []
    n = 0
    for f in _defs(repo, "is_subtype"):
        other = f.params[1] if len(f.params) > 1 else None
        for c in calls_in(f.node):
            if not (call_name(c) == "any" and len(c.args) == 1 and isinstance(c.args[0], ast.GeneratorExp)):
                continue
            g = c.args[0]
            elt = g.elt
            tv = src(g.generators[0].target)
            if not (isinstance(elt, ast.Call) and call_name(elt) == "is_subtype" and src(elt.func.value) == tv and
                    elt.args and src(elt.args[0]) == other):
                continue
            it = src(_resolve_local(f.node, g.generators[0].iter))
            if it not in ("self.get_supertypes()", "self.supertypes"):
                continue
            n += 1
            filters = [" ".join(src(i).split()) for i in g.generators[0].ifs]
            bad = [x for x in filters if x not in ("%s != self" % tv, "self != %s" % tv, "%s is not self" % tv)]
            one_gen = len(g.generators) == 1
            # the answer containing the recursion must not sit behind a test that returns False for some `other` first,
            # unless that test is about equality / membership in the closure
            obs.append(Ob("C06-R6", "%s:recursion-through-every-supertype" % f.qualname, _w(f, c), not bad and one_gen,
                          "the transitive step must recurse through every supertype of `self` (only `%s != self` may be "
                          "filtered out); iterates %s with filters %s" % (tv, it, filters)))
    # ... and the closure itself: Type.get_supertypes is a worklist closure over `.supertypes`
    from .c19 import closure_obligations
    obs += closure_obligations(repo.method("src.ir.types.Type", "get_supertypes", inherited=False), "C06-R6",
                               "Type.get_supertypes", "self", "supertypes")
    obs.append(Ob("C06-R6", "nominal-recursion-sites>=1", "src/ir/types.py", n >= 1,
                  "%d `any(st.is_subtype(other) for st in <supertypes>)` sites" % n))
    return obs


def _ft_variances(repo, init):
    """{'A': variance text or None, 'R': ...} of the TypeParameter constructions that build a FunctionN constructor,
    directly in __init__ or in a helper it calls (arguments bound to the helper's parameters)"""
    from ..repo import FunctionInfo

    def scan(fn_node, binding):
        out = {}
        for c in calls_in(fn_node):
            if call_name(c) != "TypeParameter" or not c.args:
                continue
            nm = src(c.args[0])
            role = "R" if nm in ("'R'", '"R"') else ("A" if nm.startswith(("'A'", '"A"')) else None)
            if role is None:
                continue
            v = kwarg(c, "variance", 1)
            if v is None or (isinstance(v, ast.Constant) and v.value is None):
                out.setdefault(role, set()).add(None)
            elif isinstance(v, ast.Name) and v.id in binding:
                b = binding[v.id]
                out.setdefault(role, set()).add(None if b is None or (isinstance(b, ast.Constant) and b.value is None)
                                                else src(b).split(".")[-1])
            else:
                out.setdefault(role, set()).add(src(v).split(".")[-1])
        return out
    res = scan(init.node, {})
    if not res:
        for c in calls_in(init.node):
            if not hasattr(c, "_module"):
                continue
            try:
                tgt = repo.resolve_name_expr(c.func, c._module, init)
            except Exception:
                tgt = None
            if isinstance(tgt, FunctionInfo) and tgt.cls is None:
                a = tgt.node.args
                names = [x.arg for x in a.args]
                binding = dict(zip(names[len(names) - len(a.defaults):], a.defaults))
                for nme, arg in zip(names, c.args):
                    binding[nme] = arg
                for k in c.keywords:
                    binding[k.arg] = k.value
                res = scan(tgt.node, binding)
                if res:
                    break
    return res


def r7_function_types(repo):
    """Function types are contravariant in their parameters and covariant in their result where the language has
    declaration-site variance (Kotlin, Scala) and invariant elsewhere; the subtype judgement reads the declared variance
    of the constructor, so a swapped declaration makes it unsound for function types."""
    obs = []
    want = {"src.ir.kotlin_types": {"A": {"Contravariant"}, "R": {"Covariant"}},
            "src.ir.scala_types": {"A": {"Contravariant"}, "R": {"Covariant"}}}
    fts = [c for c in repo.classes.values() if c.name == "FunctionType"]
    for c in sorted(fts, key=lambda c: c.qualname):
        init = c.methods.get("__init__")
        if init is None:
            continue
        got = _ft_variances(repo, init)
        exp = want.get(c.module.name, {"A": {None}, "R": {None}})
        obs.append(Ob("C06-R7", "%s:declared-variance" % c.qualname, _w(init), got == exp,
                      "FunctionN type parameters: parameters %s, result %s; expected %s / %s"
                      % (sorted(map(str, got.get("A", []))), sorted(map(str, got.get("R", []))),
                         sorted(map(str, exp["A"])), sorted(map(str, exp["R"])))))
    return obs


def r9_variance(repo):
    """containment is decided by is_covariant() / is_contravariant() of the governing variance"""
    return kernel.variance_table(repo, "C06-R9")


def r10_kinds(repo):
    """the judgement is a case analysis by kind predicates"""
    return kernel.kind_table(repo, "C06-R10")


JUDGING = ["src.ir.types.Builtin", "src.ir.types.SimpleClassifier", "src.ir.types.TypeParameter",
           "src.ir.types.WildCardType", "src.ir.types.TypeConstructor", "src.ir.types.ParameterizedType"]


def r11_process_state(repo):
    """the judgement is a function of the two types: nothing it computes may survive in a class body or a mutable default
    (a memo keyed by a built-in conflates a primitive with its box - they are equal objects with different supertypes)"""
    from ..irwrites import closure_effects
    from .. import kernel
    obs = []
    for q in JUDGING:
        cls = repo.cls(q)
        E, fns, _effs = closure_effects(repo, cls)
        obs += kernel.process_state(repo, "C06-R11", cls.name, E, fns)
    return obs


def rules():
    return [
        RuleSpec("C06-R1", "containment direction per governing variance (every return)", 10, r1_containment),
        RuleSpec("C06-R2", "all type arguments of the same constructor are checked", 5, r2_all_args),
        RuleSpec("C06-R3", "every positive-capable answer of is_subtype/is_assignable is a sound shape", 29, r3_positive),
        RuleSpec("C06-R4", "bounds are consulted (type variables, wildcards, type constructors)", 5, r4_bounds),
        RuleSpec("C06-R6", "transitivity: the nominal judgement recurses through every supertype", 2, r6_transitivity),
        RuleSpec("C06-R7", "declared variance of the built-in function types", 5, r7_function_types),
        RuleSpec("C06-R5", "equality of types is structural (is_subtype starts from ==)", 6, r5_structural_equality),
        RuleSpec("C06-R8", "type constructors store their arguments as given", 10, r8_constructors),
        RuleSpec("C06-R9", "the three variance objects answer their own predicates (and print their keyword)", 4, r9_variance),
        RuleSpec("C06-R10", "each class of the type representation answers exactly its own kind predicate", 28, r10_kinds),
        RuleSpec("C06-R11", "the judgement keeps no state between queries (class bodies, mutable defaults)", 12, r11_process_state),
    ]


# -- variants ----------------------------------------------------------------------

def _contained(tree):
    return V.find_def(tree, "_is_type_arg_contained")


def _v_cov_reversed(tree):
    f = _contained(tree)
    r = V.one([n for n in ast.walk(f) if isinstance(n, ast.Return) and ast.unparse(n.value) == "t.is_subtype(other)"])
    r.value = V.parse_expr("other.is_subtype(t)")


def _v_wild_contra_forward(tree):
    f = _contained(tree)
    r = V.one([n for n in ast.walk(f) if isinstance(n, ast.Return) and ast.unparse(n.value) == "other.bound.is_subtype(t)"])
    r.value = V.parse_expr("t.is_subtype(other.bound)")


def _v_star_for_any(tree):
    f = _contained(tree)
    iff = V.one([n for n in f.body if isinstance(n, ast.If) and ast.unparse(n.test) == "is_wildcard2 and (not other.bound)"])
    iff.test = V.parse_expr("is_wildcard2")


def _v_zip_slice(tree):
    f = V.find_def(tree, "ParameterizedType.is_subtype")
    z = V.one([n for n in ast.walk(f) if V.is_call_named(n, "zip")])
    z.args[1] = V.parse_expr("self.type_args[1:]")
    z.args[2] = V.parse_expr("other.type_args[1:]")
    z.args[0] = V.parse_expr("self.t_constructor.type_parameters[1:]")


def _v_no_constructor_guard(tree):
    f = V.find_def(tree, "ParameterizedType.is_subtype")
    iff = V.one([n for n in ast.walk(f) if isinstance(n, ast.If) and "t_constructor ==" in ast.unparse(n.test)])
    iff.test = V.parse_expr("self.t_constructor.name == other.t_constructor.name or True")


def _v_typeparam_true(tree):
    f = V.find_def(tree, "TypeParameter.is_subtype")
    f.body[-1].value = ast.Constant(value=True)


def _v_typeparam_ignores_bound(tree):
    f = V.find_def(tree, "TypeParameter.is_subtype")
    f.body[0].body[0].value = ast.Constant(value=True)


def _v_builtin_reversed(tree):
    f = V.find_def(tree, "Builtin.is_subtype")
    f.body[-1].value = V.parse_expr("other == self or self in other.get_supertypes()")


def _v_wildcard_contra(tree):
    f = V.find_def(tree, "WildCardType.is_subtype")
    iff = V.one([n for n in ast.walk(f) if isinstance(n, ast.If) and "is_covariant" in ast.unparse(n.test)])
    iff.test = V.parse_expr("self.variance.is_covariant() or other.variance.is_covariant()")


def _v_int_widening(tree):
    f = V.find_def(tree, "ShortType.is_assignable")
    st = V.one([n for n in f.body if isinstance(n, ast.Assign)])
    st.value = V.parse_expr("(NumberType, ShortType, StringType)")


def _v_collision_dropped(tree):
    f = V.find_def(tree, "TypeConstructor.is_subtype")
    f.body[-1].value = ast.Constant(value=True)


def _v_eq_by_string(tree):
    f = V.find_def(tree, "ParameterizedType.__eq__")
    r = f.body[-1]
    r.value = V.parse_expr("self.name == other.name and str(self.supertypes) == str(other.supertypes) and str(self.type_args) == str(other.type_args) and str(self.t_constructor.type_parameters) == str(other.t_constructor.type_parameters)")


def _t_rename(tree):
    f = _contained(tree)
    V.rename_local(f, "is_wildcard", "w1")
    V.rename_local(f, "is_wildcard2", "w2")


def _v_contra_is_one(tree):
    f = V.find_def(tree, "Variance.is_contravariant")
    r = V.one([n for n in ast.walk(f) if isinstance(n, ast.Return)])
    r.value = V.parse_expr("self.value == 1")


def _v_tparam_eq_no_variance(tree):
    f = V.find_def(tree, "TypeParameter.__eq__")
    b = V.one([n for n in ast.walk(f) if isinstance(n, ast.BoolOp)])
    b.values = [v for v in b.values if "variance" not in ast.unparse(v)]


def _v_wild_ctor_flattens(tree):
    f = V.find_def(tree, "WildCardType.__init__")
    st = V.one([n for n in ast.walk(f) if isinstance(n, ast.Assign) and ast.unparse(n.targets[0]) == "self.bound"])
    V.insert_before(tree, st, V.parse_stmts("if bound is not None and bound.is_wildcard():\n    bound = bound.bound"))


def variants():
    t = "src/ir/types.py"
    return [
        V.Variant("is_contravariant answers for the covariant constant", "src/ir/types.py", _v_contra_is_one, {"C06-R9"}),
        V.Variant("TypeParameter.__eq__ ignores the variance", "src/ir/types.py", _v_tparam_eq_no_variance, {"C06-R5"}),
        V.Variant("WildCardType's constructor flattens a projected bound", "src/ir/types.py", _v_wild_ctor_flattens, {"C06-R8"}),
        V.Variant("covariant branch asks other.is_subtype(t)", t, _v_cov_reversed, {"C06-R1"}),
        V.Variant("contravariant projection compared forward", t, _v_wild_contra_forward, {"C06-R1"}),
        V.Variant("any wildcard target accepted like a star", t, _v_star_for_any, {"C06-R1"}),
        V.Variant("zip over type_args[1:]", t, _v_zip_slice, {"C06-R2"}),
        V.Variant("constructor equality guard neutralised", t, _v_no_constructor_guard, {"C06-R2"}),
        V.Variant("TypeParameter.is_subtype returns True", t, _v_typeparam_true, {"C06-R3", "C06-R4"}),
        V.Variant("unbounded TypeParameter answers True", t, _v_typeparam_ignores_bound, {"C06-R3", "C06-R4"}),
        V.Variant("Builtin.is_subtype asks supertypes of other", t, _v_builtin_reversed, {"C06-R3"}),
        V.Variant("wildcard pair needs only one covariant side", t, _v_wildcard_contra, {"C06-R3", "C06-R4"}),
        V.Variant("Short assignable to String (java)", "src/ir/java_types.py", _v_int_widening, {"C06-R3"}),
        V.Variant("type-variable collision test dropped", t, _v_collision_dropped, {"C06-R3", "C06-R4"}),
        V.Variant("ParameterizedType.__eq__ compares textual renderings", t, _v_eq_by_string, {"C06-R5"}),
        V.Variant("twin: rename wildcard flags", t, _t_rename, None, twin=True),
        V.Variant("twin: whole tree reformatted by ast.unparse", None, None, None, twin=True),
    ]
