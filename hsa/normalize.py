"""Reference-directed normalisation: undo behaviour-preserving refactorings before any rule runs.

The rules were written against the shape of the reference tree.  A clean-up refactoring (extract a helper, introduce an
explaining variable, turn a loop into a comprehension) leaves behaviour unchanged, so it must not change a verdict.
Like `canon.py` for names, this module rewrites the *analysed copy* of a module - never the file - back towards the
reference shape, using only facts recorded from the reference tree (`canon.json`, key `__ref__`: the qualified names of
all functions, the fingerprints of all comprehensions and the local identities of every function):

  N1  a function that does not exist in the reference and is called from the same module is inlined at its call sites
      when its body has one of these shapes: a single `return E` (any expression context); a boolean search
      (`[if c: return K]* for .. in ..: if c: return K1 \\n return K2`, folded to an expression); any body when the call is
      the operand of a `return`; a body whose returns are all in tail position, or a search loop followed by a final
      return, when the call is the whole right-hand side of an assignment or an expression statement.  Fully inlined
      helpers are removed from the analysed tree.
  N3  a comprehension that is not in the reference (by fingerprint) and forms the whole value of an assignment, a
      `return`, an `extend(...)` or a `list()/dict()/OrderedDict()/set()` call is rewritten as the explicit loop.
  N2  a local that is not in the reference (by definition-shape identity), has a single plain definition `v = E` and is
      only read where that definition is the only one reaching is replaced by E at its uses (E must not call anything
      unless v is read exactly once, and nothing E mentions may be rebound in between).

All three are semantics-preserving program transformations (modulo evaluation order of side-effect-free expressions);
what the rules see is equivalent to the file on disk.  Code that a change really altered simply does not match a
refactoring shape and is analysed as written.  HSA_NO_NORMALIZE=1 switches the pass off.
"""
import ast
import hashlib
import os
import re

from . import canon

_SIMPLE = (ast.Name, ast.Attribute, ast.Constant)


def comp_fingerprint(node):
    d = re.sub(r"id='[^']*'", "id='_'", ast.dump(node))
    return hashlib.sha1(d.encode()).hexdigest()[:12]


def _clone(node):
    """deep copy of an AST by its fields and positions only (analysis attributes such as `_parent` are not followed)"""
    if isinstance(node, list):
        return [_clone(x) for x in node]
    if not isinstance(node, ast.AST):
        return node
    new = type(node)()
    for f in node._fields:
        if hasattr(node, f):
            setattr(new, f, _clone(getattr(node, f)))
    for a in ("lineno", "col_offset", "end_lineno", "end_col_offset"):
        if hasattr(node, a):
            setattr(new, a, getattr(node, a))
    return new


def _functions(tree, prefix):
    """(qualname, node, container list) for module-level functions and methods (not nested functions)"""
    for n in tree.body:
        if isinstance(n, (ast.FunctionDef, ast.AsyncFunctionDef)):
            yield prefix + "." + n.name, n, tree.body, None
        elif isinstance(n, ast.ClassDef):
            for m in n.body:
                if isinstance(m, (ast.FunctionDef, ast.AsyncFunctionDef)):
                    yield prefix + "." + n.name + "." + m.name, m, n.body, n


def fn_digest(fn):
    return hashlib.sha1(ast.dump(fn).encode()).hexdigest()[:12]


def _all_functions(tree, prefix):
    """(qualname, node) for every function incl. nested ones, named like canon._functions does"""
    def rec(body, q):
        for n in body:
            if isinstance(n, ast.ClassDef):
                yield from rec(n.body, q + "." + n.name)
            elif isinstance(n, (ast.FunctionDef, ast.AsyncFunctionDef)):
                yield q + "." + n.name, n
                for x in canon._direct_nested(n):
                    yield from rec([x], q + "." + n.name + ".<locals>")
    yield from rec(tree.body, prefix)


def _is_parallel_assign(n):
    return isinstance(n, ast.Assign) and len(n.targets) == 1 and isinstance(n.targets[0], ast.Tuple) and \
        isinstance(n.value, ast.Tuple) and len(n.targets[0].elts) == len(n.value.elts) and \
        not any(isinstance(e, ast.Starred) for e in n.targets[0].elts + n.value.elts)


def _split_parallel_assigns(fn, ref_fps, stats):
    """N6: `a, b = x, y` that the reference did not have becomes `a = x; b = y` when no target is read by a later value
    (so the sequential order computes the same)"""
    def walk_block(owner):
        for nm in ("body", "orelse", "finalbody"):
            blk = getattr(owner, nm, None)
            if not (isinstance(blk, list) and blk and isinstance(blk[0], ast.stmt)):
                continue
            i = 0
            while i < len(blk):
                s = blk[i]
                if _is_parallel_assign(s) and comp_fingerprint(s) not in ref_fps:
                    tg, vs = s.targets[0].elts, s.value.elts
                    ok = True
                    for k, t in enumerate(tg):
                        tt = ast.unparse(t)
                        for v in vs[k + 1:]:
                            if any(ast.unparse(x) == tt for x in ast.walk(v)):
                                ok = False
                    if ok:
                        rep = [_loc(ast.copy_location(ast.Assign(targets=[t], value=v), s), s) for t, v in zip(tg, vs)]
                        for k_, r_ in enumerate(rep):
                            for x in ast.walk(r_):
                                if hasattr(x, "lineno"):
                                    x.lineno = x.end_lineno = s.lineno + (k_ + 1) / 1e4
                        blk[i:i + 1] = rep
                        stats["split_parallel_assignments"] = stats.get("split_parallel_assignments", 0) + 1
                        i += len(rep)
                        continue
                if not isinstance(s, (ast.FunctionDef, ast.AsyncFunctionDef, ast.ClassDef)):
                    walk_block(s)
                    if isinstance(s, ast.Try):
                        for hd in s.handlers:
                            walk_block(hd)
                i += 1
    walk_block(fn)


def _empty_inits(fn):
    """names that the function binds to an empty container (`x = []`, `x = OrderedDict()`): containers filled by loops"""
    out = set()
    for n in ast.walk(fn):
        if isinstance(n, ast.Assign) and len(n.targets) == 1 and isinstance(n.targets[0], ast.Name):
            v = n.value
            if (isinstance(v, (ast.List, ast.Set, ast.Tuple)) and not v.elts) or (isinstance(v, ast.Dict) and not v.keys) or \
                    (isinstance(v, ast.Call) and isinstance(v.func, ast.Name) and not v.args and not v.keywords and
                     v.func.id in ("list", "dict", "set", "OrderedDict")):
                out.add(n.targets[0].id)
    return out


def reference_facts(tree, modname):
    """facts recorded from the reference tree (tools/gen_canon.py)"""
    _strip_docstrings(tree)
    funcs, comps, digests, loopbuilt, ncomps, compbuilt, parallel, nrets = [], {}, {}, {}, {}, {}, {}, {}
    for q, fn in _all_functions(tree, modname):
        funcs.append(q)
        digests[q] = fn_digest(fn)
        lb = sorted(_empty_inits(fn))
        if lb:
            loopbuilt[q] = lb
        pa = sorted({comp_fingerprint(n) for n in ast.walk(fn) if _is_parallel_assign(n)})
        if pa:
            parallel[q] = pa
        cb = sorted({n.targets[0].id for n in ast.walk(fn) if isinstance(n, ast.Assign) and len(n.targets) == 1 and
                     isinstance(n.targets[0], ast.Name) and isinstance(n.value, ast.ListComp)})
        if cb:
            compbuilt[q] = cb
        nrets[q] = sum(1 for n in _own_walk(fn) if isinstance(n, ast.Return))
        ncomps[q] = sum(1 for n in ast.walk(fn)
                        if isinstance(n, (ast.ListComp, ast.SetComp, ast.DictComp, ast.GeneratorExp)))
        fps = sorted({comp_fingerprint(n) for n in ast.walk(fn)
                      if isinstance(n, (ast.ListComp, ast.SetComp, ast.DictComp, ast.GeneratorExp))})
        if fps:
            comps[q] = fps
    return {"functions": funcs, "comps": comps, "digests": digests, "loopbuilt": loopbuilt, "ncomps": ncomps, "compbuilt": compbuilt, "parallel": parallel, "nrets": nrets}


# ---------------------------------------------------------------------------------------------- helpers

def _strip_doc(body):
    if body and isinstance(body[0], ast.Expr) and isinstance(body[0].value, ast.Constant) and \
            isinstance(body[0].value.value, str):
        return body[1:]
    return body


def _own_walk(node):
    """walk without entering nested function / class definitions (lambdas and comprehensions are entered)"""
    todo = [node]
    while todo:
        n = todo.pop()
        yield n
        for c in ast.iter_child_nodes(n):
            if isinstance(c, (ast.FunctionDef, ast.AsyncFunctionDef, ast.ClassDef)):
                continue
            todo.append(c)


def _bound_names(fn):
    """names bound by statements of fn's own scope (not comprehension targets)"""
    out = set()

    def tgt(t):
        if isinstance(t, ast.Name):
            out.add(t.id)
        elif isinstance(t, (ast.Tuple, ast.List)):
            for e in t.elts:
                tgt(e)
        elif isinstance(t, ast.Starred):
            tgt(t.value)
    todo = list(fn.body)
    while todo:
        n = todo.pop()
        if isinstance(n, (ast.FunctionDef, ast.AsyncFunctionDef, ast.ClassDef)):
            out.add(n.name)
            continue
        if isinstance(n, ast.Assign):
            for t in n.targets:
                tgt(t)
        elif isinstance(n, (ast.AugAssign, ast.AnnAssign)):
            tgt(n.target)
        elif isinstance(n, (ast.For, ast.AsyncFor)):
            tgt(n.target)
        elif isinstance(n, (ast.With, ast.AsyncWith)):
            for it in n.items:
                if it.optional_vars is not None:
                    tgt(it.optional_vars)
        elif isinstance(n, ast.NamedExpr):
            tgt(n.target)
        elif isinstance(n, ast.ExceptHandler) and n.name:
            out.add(n.name)
        for c in ast.iter_child_nodes(n):
            if isinstance(c, (ast.Lambda, ast.ListComp, ast.SetComp, ast.DictComp, ast.GeneratorExp)):
                # named expressions inside would bind in the enclosing scope; ignored (not used in this code base)
                continue
            todo.append(c)
    return out


def _names_used(node):
    return {n.id for n in ast.walk(node) if isinstance(n, ast.Name)}


class _Subst(ast.NodeTransformer):
    def __init__(self, mapping):
        self.mapping = mapping

    def visit_Name(self, node):
        if node.id in self.mapping and isinstance(node.ctx, ast.Load):
            return _clone(self.mapping[node.id])
        if node.id in self.mapping and isinstance(self.mapping[node.id], ast.Name):
            node.id = self.mapping[node.id].id
        return node

    # do not touch names re-bound by lambdas / comprehensions with the same name
    def visit_Lambda(self, node):
        ps = {a.arg for a in node.args.args + node.args.kwonlyargs + node.args.posonlyargs}
        inner = {k: v for k, v in self.mapping.items() if k not in ps}
        node.body = _Subst(inner).visit(node.body)
        return node

    def _comp(self, node):
        bound = set()
        for g in node.generators:
            bound |= {n.id for n in ast.walk(g.target) if isinstance(n, ast.Name)}
        inner = {k: v for k, v in self.mapping.items() if k not in bound}
        sub = _Subst(inner)
        # the first iterable is evaluated in the enclosing scope
        node.generators[0].iter = self.visit(node.generators[0].iter)
        for i, g in enumerate(node.generators):
            if i > 0:
                g.iter = sub.visit(g.iter)
            g.ifs = [sub.visit(x) for x in g.ifs]
        if isinstance(node, ast.DictComp):
            node.key = sub.visit(node.key)
            node.value = sub.visit(node.value)
        else:
            node.elt = sub.visit(node.elt)
        return node

    visit_ListComp = visit_SetComp = visit_GeneratorExp = visit_DictComp = _comp


def _loc(new, like):
    for n in ast.walk(new):
        if not hasattr(n, "lineno") or getattr(n, "lineno", None) is None:
            n.lineno = getattr(like, "lineno", 1)
            n.col_offset = getattr(like, "col_offset", 0)
            n.end_lineno = getattr(like, "end_lineno", n.lineno)
            n.end_col_offset = getattr(like, "end_col_offset", 0)
    return new


def _not(e):
    """logical negation with negations pushed inwards"""
    if isinstance(e, ast.UnaryOp) and isinstance(e.op, ast.Not):
        return e.operand
    if isinstance(e, ast.Constant) and isinstance(e.value, bool):
        return ast.Constant(value=not e.value)
    if isinstance(e, ast.BoolOp):
        op = ast.Or() if isinstance(e.op, ast.And) else ast.And()
        return ast.BoolOp(op=op, values=[_not(v) for v in e.values])
    return ast.UnaryOp(op=ast.Not(), operand=e)


def _push_not(e):
    """normalise `not (a and b)` / `not not a` created by inlining (De Morgan, flattening)"""
    if isinstance(e, ast.UnaryOp) and isinstance(e.op, ast.Not):
        inner = e.operand
        if isinstance(inner, ast.UnaryOp) and isinstance(inner.op, ast.Not):
            return _push_not(inner.operand)
        if isinstance(inner, ast.BoolOp):
            op = ast.Or() if isinstance(inner.op, ast.And) else ast.And()
            return _push_not(ast.BoolOp(op=op, values=[ast.UnaryOp(op=ast.Not(), operand=v) for v in inner.values]))
        if isinstance(inner, ast.Constant) and isinstance(inner.value, bool):
            return ast.Constant(value=not inner.value)
        return e
    if isinstance(e, ast.BoolOp):
        vals = []
        for v in e.values:
            v = _push_not(v)
            if isinstance(v, ast.BoolOp) and type(v.op) is type(e.op):
                vals.extend(v.values)
            else:
                vals.append(v)
        return ast.BoolOp(op=e.op, values=vals)
    return e


def _const_bool(e):
    return isinstance(e, ast.Constant) and isinstance(e.value, bool)


def _ite(k_then, cond, rest):
    """expression for `k_then if cond else rest` with boolean constants folded"""
    if _const_bool(k_then):
        if k_then.value:                       # True if c else rest  ==  c or rest
            if _const_bool(rest):
                return cond if not rest.value else ast.Constant(value=True)
            return ast.BoolOp(op=ast.Or(), values=[cond, rest])
        if _const_bool(rest):                  # False if c else K
            return _not(cond) if rest.value else ast.Constant(value=False)
        return ast.BoolOp(op=ast.And(), values=[_not(cond), rest])
    return ast.IfExp(test=cond, body=k_then, orelse=rest)


# ---------------------------------------------------------------------------------------------- N1 helper inlining

class _Helper:
    def __init__(self, q, fn, container, cls):
        self.q, self.fn, self.container, self.cls = q, fn, container, cls
        decos = [ast.unparse(d) for d in fn.decorator_list]
        self.static = "staticmethod" in decos
        self.classmethod = "classmethod" in decos
        self.ok = all(d in ("staticmethod", "classmethod") for d in decos)
        a = fn.args
        if a.vararg or a.kwarg or a.posonlyargs:
            self.ok = False
        self.params = [x.arg for x in a.args]
        self.defaults = dict(zip(self.params[len(self.params) - len(a.defaults):], a.defaults))
        self.kwonly = [x.arg for x in a.kwonlyargs]
        for k, d in zip(a.kwonlyargs, a.kw_defaults):
            if d is not None:
                self.defaults[k.arg] = d
        self.body = _strip_doc(fn.body)
        for n in ast.walk(fn):
            if isinstance(n, (ast.Yield, ast.YieldFrom, ast.Await, ast.Global, ast.Nonlocal)):
                self.ok = False
            if n is not fn and isinstance(n, (ast.FunctionDef, ast.AsyncFunctionDef, ast.ClassDef)):
                self.ok = False
            if isinstance(n, ast.Call) and self._is_self_call(n):
                self.ok = False
        if isinstance(fn, ast.AsyncFunctionDef):
            self.ok = False
        self.expr = None
        self.let = False
        if self.ok:
            if len(self.body) == 1 and isinstance(self.body[0], ast.Return) and self.body[0].value is not None:
                self.expr = self.body[0].value
            else:
                self.expr = _bool_search(self.body)
                if self.expr is None:
                    self.expr = _let_expression(self.body, set(self.params))
                    # a let-helper called as a whole statement is inlined as statements (keeps the sharing of its locals)
                    self.let = self.expr is not None
                if self.expr is None and any(isinstance(s_, ast.If) for s_ in self.body) and \
                        all(r_.value is not None for s_ in self.body for r_ in ast.walk(s_) if isinstance(r_, ast.Return)) \
                        and _always_returns(self.body):
                    self.expr = _decision_tree(self.body, set(self.params))
                    self.let = self.expr is not None      # whole-statement calls keep the statement form

    def _is_self_call(self, call):
        f = call.func
        if isinstance(f, ast.Name) and self.cls is None and f.id == self.fn.name:
            return True
        return isinstance(f, ast.Attribute) and self.cls is not None and f.attr == self.fn.name and \
            isinstance(f.value, ast.Name) and f.value.id in ("self", "cls", self.cls.name)

    def matches(self, call, in_class):
        """-> list of argument expressions in parameter order (receiver included) or None"""
        f = call.func
        recv = None
        if self.cls is None:
            if not (isinstance(f, ast.Name) and f.id == self.fn.name):
                return None
        else:
            if not (isinstance(f, ast.Attribute) and f.attr == self.fn.name and isinstance(f.value, ast.Name)):
                return None
            if f.value.id in ("self", "cls"):
                if in_class is not self.cls:
                    return None
            elif f.value.id != self.cls.name:
                return None
            recv = f.value
        if any(isinstance(a, ast.Starred) for a in call.args) or any(k.arg is None for k in call.keywords):
            return None
        params = list(self.params)
        bound = {}
        if self.cls is not None and not self.static:
            if not params:
                return None
            if recv.id == self.cls.name and not self.classmethod:
                return None          # unbound call with explicit self: not handled
            bound[params[0]] = recv
            params = params[1:]
        if len(call.args) > len(params):
            return None
        for p, a in zip(params, call.args):
            bound[p] = a
        for k in call.keywords:
            if k.arg in bound or k.arg not in self.params + self.kwonly:
                return None
            bound[k.arg] = k.value
        for p in self.params + self.kwonly:
            if p not in bound:
                if p not in self.defaults:
                    return None
                bound[p] = self.defaults[p]
        return bound


def _bool_search(body):
    """`[if c: return K]*  for t in IT: [if c: return K]  return K2` with boolean constants -> expression, else None"""
    if not body or not isinstance(body[-1], ast.Return) or not _const_bool(body[-1].value or ast.Constant(value=None)):
        return None
    steps = []
    for s in body[:-1]:
        if isinstance(s, ast.If) and not s.orelse and len(s.body) == 1 and isinstance(s.body[0], ast.Return) and \
                s.body[0].value is not None and _const_bool(s.body[0].value):
            steps.append(("if", s.test, s.body[0].value))
        elif isinstance(s, ast.For) and not s.orelse and len(s.body) == 1 and isinstance(s.body[0], ast.If) and \
                not s.body[0].orelse and len(s.body[0].body) == 1 and isinstance(s.body[0].body[0], ast.Return) and \
                s.body[0].body[0].value is not None and _const_bool(s.body[0].body[0].value):
            gen = ast.GeneratorExp(elt=s.body[0].test,
                                   generators=[ast.comprehension(target=s.target, iter=s.iter, ifs=[], is_async=0)])
            steps.append(("if", ast.Call(func=ast.Name(id="any", ctx=ast.Load()), args=[gen], keywords=[]),
                          s.body[0].body[0].value))
        else:
            return None
    if not steps:
        return None
    e = body[-1].value
    for _k, cond, k in reversed(steps):
        e = _ite(k, cond, e)
    return e


def _decision_tree(body, params, env=None, depth=0):
    """a predicate written as a decision tree - nested `if`s whose leaves are `return <expr>`, with explaining locals in
    between (bound once, to something pure) - is the conditional expression of its paths:
    `if c: return a` + rest -> `a if c else <rest>` (boolean constants folded to and / or / not); None if not of that form"""
    env = dict(env or {})
    if depth > 12:
        return None
    if not body:
        return ast.Constant(value=None)
    s, rest = body[0], body[1:]
    if isinstance(s, ast.Return):
        if s.value is None:
            return ast.Constant(value=None)
        return _Subst(env).visit(_clone(s.value))
    if isinstance(s, ast.Assign) and len(s.targets) == 1 and isinstance(s.targets[0], ast.Name):
        nm = s.targets[0].id
        if nm in env or nm in params or not _pure(s.value, allow_call=False):
            return None
        env[nm] = _Subst(env).visit(_clone(s.value))
        return _decision_tree(rest, params, env, depth + 1)
    if isinstance(s, ast.If):
        cond = _Subst(env).visit(_clone(s.test))
        then = _decision_tree(list(s.body) + ([] if _always_returns(s.body) else rest), params, env, depth + 1)
        other = _decision_tree(list(s.orelse) + ([] if (s.orelse and _always_returns(s.orelse)) else rest), params, env,
                               depth + 1)
        if then is None or other is None:
            return None
        # a branch that only adds early exits and then falls through to the common rest:
        #   (G and R) if c else R  ==  (not c or G) and R        (G or R) if c else R  ==  (c and G) or R
        if isinstance(then, ast.BoolOp) and len(then.values) >= 2:
            def flat(e, op):
                return [x for v in e.values for x in (flat(v, op) if isinstance(v, ast.BoolOp) and type(v.op) is op
                                                       else [v])] if isinstance(e, ast.BoolOp) and type(e.op) is op else [e]
            op = type(then.op)
            tv, ov = flat(then, op), flat(other, op)
            if len(tv) > len(ov) and [ast.dump(x) for x in tv[len(tv) - len(ov):]] == [ast.dump(x) for x in ov]:
                g = tv[:len(tv) - len(ov)]
                g = g[0] if len(g) == 1 else ast.BoolOp(op=op(), values=g)
                if op is ast.And:
                    head = ast.BoolOp(op=ast.Or(), values=[_not(cond), g])
                    return ast.BoolOp(op=ast.And(), values=[head] + ov)
                head = ast.BoolOp(op=ast.And(), values=[cond, g])
                return ast.BoolOp(op=ast.Or(), values=[head] + ov)
        return _ite(then, cond, other)
    if isinstance(s, ast.Pass) or (isinstance(s, ast.Expr) and isinstance(s.value, ast.Constant)):
        return _decision_tree(rest, params, env, depth + 1)
    return None


def _let_expression(body, params):
    """`x = E1; y = E2(x); return E3(x, y)` with every local bound once (and read once, or bound to something pure) is
    the expression E3 with the locals substituted"""
    if len(body) < 2 or not isinstance(body[-1], ast.Return) or body[-1].value is None:
        return None
    env = {}
    for s in body[:-1]:
        if not (isinstance(s, ast.Assign) and len(s.targets) == 1 and isinstance(s.targets[0], ast.Name)):
            return None
        nm = s.targets[0].id
        if nm in env or nm in params:
            return None
        val = _Subst(env).visit(_clone(s.value))
        env[nm] = val
    ret = body[-1].value
    for nm, val in env.items():
        uses = sum(1 for n in ast.walk(ret) if isinstance(n, ast.Name) and n.id == nm)
        uses += sum(1 for v in env.values() for n in ast.walk(v) if isinstance(n, ast.Name) and n.id == nm)
        if uses > 1 and not _pure(val, allow_call=False):
            return None
        if uses == 0 and any(isinstance(x, ast.Call) for x in ast.walk(val)):
            return None
    return _Subst(env).visit(_clone(ret))


def _tail_returns_only(body):
    """every `return` of the statement list is in tail position"""
    for i, s in enumerate(body):
        last = i == len(body) - 1
        if isinstance(s, ast.Return):
            if not last:
                return False
        elif isinstance(s, ast.If):
            has = any(isinstance(n, ast.Return) for n in ast.walk(s))
            if has and not last:
                # allowed: `if c: ... return` followed by more code is an early return -> not tail
                return False
            if has and not (_tail_returns_only(s.body) and _tail_returns_only(s.orelse)):
                return False
        elif isinstance(s, ast.Try) and last and not s.finalbody and not s.orelse:
            # `try: return E  except X: ...; return E2` as the last statement: tail returns in the body and every handler
            if not (_tail_returns_only(s.body) and all(_tail_returns_only(h.body) for h in s.handlers)):
                return False
        elif any(isinstance(n, ast.Return) for n in ast.walk(s)):
            return False
    return True


def _early_to_else(body):
    """rewrite `if c: <...return>` + rest into `if c: ... else: rest` so that returns become tail returns"""
    out = []
    for i, s in enumerate(body):
        if isinstance(s, ast.If) and i < len(body) - 1 and not s.orelse and _always_returns(s.body):
            new = ast.If(test=s.test, body=_early_to_else(s.body), orelse=_early_to_else(body[i + 1:]))
            out.append(ast.copy_location(new, s))
            return out
        if isinstance(s, ast.If):
            s = ast.copy_location(ast.If(test=s.test, body=_early_to_else(s.body), orelse=_early_to_else(s.orelse)), s)
        out.append(s)
    return out


def _always_returns(body):
    if not body:
        return False
    last = body[-1]
    if isinstance(last, (ast.Return, ast.Raise)):
        return True
    if isinstance(last, ast.Try) and not last.finalbody and not last.orelse:
        return _always_returns(last.body) and all(_always_returns(h.body) for h in last.handlers)
    if isinstance(last, ast.If):
        return bool(last.orelse) and _always_returns(last.body) and _always_returns(last.orelse)
    return False


def _replace_returns(body, make):
    """copy of the statement list with every tail `return E` replaced by make(E)"""
    out = []
    for s in body:
        if isinstance(s, ast.Return):
            out.extend(make(s.value, s))
        elif isinstance(s, ast.If):
            out.append(ast.copy_location(ast.If(test=s.test, body=_replace_returns(s.body, make) or [ast.Pass()],
                                                orelse=_replace_returns(s.orelse, make)), s))
        elif isinstance(s, ast.Try) and s is body[-1] and not s.finalbody and not s.orelse and \
                any(isinstance(n, ast.Return) for n in ast.walk(s)):
            hs = [ast.copy_location(ast.ExceptHandler(type=h.type, name=h.name,
                                                      body=_replace_returns(h.body, make) or [ast.Pass()]), h)
                  for h in s.handlers]
            out.append(ast.copy_location(ast.Try(body=_replace_returns(s.body, make) or [ast.Pass()], handlers=hs,
                                                 orelse=[], finalbody=[]), s))
        else:
            out.append(s)
    return out


def _search_loop(body):
    """pre + [for ...: (returns of the form `if c: return E`, not inside inner loops)] + [return E2] -> (pre, loop, ret)"""
    if len(body) < 2 or not isinstance(body[-1], ast.Return) or not isinstance(body[-2], ast.For) or body[-2].orelse:
        return None
    pre, loop, ret = body[:-2], body[-2], body[-1]
    if any(isinstance(n, ast.Return) for s in pre for n in ast.walk(s)):
        return None
    if ret.value is not None and not isinstance(ret.value, (ast.Constant, ast.Name)):
        return None
    for n in ast.walk(loop):
        if n is not loop and isinstance(n, (ast.For, ast.While)) and any(isinstance(x, ast.Return) for x in ast.walk(n)):
            return None
        if n is not loop and isinstance(n, (ast.Break,)):
            return None
    return pre, loop, ret


class _RetToBreak(ast.NodeTransformer):
    def __init__(self, target):
        self.target = target

    def generic_block(self, stmts):
        out = []
        for s in stmts:
            if isinstance(s, ast.Return):
                if self.target is not None:
                    out.append(ast.copy_location(ast.Assign(
                        targets=[ast.Name(id=self.target, ctx=ast.Store())],
                        value=s.value or ast.Constant(value=None)), s))
                out.append(ast.copy_location(ast.Break(), s))
            else:
                for name in ("body", "orelse", "finalbody"):
                    blk = getattr(s, name, None)
                    if isinstance(blk, list) and blk and isinstance(blk[0], ast.stmt):
                        setattr(s, name, self.generic_block(blk))
                out.append(s)
        return out


def _inline_helpers(tree, modname, ref_funcs, stats):
    helpers = {}
    ref_names = _all_ref_names()
    for q, fn, container, cls in _functions(tree, modname):
        if q in ref_funcs:
            continue
        if fn.name.startswith("__") or fn.name in ref_names:
            continue      # a new special method or a new override of an existing name is called implicitly / dynamically
        h = _Helper(q, fn, container, cls)
        if h.ok:
            helpers[q] = h
    if not helpers:
        return
    # helpers calling helpers: inline innermost first by repeating until nothing changes
    for _round in range(3):
        changed = False
        for q, fn, container, cls in list(_functions(tree, modname)):
            for h in helpers.values():
                if h.fn is fn:
                    continue
                if _inline_into(fn, cls, h, stats):
                    h.inlined = getattr(h, "inlined", 0) + 1
                    changed = True
        if not changed:
            break
    # remove helpers that are no longer referenced
    for h in helpers.values():
        name = h.fn.name
        still = False
        for n in ast.walk(tree):
            if n is h.fn:
                continue
            if isinstance(n, ast.Name) and n.id == name and h.cls is None and not _inside(n, h.fn, tree):
                still = True
            if isinstance(n, ast.Attribute) and n.attr == name and h.cls is not None and not _inside(n, h.fn, tree):
                still = True
        # only private helpers disappear: a public function / method may be used from other modules
        if not still and getattr(h, "inlined", 0) and h.fn in h.container and h.fn.name.startswith("_"):
            h.container.remove(h.fn)
            stats["removed_helpers"] = stats.get("removed_helpers", 0) + 1
            if h.cls is not None and not h.cls.body:
                h.cls.body.append(ast.Pass())


_REF_NAMES = None


def _all_ref_names():
    global _REF_NAMES
    if _REF_NAMES is None:
        _REF_NAMES = set()
        for facts in canon._load().get("__ref__", {}).values():
            for q in facts.get("functions", []):
                _REF_NAMES.add(q.split(".")[-1])
    return _REF_NAMES


def _inside(node, fn, tree):
    return any(n is node for n in ast.walk(fn))


def _fresh(name, taken):
    i = 0
    new = name + "__h"
    while new in taken:
        i += 1
        new = "%s__h%d" % (name, i)
    return new


def _prepare_body(h, bound, fn, keep=(), dead_after=frozenset(), result_name=None):
    """copy of the helper body with parameters substituted and colliding locals renamed -> (prefix stmts, body)
    `result_name` = (R, T): the helper's local R, which is what it returns, is the caller's variable T"""
    body = _clone(h.body)
    holder = ast.Module(body=body, type_ignores=[])
    locals_h = _bound_names(ast.FunctionDef(name="_", args=h.fn.args, body=body, decorator_list=[]))
    assigned_params = locals_h & set(bound)
    taken = _names_used(fn) | set(bound)
    ren = {}
    if result_name is not None:
        ren[result_name[0]] = ast.Name(id=result_name[1], ctx=ast.Load())
    for n in sorted(locals_h - set(bound)):
        if n in ren:
            continue
        if n in taken and n not in keep:
            ren[n] = ast.Name(id=_fresh(n, taken | set(ren)), ctx=ast.Load())
    prefix = []
    mapping = {}
    for p, a in bound.items():
        if p in assigned_params and isinstance(a, ast.Name) and a.id == p and (p in keep or p in dead_after):
            # `x = helper(x)`: the helper's own rebinding of x is what the caller's x becomes
            continue
        if p in assigned_params or not isinstance(a, _SIMPLE):
            uses = sum(1 for n in ast.walk(holder) if isinstance(n, ast.Name) and n.id == p)
            if p in assigned_params or uses > 1:
                nm = p if p not in taken - {p} and p not in _names_used(fn) else _fresh(p, taken | set(ren))
                prefix.append(ast.Assign(targets=[ast.Name(id=nm, ctx=ast.Store())], value=_clone(a)))
                if nm != p:
                    ren[p] = ast.Name(id=nm, ctx=ast.Load())
                continue
        mapping[p] = a
    # renames first (Store and Load), then parameter substitution (Load only)
    if ren:
        for n in ast.walk(holder):
            if isinstance(n, ast.Name) and n.id in ren:
                n.id = ren[n.id].id
    holder = _Subst(mapping).visit(holder)
    return prefix, holder.body


def _inline_into(fn, cls, h, stats):
    """inline calls of helper h inside function fn; returns True if something was inlined"""
    did = False
    # statement contexts first
    did |= _inline_stmt_sites(fn, fn, cls, h, stats)
    # expression contexts (S1 / boolean search)
    if h.expr is not None:
        class T(ast.NodeTransformer):
            def visit_Call(self, node):
                self.generic_visit(node)
                b = h.matches(node, cls)
                if b is None:
                    return node
                e = _Subst(b).visit(_clone(h.expr))
                stats["inlined_helper_calls"] = stats.get("inlined_helper_calls", 0) + 1
                T.did = True
                return _loc(ast.copy_location(e, node), node)

            def visit_UnaryOp(self, node):
                self.generic_visit(node)
                if isinstance(node.op, ast.Not) and T.did:
                    return _loc(ast.copy_location(_push_not(node), node), node)
                return node
        T.did = False
        T().visit(fn)
        did |= T.did
    return did


def _hoist_nested_call(s, fn, cls, h):
    """`x = list(H(a))` with H not expressible as an expression -> [`_t = H(a)`, `x = list(_t)`] (the call is evaluated
    unconditionally and first: not under a lambda, comprehension, conditional expression or short-circuit operator)"""
    if h.expr is not None:
        return None
    if isinstance(s, (ast.Assign, ast.AugAssign, ast.Return, ast.Expr)):
        root = s.value
    elif isinstance(s, ast.If):
        root = s.test
    else:
        return None
    if root is None or (isinstance(root, ast.Call) and h.matches(root, cls) is not None and not isinstance(s, ast.If)):
        return None

    found = []

    def walk(e, conditional):
        if isinstance(e, (ast.Lambda, ast.ListComp, ast.SetComp, ast.DictComp, ast.GeneratorExp)):
            return
        if isinstance(e, ast.Call) and h.matches(e, cls) is not None:
            found.append((e, conditional))
        for f_, v in ast.iter_fields(e):
            vs = v if isinstance(v, list) else [v]
            for i, c in enumerate(vs):
                if isinstance(c, ast.AST):
                    cond = conditional
                    if isinstance(e, ast.IfExp) and f_ in ("body", "orelse"):
                        cond = True
                    if isinstance(e, ast.BoolOp) and f_ == "values" and i > 0:
                        cond = True
                    walk(c, cond)
    walk(root, False)
    if len(found) != 1 or found[0][1]:
        return None
    call = found[0][0]
    tmp = _fresh("_hsa_call", _names_used(fn))
    pre = ast.copy_location(ast.Assign(targets=[ast.Name(id=tmp, ctx=ast.Store())], value=call), s)

    class R(ast.NodeTransformer):
        def visit_Call(self, node):
            if node is call:
                return ast.copy_location(ast.Name(id=tmp, ctx=ast.Load()), node)
            self.generic_visit(node)
            return node
    if isinstance(s, ast.If):
        s.test = R().visit(s.test)
    else:
        s.value = R().visit(s.value)
    return [pre, s]


def _inline_stmt_sites(owner, fn, cls, h, stats):
    did = False
    for name in ("body", "orelse", "finalbody"):
        blk = getattr(owner, name, None)
        if not (isinstance(blk, list) and blk and isinstance(blk[0], ast.stmt)):
            continue
        i = 0
        while i < len(blk):
            s = blk[i]
            hoisted = _hoist_nested_call(s, fn, cls, h)
            if hoisted is not None:
                blk[i:i + 1] = hoisted
                s = blk[i]
            rep = _try_stmt(s, fn, cls, h)
            if rep is not None:
                # the inlined statements take the position of the call (in order): definition order inside the caller
                # is what identifies locals, and reports point to the call site
                # (fractional line numbers: the k-th inlined statement sits at line + k/1000, its own inner lines keep
                # their relative order in the sixth decimal; reports print the integer part)
                k_ = 0
                for r in rep:
                    base = getattr(r, "lineno", None)
                    for x in ast.walk(r):
                        if hasattr(x, "lineno") or isinstance(x, (ast.stmt, ast.expr)):
                            rel = (getattr(x, "lineno", base) - base) if base is not None and \
                                isinstance(getattr(x, "lineno", None), (int, float)) else 0
                            x.lineno = int(s.lineno) + (k_ + 1) / 1000.0 + max(rel, 0) / 1e6
                            x.end_lineno = x.lineno
                            if not hasattr(x, "col_offset"):
                                x.col_offset = 0
                            x.end_col_offset = getattr(x, "end_col_offset", x.col_offset)
                    k_ += 1
                    _loc(r, s)
                blk[i:i + 1] = rep
                stats["inlined_helper_calls"] = stats.get("inlined_helper_calls", 0) + 1
                did = True
                i += len(rep)
                continue
            if not isinstance(s, (ast.FunctionDef, ast.AsyncFunctionDef, ast.ClassDef)):
                did |= _inline_stmt_sites(s, fn, cls, h, stats)
                if isinstance(s, ast.Try):
                    for hd in s.handlers:
                        did |= _inline_stmt_sites(hd, fn, cls, h, stats)
            i += 1
    return did


def _try_stmt(s, fn, cls, h):
    call, ctx, target = None, None, None
    if isinstance(s, ast.Return) and isinstance(s.value, ast.Call):
        call, ctx = s.value, "return"
    elif isinstance(s, ast.Expr) and isinstance(s.value, ast.Call):
        call, ctx = s.value, "expr"
    elif isinstance(s, ast.Assign) and len(s.targets) == 1 and isinstance(s.value, ast.Call) and (
            isinstance(s.targets[0], (ast.Name, ast.Attribute, ast.Subscript)) or
            (isinstance(s.targets[0], ast.Tuple) and all(isinstance(e, ast.Name) for e in s.targets[0].elts))):
        call, ctx = s.value, "assign"
        target = s.targets[0].id if isinstance(s.targets[0], ast.Name) else None
        target_node = s.targets[0]
    if call is None:
        return None
    bound = h.matches(call, cls)
    if bound is None or (h.expr is not None and not h.let):
        return None          # expression helpers are substituted by the expression pass
    if any(any(isinstance(n, ast.Call) and h.matches(n, cls) is not None for n in ast.walk(a)) for a in bound.values()):
        return None
    keep = (target,) if target else ()
    if ctx == "assign" and isinstance(target_node, ast.Tuple):
        keep = tuple(e.id for e in target_node.elts)
        # every value return of the helper must be a tuple of that arity
        for n in ast.walk(ast.Module(body=h.body, type_ignores=[])):
            if isinstance(n, ast.Return) and not (isinstance(n.value, ast.Tuple) and len(n.value.elts) == len(keep)):
                return None
    # caller variables that nobody reads after this statement (textually later, or anywhere if it sits in a loop)
    in_loop = any(isinstance(n, (ast.For, ast.While)) and any(x is s for x in ast.walk(n)) for n in _own_walk(fn))
    inside = {id(x) for x in ast.walk(s)}
    live = {x.id for x in _own_walk(fn) if isinstance(x, ast.Name) and isinstance(x.ctx, ast.Load) and id(x) not in inside
            and (in_loop or x.lineno > s.lineno)}
    dead = frozenset(a.id for a in bound.values() if isinstance(a, ast.Name) and a.id not in live)
    # `T = helper(..)` where the helper builds a local R and returns it: R *is* T
    result_name = None
    if ctx == "assign" and target is not None:
        rets = [n for n in ast.walk(ast.Module(body=h.body, type_ignores=[])) if isinstance(n, ast.Return)]
        names = {n.value.id if isinstance(n.value, ast.Name) else None for n in rets}
        if len(names) == 1 and None not in names:
            r_ = names.pop()
            h_names = {x.id for b_ in h.body for x in ast.walk(b_) if isinstance(x, ast.Name)}
            h_locals = _bound_names(ast.FunctionDef(name="_", args=h.fn.args, body=h.body, decorator_list=[]))
            if r_ != target and r_ in h_locals and r_ not in bound and target not in h_names and \
                    target not in {a.id for a in bound.values() if isinstance(a, ast.Name)} and \
                    not any(isinstance(x, ast.Name) and x.id == target for a in bound.values() for x in ast.walk(a)):
                result_name = (r_, target)
    prefix, body = _prepare_body(h, bound, fn, keep=keep, dead_after=dead, result_name=result_name)
    has_value_return = any(isinstance(n, ast.Return) and n.value is not None for b in body for n in ast.walk(b))
    if ctx == "return":
        if not _always_returns(body):
            body = body + [ast.Return(value=None)]
        return prefix + body
    if ctx == "expr":
        if has_value_return:
            return None
        body2 = _early_to_else(body)
        if not _tail_returns_only(body2):
            return None
        return prefix + (_replace_returns(body2, lambda v, r: []) or [ast.Pass()])
    # assignment
    def assign(v, r):
        if target is not None and isinstance(v, ast.Name) and v.id == target:
            return []
        if isinstance(target_node, ast.Tuple) and isinstance(v, ast.Tuple) and \
                [ast.unparse(e) for e in v.elts] == [e.id for e in target_node.elts]:
            return []
        if isinstance(target_node, ast.Tuple) and isinstance(v, ast.Tuple) and len(v.elts) == len(target_node.elts):
            # element-wise, dropping `x = x`, when no target is read by a later value
            tg, vs = [e.id for e in target_node.elts], v.elts
            indep = all(not any(isinstance(x, ast.Name) and x.id == tg[k] for x in ast.walk(vs[j_]))
                        for k in range(len(tg)) for j_ in range(k + 1, len(vs)))
            if indep:
                out_ = []
                for t_, v_ in zip(tg, vs):
                    if isinstance(v_, ast.Name) and v_.id == t_:
                        continue
                    out_.append(ast.copy_location(ast.Assign(targets=[ast.Name(id=t_, ctx=ast.Store())], value=v_), r))
                return out_
        return [ast.copy_location(ast.Assign(targets=[_clone(target_node)],
                                             value=v if v is not None else ast.Constant(value=None)), r)]
    body2 = _early_to_else(body)
    if _tail_returns_only(body2):
        if not _always_returns(body2):
            body2 = body2 + [ast.Return(value=None)]
        return prefix + (_replace_returns(body2, assign) or [ast.Pass()])
    sl = _search_loop(body)
    if sl is not None:
        pre, loop, ret = sl
        init = assign(ret.value, ret)
        if not init and ret.value is not None:
            init = []
        if target is None:
            return None
        loop.body = _RetToBreak(target).generic_block(loop.body)
        # reference idiom: default first, then the loop that overwrites it and breaks
        return prefix + pre + init + [loop]
    return None


# ---------------------------------------------------------------------------------------------- N3 comprehensions

def _desugar_comps(fn, ref_fps, stats, loopbuilt=frozenset(), ref_ncomps=0):
    """A comprehension is turned back into a loop only where the reference had a loop: its fingerprint is not a reference
    one AND it fills a name that the reference filled by a loop (`x = []` ... append), or - for the forms without a name
    (`return [..]`, `return all(..)`, `x.extend(..)`) - the function has more comprehensions than the reference had.
    A comprehension that a change merely modified stays a comprehension (the rules written for it must see it)."""
    taken = _names_used(fn)
    n_now = sum(1 for n in ast.walk(fn) if isinstance(n, (ast.ListComp, ast.SetComp, ast.DictComp, ast.GeneratorExp)))
    surplus = n_now > ref_ncomps

    def loops(comp, leaf_stmt, like):
        """nest the generators of comp around leaf_stmt"""
        body = [leaf_stmt]
        for g in reversed(comp.generators):
            for c in reversed(g.ifs):
                body = [ast.copy_location(ast.If(test=c, body=body, orelse=[]), like)]
            body = [ast.copy_location(ast.For(target=_store(g.target), iter=g.iter, body=body, orelse=[]), like)]
        return body

    def _store(t):
        t = _clone(t)
        for n in ast.walk(t):
            if isinstance(n, (ast.Name, ast.Tuple, ast.List, ast.Starred)):
                n.ctx = ast.Store()
        return t

    def is_new(comp):
        return comp_fingerprint(comp) not in ref_fps

    def comp_targets(comp):
        out = set()
        for g in comp.generators:
            out |= {n.id for n in ast.walk(g.target) if isinstance(n, ast.Name)}
        return out

    def collides(comp, stmt):
        # the loop variables become function locals.  That changes nothing unless the name already has a binding
        # that is live across the statement: a parameter, a global, or a store before it (anywhere, if the statement
        # sits in a loop).  A later loop that re-binds the same name (the reference idiom `for c in ..` twice) is fine.
        inside = {id(n) for n in ast.walk(comp)}
        names = comp_targets(comp)
        a = fn.args
        params = {x.arg for x in a.posonlyargs + a.args + a.kwonlyargs}
        if names & params:
            return True
        in_loop = False
        for n in _own_walk(fn):
            if isinstance(n, (ast.For, ast.While)) and any(x is stmt for x in ast.walk(n)):
                in_loop = True
        scoped = set()      # names inside other comprehensions / lambdas live in scopes of their own
        for c in _own_walk(fn):
            if c is not comp and isinstance(c, (ast.ListComp, ast.SetComp, ast.DictComp, ast.GeneratorExp, ast.Lambda)):
                bound = set()
                if isinstance(c, ast.Lambda):
                    bound = {a.arg for a in c.args.args}
                else:
                    for g_ in c.generators:
                        bound |= {x.id for x in ast.walk(g_.target) if isinstance(x, ast.Name)}
                scoped |= {id(x) for x in ast.walk(c) if isinstance(x, ast.Name) and x.id in bound}
        for n in _own_walk(fn):
            if isinstance(n, ast.Name) and n.id in names and id(n) not in inside and id(n) not in scoped:
                if isinstance(n.ctx, ast.Store) and (in_loop or n.lineno < stmt.lineno):
                    return True
                if isinstance(n.ctx, ast.Load) and not _is_local(fn, n.id):
                    return True        # a global of the same name is read somewhere
        return False

    def rewrite(s):
        """-> replacement statement list or None"""
        val, mk_init, mk_leaf, tail = None, None, None, []
        name = None
        if surplus and isinstance(s, ast.Return) and isinstance(s.value, ast.Call) and isinstance(s.value.func, ast.Name) and \
                s.value.func.id in ("all", "any") and len(s.value.args) == 1 and not s.value.keywords and \
                isinstance(s.value.args[0], ast.GeneratorExp) and is_new(s.value.args[0]) and \
                not collides(s.value.args[0], s):
            # return all(P for ..)  ->  for ..: if not P: return False \n return True   (any: dually)
            comp = s.value.args[0]
            is_all = s.value.func.id == "all"
            test = _push_not(ast.UnaryOp(op=ast.Not(), operand=comp.elt)) if is_all else comp.elt
            leaf = ast.If(test=test, body=[ast.Return(value=ast.Constant(value=not is_all))], orelse=[])
            return loops(comp, ast.copy_location(leaf, s), s) + \
                [ast.copy_location(ast.Return(value=ast.Constant(value=is_all)), s)]
        if surplus and isinstance(s, ast.Assign) and len(s.targets) == 1 and isinstance(s.targets[0], ast.Name) and \
                isinstance(s.value, ast.Call) and isinstance(s.value.func, ast.Name) and s.value.func.id == "next" and \
                len(s.value.args) == 2 and isinstance(s.value.args[0], ast.GeneratorExp) and \
                isinstance(s.value.args[1], (ast.Constant, ast.Name)) and is_new(s.value.args[0]) and \
                not collides(s.value.args[0], s) and len(s.value.args[0].generators) == 1:
            # x = next((E for T in IT if C), D)  ->  x = D; for T in IT: if C: x = E; break
            comp = s.value.args[0]
            tgt = s.targets[0].id
            init = ast.copy_location(ast.Assign(targets=[ast.Name(id=tgt, ctx=ast.Store())], value=s.value.args[1]), s)
            hit = [ast.copy_location(ast.Assign(targets=[ast.Name(id=tgt, ctx=ast.Store())], value=comp.elt), s),
                   ast.copy_location(ast.Break(), s)]
            body = hit
            for c in reversed(comp.generators[0].ifs):
                body = [ast.copy_location(ast.If(test=c, body=body, orelse=[]), s)]
            loop = ast.copy_location(ast.For(target=_store(comp.generators[0].target), iter=comp.generators[0].iter,
                                             body=body, orelse=[]), s)
            return [init, loop]
        if isinstance(s, ast.Assign) and len(s.targets) == 1 and isinstance(s.targets[0], ast.Name):
            name, val = s.targets[0].id, s.value
            if name not in loopbuilt:
                return None
        elif isinstance(s, ast.Return) and s.value is not None:
            name, val = "_hsa_result", s.value
            if name in taken or not surplus:
                return None
            tail = [ast.copy_location(ast.Return(value=ast.Name(id=name, ctx=ast.Load())), s)]
        elif surplus and isinstance(s, ast.Expr) and isinstance(s.value, ast.Call) and isinstance(s.value.func, ast.Attribute) and \
                s.value.func.attr == "extend" and len(s.value.args) == 1 and \
                isinstance(s.value.args[0], (ast.ListComp, ast.GeneratorExp)) and is_new(s.value.args[0]) and \
                not collides(s.value.args[0], s):
            comp = s.value.args[0]
            leaf = ast.Expr(value=ast.Call(func=ast.Attribute(value=s.value.func.value, attr="append", ctx=ast.Load()),
                                           args=[comp.elt], keywords=[]))
            return loops(comp, ast.copy_location(leaf, s), s)
        if val is None:
            return None
        comp, kind = None, None
        if isinstance(val, ast.ListComp):
            comp, kind = val, "list"
        elif isinstance(val, ast.SetComp):
            comp, kind = val, "set"
        elif isinstance(val, ast.DictComp):
            comp, kind = val, "dict"
        elif isinstance(val, ast.Call) and isinstance(val.func, ast.Name) and len(val.args) == 1 and not val.keywords and \
                isinstance(val.args[0], (ast.GeneratorExp, ast.ListComp)):
            if val.func.id == "list":
                comp, kind = val.args[0], "list"
            elif val.func.id == "set":
                comp, kind = val.args[0], "set"
            elif val.func.id in ("dict", "OrderedDict") and isinstance(val.args[0].elt, ast.Tuple) and \
                    len(val.args[0].elt.elts) == 2:
                comp, kind = val.args[0], "pairs:" + val.func.id
        if comp is None or not is_new(comp) or collides(comp, s):
            return None
        if name in _names_used(comp):
            return None      # x = [.. x ..]: the old value is read while the new one is built
        ref = lambda: ast.Name(id=name, ctx=ast.Load())
        if kind == "list":
            init = ast.List(elts=[], ctx=ast.Load())

            def app(e):
                if isinstance(e, ast.IfExp):      # [a if c else b for ..]: one append per branch
                    return ast.If(test=e.test, body=[app(e.body)], orelse=[app(e.orelse)])
                return ast.Expr(value=ast.Call(func=ast.Attribute(value=ref(), attr="append", ctx=ast.Load()),
                                               args=[e], keywords=[]))
            leaf = app(comp.elt)
        elif kind == "set":
            init = ast.Call(func=ast.Name(id="set", ctx=ast.Load()), args=[], keywords=[])
            leaf = ast.Expr(value=ast.Call(func=ast.Attribute(value=ref(), attr="add", ctx=ast.Load()),
                                           args=[comp.elt], keywords=[]))
        elif kind == "dict":
            init = ast.Dict(keys=[], values=[])
            leaf = ast.Assign(targets=[ast.Subscript(value=ref(), slice=comp.key, ctx=ast.Store())], value=comp.value)
        else:
            init = ast.Call(func=ast.Name(id=kind.split(":")[1], ctx=ast.Load()), args=[], keywords=[])
            k, v = comp.elt.elts
            leaf = ast.Assign(targets=[ast.Subscript(value=ref(), slice=k, ctx=ast.Store())], value=v)
        first = ast.copy_location(ast.Assign(targets=[ast.Name(id=name, ctx=ast.Store())], value=init), s)
        return [first] + loops(comp, ast.copy_location(leaf, s), s) + tail

    def walk_block(owner):
        for nm in ("body", "orelse", "finalbody"):
            blk = getattr(owner, nm, None)
            if not (isinstance(blk, list) and blk and isinstance(blk[0], ast.stmt)):
                continue
            i = 0
            while i < len(blk):
                s = blk[i]
                rep = rewrite(s)
                if rep is not None:
                    for r in rep:
                        _loc(r, s)
                    blk[i:i + 1] = rep
                    stats["desugared_comprehensions"] = stats.get("desugared_comprehensions", 0) + 1
                    i += len(rep)
                    continue
                if not isinstance(s, (ast.FunctionDef, ast.AsyncFunctionDef, ast.ClassDef)):
                    walk_block(s)
                    if isinstance(s, ast.Try):
                        for hd in s.handlers:
                            walk_block(hd)
                i += 1
    walk_block(fn)


def _resugar_loops(fn, compbuilt, loopbuilt, stats):
    """N3': `x = []` directly followed by a loop whose only effect is one `x.append(E)` under tests (`if c: continue`,
    nested ifs) becomes `x = [E for .. if ..]` again where the reference built x with a comprehension"""
    def cond_expr(t, pol):
        if pol:
            return t
        if isinstance(t, ast.UnaryOp) and isinstance(t.op, ast.Not):
            return t.operand
        return ast.UnaryOp(op=ast.Not(), operand=t)

    def simple_body(stmts, x):
        """-> list of (append call) if the statements are only ifs / continue / one append to x"""
        apps = []
        for s in stmts:
            if isinstance(s, ast.Continue):
                continue
            if isinstance(s, ast.If):
                a = simple_body(s.body, x)
                b = simple_body(s.orelse, x)
                if a is None or b is None:
                    return None
                apps += a + b
            elif isinstance(s, ast.Expr) and isinstance(s.value, ast.Call) and isinstance(s.value.func, ast.Attribute) and \
                    s.value.func.attr == "append" and isinstance(s.value.func.value, ast.Name) and \
                    s.value.func.value.id == x and len(s.value.args) == 1:
                apps.append(s.value)
            else:
                return None
        return apps

    def walk_block(owner):
        for nm in ("body", "orelse", "finalbody"):
            blk = getattr(owner, nm, None)
            if not (isinstance(blk, list) and blk and isinstance(blk[0], ast.stmt)):
                continue
            i = 0
            while i < len(blk) - 1:
                s, nxt = blk[i], blk[i + 1]
                if isinstance(s, ast.Assign) and len(s.targets) == 1 and isinstance(s.targets[0], ast.Name) and \
                        isinstance(s.value, ast.List) and not s.value.elts and isinstance(nxt, ast.For) and not nxt.orelse:
                    x = s.targets[0].id
                    if x in compbuilt and x not in loopbuilt:
                        apps = simple_body(nxt.body, x)
                        if apps is not None and len(apps) == 1:
                            _set_parents(fn)
                            from .astutil import flat_guards
                            from .astutil import guards
                            tests = sorted(guards(apps[0], stop=nxt), key=lambda tp_: (tp_[0].lineno, tp_[0].col_offset))
                            conj = [cond_expr(t, p) for t, p in tests]
                            ifs = [conj[0]] if len(conj) == 1 else \
                                ([ast.BoolOp(op=ast.And(), values=conj)] if conj else [])
                            comp = ast.ListComp(elt=apps[0].args[0], generators=[ast.comprehension(
                                target=nxt.target, iter=nxt.iter, ifs=ifs, is_async=0)])
                            new = ast.copy_location(ast.Assign(targets=[ast.Name(id=x, ctx=ast.Store())], value=comp), s)
                            _loc(new, s)
                            blk[i:i + 2] = [new]
                            stats["resugared_loops"] = stats.get("resugared_loops", 0) + 1
                            continue
                if not isinstance(s, (ast.FunctionDef, ast.AsyncFunctionDef, ast.ClassDef)):
                    walk_block(s)
                i += 1
            for s in blk[-1:]:
                if not isinstance(s, (ast.FunctionDef, ast.AsyncFunctionDef, ast.ClassDef)):
                    walk_block(s)
    walk_block(fn)


# ---------------------------------------------------------------------------------------------- N2 new locals

def _set_parents(fn):
    for n in ast.walk(fn):
        for c in ast.iter_child_nodes(n):
            c._parent = n


_PURE_FUNCS = {"os.path.join", "str", "len", "isinstance", "type", "getattr", "hasattr", "tuple", "frozenset", "repr",
               "int", "bool", "min", "max", "abs"}
_PURE_METHODS = {"startswith", "endswith", "lower", "upper", "strip", "split", "format", "get_type"}


def _pure_call(c):
    """calls whose result depends only on their operands and that change nothing (may be evaluated again)"""
    f = c.func
    if ast.unparse(f) in _PURE_FUNCS:
        return True
    if isinstance(f, ast.Attribute) and (f.attr in _PURE_METHODS or f.attr.startswith(("is_", "has_"))):
        return True
    return False


def _pure(e, allow_call):
    for n in ast.walk(e):
        if isinstance(n, (ast.Call,)) and not allow_call and not _pure_call(n):
            return False
        if isinstance(n, (ast.Lambda, ast.ListComp, ast.SetComp, ast.DictComp, ast.GeneratorExp, ast.Yield,
                          ast.YieldFrom, ast.Await, ast.NamedExpr, ast.Starred)):
            return False
    return True


def _paths(e):
    """textual access paths read by e: 'self._context', 'self._context[namespace]', ..."""
    out = set()
    for n in ast.walk(e):
        if isinstance(n, (ast.Attribute, ast.Subscript)):
            out.add(ast.unparse(n))
        elif isinstance(n, ast.Name):
            out.add(n.id)
    return out


def _inline_locals(fn, q, ref_locals, stats):
    from .cfg import CFG
    ids, names = canon.identities(fn, frozenset())
    want = ref_locals.get(q, {})
    new = [nm for nm, ident in ids.items() if ("%s#%d" % ident) not in want and nm not in want.values()]
    if not new:
        return
    _set_parents(fn)
    changed = True
    rounds = 0
    while changed and rounds < 60:
        changed = False
        rounds += 1
        try:
            g = CFG(fn)
        except Exception:
            return
        for nm in sorted(new):
            if _inline_one_local(fn, g, nm, stats):
                _set_parents(fn)
                changed = True
                break


def _inline_one_local(fn, g, nm, stats):
    """replace every read of the new local `nm` by the value of the (single) definition that reaches it"""
    stores = [n for n in _own_walk(fn) if isinstance(n, ast.Name) and n.id == nm and isinstance(n.ctx, ast.Store)]
    if not stores:
        return False
    defs = []
    for d in stores:
        st = getattr(d, "_parent", None)
        if not (isinstance(st, ast.Assign) and len(st.targets) == 1 and st.targets[0] is d):
            return False
        defs.append(st)
    for n in ast.walk(fn):
        if n is not fn and isinstance(n, (ast.FunctionDef, ast.AsyncFunctionDef, ast.Lambda)):
            if any(isinstance(x, ast.Name) and x.id == nm for x in ast.walk(n)):
                return False
    if any(isinstance(n, ast.Name) and n.id == nm and isinstance(n.ctx, ast.Del) for n in _own_walk(fn)):
        return False
    uses = [n for n in _own_walk(fn) if isinstance(n, ast.Name) and n.id == nm and isinstance(n.ctx, ast.Load)]
    if not uses:
        return False
    for u in uses:
        p = getattr(u, "_parent", None)
        # the local is mutated through its name (x.append(..), x[k] = .., x.f = ..) and denotes a container built by its
        # definition: its definition is not what it holds at the use
        fresh_container = any(isinstance(d.value, (ast.List, ast.Dict, ast.Set, ast.ListComp, ast.DictComp, ast.SetComp,
                                                    ast.Call)) for d in defs)
        if fresh_container and isinstance(p, (ast.Attribute, ast.Subscript)) and p.value is u:
            gp = getattr(p, "_parent", None)
            if isinstance(p.ctx, (ast.Store, ast.Del)) or (isinstance(gp, ast.Call) and gp.func is p and
                                                          p.attr in canon_mutators()):
                return False
    by_def = {}
    try:
        for u in uses:
            rd = g.defs_reaching(nm, u)
            if len(rd) != 1:
                return False
            st = g.stmt(rd[0][0])
            if not any(st is d for d in defs):
                return False
            by_def.setdefault(id(st), (st, []))[1].append(u)
    except Exception:
        return False
    def stores_in(nodes):
        out = set()
        for n in nodes:
            tgts = []
            if isinstance(n, ast.Assign):
                tgts = n.targets
            elif isinstance(n, (ast.AugAssign, ast.AnnAssign)):
                tgts = [n.target]
            elif isinstance(n, ast.Delete):
                tgts = n.targets
            elif isinstance(n, ast.For):
                tgts = [n.target]
            for t in tgts:
                for x in (ast.walk(t) if isinstance(t, (ast.Tuple, ast.List)) else [t]):
                    if isinstance(x, (ast.Attribute, ast.Subscript)):
                        out.add(ast.unparse(x))
        return out

    def span_of(st, us):
        """statements strictly after the definition up to (not including) the last statement that reads it, when all
        of this happens in one block; None otherwise"""
        blk = _block_of(st)
        if blk is None:
            return None
        tops = []
        for u in us:
            top = u
            while top is not None and not any(top is x for x in blk):
                top = getattr(top, "_parent", None)
            if top is None:
                return None
            tops.append(top)
        i0 = [i for i, x in enumerate(blk) if x is st][0]
        idx = [i for i, x in enumerate(blk) if any(x is t_ for t_ in tops)]
        if not idx or min(idx) <= i0:
            return None
        # the last reading statement itself evaluates its value before it stores: only a compound statement (if / for)
        # can store before a later read inside it
        last = blk[max(idx)]
        inner = [] if isinstance(last, (ast.Assign, ast.AugAssign, ast.Expr, ast.Return)) else [last]
        return blk[i0 + 1:max(idx)] + inner

    # rebinding stores of the function (for the path test)
    stored_paths = set()
    for n in _own_walk(fn):
        tgts = []
        if isinstance(n, ast.Assign):
            tgts = n.targets
        elif isinstance(n, (ast.AugAssign, ast.AnnAssign)):
            tgts = [n.target]
        elif isinstance(n, ast.Delete):
            tgts = n.targets
        elif isinstance(n, ast.For):
            tgts = [n.target]
        for t in tgts:
            for x in (ast.walk(t) if isinstance(t, (ast.Tuple, ast.List)) else [t]):
                if isinstance(x, (ast.Attribute, ast.Subscript)):
                    stored_paths.add(ast.unparse(x))
    for st, us in by_def.values():
        E = st.value
        has_call = any(isinstance(x, ast.Call) and not _pure_call(x) for x in ast.walk(E))
        if not _pure(E, allow_call=len(us) == 1) or nm in _names_used(E):
            return False
        try:
            for u in us:
                for x in _names_used(E):
                    if not _is_local(fn, x):
                        continue
                    a = {dd[0] for dd in g.defs_reaching(x, st)}
                    b = {dd[0] for dd in g.defs_reaching(x, u)}
                    if a != b:
                        return False
        except Exception:
            return False
        # nothing rebinds a path that E reads (a store deeper than the path mutates the same object: fine)
        sp = span_of(st, us)
        relevant = stored_paths if sp is None else stores_in([n for s_ in sp for n in ast.walk(s_)])
        if {p for p in _paths(E) if "." in p or "[" in p} & relevant:
            return False
        # `d[k]` on a defaultdict inserts k: moving it from the definition to the uses changes what a later `k in d`
        # sees.  Unless the container is known to be a plain dict / list, a subscript is not moved when the function
        # also asks the container about its keys.
        for sub in [x for x in ast.walk(E) if isinstance(x, ast.Subscript)]:
            root = sub.value
            while isinstance(root, ast.Subscript):
                root = root.value
            rtxt = ast.unparse(root)
            if _known_plain_container(fn, rtxt):
                continue
            # only what lies between the definition and its uses matters (same block): a membership test elsewhere
            # cannot observe the difference
            blk = _block_of(st)
            span = None
            if blk is not None:
                tops = []
                for u in us:
                    top = u
                    while top is not None and not any(top is x for x in blk):
                        top = getattr(top, "_parent", None)
                    tops.append(top)
                if all(t_ is not None for t_ in tops):
                    i0 = [i for i, x in enumerate(blk) if x is st][0]
                    i1 = max([i for i, x in enumerate(blk) if any(x is t_ for t_ in tops)])
                    if i1 > i0:
                        span = blk[i0 + 1:i1 + 1]
            scan = [n for s_ in span for n in ast.walk(s_)] if span is not None else list(_own_walk(fn))
            for n in scan:
                if isinstance(n, ast.Compare) and any(isinstance(o, (ast.In, ast.NotIn)) for o in n.ops) and \
                        any(ast.unparse(c).startswith(rtxt) for c in n.comparators):
                    return False
                if isinstance(n, ast.Call) and isinstance(n.func, ast.Attribute) and \
                        n.func.attr in ("get", "keys", "items", "values", "__contains__") and \
                        ast.unparse(n.func.value).startswith(rtxt):
                    return False
        if has_call:
            # the call moves to its only use: require the same block and nothing with an effect in between, other than
            # sibling definitions of explaining locals
            u_st = us[0]
            while u_st is not None and not isinstance(u_st, ast.stmt):
                u_st = getattr(u_st, "_parent", None)
            blk = _block_of(st)
            if blk is None or u_st is None:
                return False
            top = u_st
            while top is not None and not any(top is x for x in blk):
                top = getattr(top, "_parent", None)
            if top is None:
                return False
            i0 = [i for i, x in enumerate(blk) if x is st][0]
            i1 = [i for i, x in enumerate(blk) if x is top][0]
            if i1 < i0:
                return False
            for bst in blk[i0 + 1:i1]:
                simple_def = isinstance(bst, ast.Assign) and len(bst.targets) == 1 and isinstance(bst.targets[0], ast.Name)
                if not simple_def and any(isinstance(x, ast.Call) for x in ast.walk(bst)):
                    return False
    for st in defs:
        if id(st) not in by_def and any(isinstance(x, ast.Call) for x in ast.walk(st.value)):
            return False       # a definition nobody reads but whose value calls something: keep everything as it is
    # all definitions are used somewhere or dead: substitute
    for st, us in by_def.values():
        for u in us:
            p = u._parent
            rep = _clone(st.value)
            for f_, v in ast.iter_fields(p):
                if v is u:
                    setattr(p, f_, rep)
                elif isinstance(v, list):
                    for i, x in enumerate(v):
                        if x is u:
                            v[i] = rep
            rep._parent = p
    for st in defs:
        blk = _block_of(st)
        if blk is not None:
            for i, x in enumerate(blk):
                if x is st:
                    del blk[i]
                    break
            if not blk:
                blk.append(ast.copy_location(ast.Pass(), st))
    stats["inlined_locals"] = stats.get("inlined_locals", 0) + 1
    return True


def _known_plain_container(fn, path):
    """the container reached by `path` (`self._context`, `indexes`) is bound to a dict / list display or constructor
    somewhere in the enclosing module (so it is not a defaultdict)"""
    mod = fn
    while getattr(mod, "_parent", None) is not None:
        mod = mod._parent
    for n in ast.walk(mod):
        if isinstance(n, ast.Assign) and any(ast.unparse(t) == path for t in n.targets):
            v = n.value
            if isinstance(v, (ast.Dict, ast.List, ast.DictComp, ast.ListComp, ast.Tuple)):
                return True
            if isinstance(v, ast.Call) and isinstance(v.func, ast.Name) and v.func.id in ("dict", "list", "OrderedDict"):
                return True
    return False


def canon_mutators():
    return {"append", "extend", "insert", "pop", "remove", "clear", "update", "add", "discard", "setdefault", "sort",
            "reverse", "popitem"}


def _is_local(fn, name):
    a = fn.args
    ps = {x.arg for x in a.posonlyargs + a.args + a.kwonlyargs}
    if a.vararg:
        ps.add(a.vararg.arg)
    if a.kwarg:
        ps.add(a.kwarg.arg)
    return name in ps or any(isinstance(n, ast.Name) and n.id == name and isinstance(n.ctx, ast.Store)
                             for n in _own_walk(fn))


def _block_of(st):
    p = getattr(st, "_parent", None)
    if p is None:
        return None
    for nm in ("body", "orelse", "finalbody"):
        blk = getattr(p, nm, None)
        if isinstance(blk, list) and st in blk:
            return blk
    return None


# ---------------------------------------------------------------------------------------------- entry point

def _strip_docstrings(tree):
    """docstrings and type annotations of parameters / results are not behaviour: the analysed copy has none"""
    for n in ast.walk(tree):
        if isinstance(n, (ast.FunctionDef, ast.AsyncFunctionDef, ast.ClassDef)):
            body = _strip_doc(n.body)
            if len(body) != len(n.body):
                n.body[:] = body or [ast.copy_location(ast.Pass(), n.body[0])]


class _Beta(ast.NodeTransformer):
    """N7: `(lambda v: E)(a)` -> E[v := a] for plain positional parameters and arguments that are names, attribute chains
    or constants (no evaluation-order or multiplicity concern).  The reference tree has no immediately applied lambda;
    they arise when a helper taking a callable is inlined (N1) at a call site that passes a lambda."""

    def __init__(self, stats):
        self.stats = stats

    def visit_Call(self, node):
        self.generic_visit(node)
        f = node.func
        if not isinstance(f, ast.Lambda) or node.keywords:
            return node
        a = f.args
        if a.vararg or a.kwarg or a.kwonlyargs or a.defaults or a.posonlyargs or len(a.args) != len(node.args):
            return node

        def simple(e):
            while isinstance(e, ast.Attribute):
                e = e.value
            return isinstance(e, (ast.Name, ast.Constant))
        if not all(simple(x) for x in node.args):
            return node
        mapping = {p.arg: x for p, x in zip(a.args, node.args)}
        # capture: a name of an argument must not be re-bound inside the body (comprehension / inner lambda targets)
        arg_names = {n.id for x in node.args for n in ast.walk(x) if isinstance(n, ast.Name)}
        rebound = {n.id for n in ast.walk(f.body) if isinstance(n, ast.Name) and isinstance(n.ctx, ast.Store)}
        rebound |= {p.arg for n in ast.walk(f.body) if isinstance(n, ast.Lambda) for p in n.args.args}
        if arg_names & rebound:
            return node
        body = _Subst(mapping).visit(_clone(f.body))
        self.stats["beta_reduced"] = self.stats.get("beta_reduced", 0) + 1
        return ast.copy_location(body, node)


def _resugar_bool_search(fn, ref_nrets, stats):
    """N8: a function that had a single `return <boolean expression>` in the reference and now answers through a chain of
    `if c: return True` / `for x in it: if c: return True` / `return False` statements is folded back into the single
    return (the inverse of what a developer does when writing `any(..)` out as a search loop).  Leading statements without a
    return (explaining locals) stay in front."""
    if ref_nrets != 1:
        return
    body = fn.body
    rets = [n for n in _own_walk(fn) if isinstance(n, ast.Return)]
    if len(rets) < 2:
        return
    for i in range(len(body)):
        if any(isinstance(n, ast.Return) for st in body[:i] for n in ast.walk(st)):
            return
        e = _bool_search(body[i:])
        if e is not None:
            # any(a and b for x in it) == any(b for x in it if a): the filter form is the one comprehensions are written in
            for n in ast.walk(e):
                if isinstance(n, ast.Call) and isinstance(n.func, ast.Name) and n.func.id == "any" and len(n.args) == 1 and \
                        isinstance(n.args[0], ast.GeneratorExp) and isinstance(n.args[0].elt, ast.BoolOp) and \
                        isinstance(n.args[0].elt.op, ast.And) and len(n.args[0].generators) == 1:
                    g = n.args[0]
                    g.generators[0].ifs = list(g.generators[0].ifs) + list(g.elt.values[:-1])
                    g.elt = g.elt.values[-1]
            new = ast.Return(value=e)
            _loc(new, body[i])
            fn.body = body[:i] + [new]
            stats["resugared_bool_search"] = stats.get("resugared_bool_search", 0) + 1
            return


def apply(modname, tree):
    stats = {}
    if os.environ.get("HSA_NO_NORMALIZE") or os.environ.get("HSA_NO_CANON"):
        return stats
    _strip_docstrings(tree)
    table = canon._load()
    ref = table.get("__ref__", {}).get(modname)
    if not ref:
        return stats
    ref_funcs = set(ref.get("functions", []))
    _inline_helpers(tree, modname, ref_funcs, stats)
    _Beta(stats).visit(tree)
    ref_locals = table.get(modname, {})
    for n in ast.walk(tree):
        for c in ast.iter_child_nodes(n):
            c._parent = n
    tree._parent = None
    for q, fn in list(_all_functions(tree, modname)):
        if q not in ref_funcs or ref.get("digests", {}).get(q) == fn_digest(fn):
            continue          # new function (analysed as written) / unchanged function (nothing to undo)
        _resugar_bool_search(fn, ref.get("nrets", {}).get(q), stats)
        _split_parallel_assigns(fn, set(ref.get("parallel", {}).get(q, [])), stats)
        _desugar_comps(fn, set(ref.get("comps", {}).get(q, [])), stats,
                       loopbuilt=frozenset(ref.get("loopbuilt", {}).get(q, [])), ref_ncomps=ref.get("ncomps", {}).get(q, 0))
        _resugar_loops(fn, frozenset(ref.get("compbuilt", {}).get(q, [])),
                       frozenset(ref.get("loopbuilt", {}).get(q, [])), stats)
        _inline_locals(fn, q, ref_locals, stats)
    ast.fix_missing_locations(tree)
    return stats
