"""hsa - hephaestus static analysis.

Pure-Python static checkers over /repo's source (ast only).  Nothing from
/repo is imported or executed by the deciding step.
"""
